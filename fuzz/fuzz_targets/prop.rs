#![no_main]
//! Coverage-guided fuzzing of any property: the fuzzer's bytes are the choice tape of the property
//! named by VERIF_FUZZ_PROP, the semantic oracle runs inside the target.
use libfuzzer_sys::fuzz_target;
use std::sync::OnceLock;

static ID: OnceLock<String> = OnceLock::new();

fuzz_target!(|data: &[u8]| {
    let id = ID.get_or_init(|| std::env::var("VERIF_FUZZ_PROP").expect("set VERIF_FUZZ_PROP=C01..C20"));
    ommx_verif::fuzz_one(id, data);
});
