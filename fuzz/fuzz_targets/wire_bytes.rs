#![no_main]
//! Byte-level target for C07: arbitrary bytes against every message type. Whenever the Rust binding
//! accepts the bytes and the independent schema-driven decoder accepts them too, both must read the
//! same content; the Rust re-encoding must be readable by the independent decoder with the same content.
use libfuzzer_sys::fuzz_target;

fuzz_target!(|data: &[u8]| {
    ommx_verif::props::c07::fuzz_bytes(data);
});
