//! Run loop: proptest-driven random phase over choice tapes (16 deterministic shards),
//! fixed sweeps, corpus replay, classification, evidence, known findings, replay files.

use crate::tape::{self, Tape};
use proptest::prelude::*;
use proptest::test_runner::{Config, RngAlgorithm, TestCaseError, TestError, TestRng, TestRunner};
use serde_json::{json, Value};
use sha2::{Digest, Sha256};
use std::collections::{BTreeMap, HashSet};
use std::panic::{catch_unwind, AssertUnwindSafe};
use std::path::{Path, PathBuf};
use std::sync::Mutex;
use std::time::Instant;

pub const VERIF_DIR: &str = "/verif";
pub const SHARDS: usize = 16;

#[derive(Clone, Copy, PartialEq, Eq, Debug)]
pub enum Tier {
    Quick,
    Thorough,
}

impl Tier {
    pub fn name(self) -> &'static str {
        match self {
            Tier::Quick => "quick",
            Tier::Thorough => "thorough",
        }
    }
}

pub fn inconclusive(msg: &str) -> ! {
    println!("INCONCLUSIVE: {msg}");
    eprintln!("INCONCLUSIVE: {msg}");
    std::process::exit(2)
}

#[derive(Debug, Clone)]
pub struct Failure {
    /// root-cause class + discriminating facet, e.g. "C17/bound-keyword=FR"
    pub signature: String,
    pub message: String,
}

pub type PResult = Result<(), Failure>;

pub fn fail<T>(signature: impl Into<String>, message: impl Into<String>) -> Result<T, Failure> {
    Err(Failure {
        signature: signature.into(),
        message: message.into(),
    })
}

#[macro_export]
macro_rules! check {
    ($cond:expr, $sig:expr, $($arg:tt)*) => {
        if !($cond) {
            return Err($crate::driver::Failure { signature: ($sig).to_string(), message: format!($($arg)*) });
        }
    };
}

/// Per-case context: labels, non-triviality, fingerprint of the decoded case, sample text.
pub struct Ctx {
    pub labels: Vec<String>,
    pub nontrivial: bool,
    hasher: Sha256,
    has_fp: bool,
    pub want_sample: bool,
    pub sample: Option<Value>,
    pub tier: Tier,
    /// abstentions etc. that should be counted
    pub excluded: Vec<String>,
}

impl Ctx {
    pub fn new(tier: Tier, want_sample: bool) -> Self {
        Ctx {
            labels: Vec::new(),
            nontrivial: false,
            hasher: Sha256::new(),
            has_fp: false,
            want_sample,
            sample: None,
            tier,
            excluded: Vec::new(),
        }
    }
    pub fn label(&mut self, l: impl Into<String>) {
        let l = l.into();
        if !self.labels.contains(&l) {
            self.labels.push(l);
        }
    }
    pub fn label_if(&mut self, c: bool, l: &str) {
        if c {
            self.label(l);
        }
    }
    pub fn nontrivial(&mut self) {
        self.nontrivial = true;
    }
    pub fn exclude(&mut self, what: impl Into<String>) {
        self.excluded.push(what.into());
    }
    /// feed bytes describing the *decoded case* (not the tape)
    pub fn fp(&mut self, bytes: &[u8]) {
        self.hasher.update((bytes.len() as u64).to_le_bytes());
        self.hasher.update(bytes);
        self.has_fp = true;
    }
    pub fn fp_msg<M: prost::Message>(&mut self, m: &M) {
        self.fp(&m.encode_to_vec());
    }
    /// order-independent fingerprint of a state (HashMap iteration order must not leak)
    pub fn fp_state(&mut self, s: &ommx::v1::State) {
        let mut v: Vec<(u64, u64)> = s.entries.iter().map(|(k, x)| (*k, x.to_bits())).collect();
        v.sort_unstable();
        for (k, x) in v {
            self.hasher.update(k.to_le_bytes());
            self.hasher.update(x.to_le_bytes());
        }
        self.has_fp = true;
    }
    pub fn fp_str(&mut self, s: &str) {
        self.fp(s.as_bytes());
    }
    pub fn fp_dbg<T: std::fmt::Debug>(&mut self, t: &T) {
        self.fp(format!("{t:?}").as_bytes());
    }
    pub fn sample_with(&mut self, f: impl FnOnce() -> Value) {
        if self.want_sample && self.sample.is_none() {
            self.sample = Some(f());
        }
    }
    fn fingerprint(&self, tape: &[u8]) -> u64 {
        let d = if self.has_fp {
            self.hasher.clone().finalize()
        } else {
            let mut h = Sha256::new();
            h.update(tape);
            h.finalize()
        };
        u64::from_le_bytes(d[..8].try_into().unwrap())
    }
}

pub struct SweepCase<'a> {
    pub name: String,
    pub run: Box<dyn FnOnce(&mut Ctx) -> PResult + 'a>,
}

pub trait Property: Sync + Send {
    fn id(&self) -> &'static str;
    fn rule(&self) -> &'static str;
    fn required_labels(&self) -> Vec<String> {
        vec![]
    }
    fn cases(&self, tier: Tier) -> usize;
    fn tape_max(&self) -> usize {
        192
    }
    fn assumptions(&self) -> Vec<String> {
        vec![]
    }
    /// one generated case
    fn run(&self, tape: &mut Tape, ctx: &mut Ctx) -> PResult;
    /// fixed / exhaustive sweeps executed in front of the random phase: number of sweep cases
    fn sweep_len(&self, _tier: Tier) -> usize {
        0
    }
    /// run sweep case `i` (0-based)
    fn sweep_case(&self, _tier: Tier, _i: usize, _ctx: &mut Ctx) -> PResult {
        Ok(())
    }
    /// run one case inside a child process (used where a hang / OOM is itself the violation);
    /// exit code 0 = pass, 3 = failure (signature and message printed on stdout)
    fn child(&self, _bytes: &[u8]) -> i32 {
        0
    }
    /// description of what the sweeps enumerate (for the evidence file)
    fn sweep_description(&self) -> Option<String> {
        None
    }
}

// ---------------------------------------------------------------------------------------
// panic capture
// ---------------------------------------------------------------------------------------

thread_local! {
    static LAST_PANIC: std::cell::RefCell<Option<(String, String)>> = const { std::cell::RefCell::new(None) };
}

pub fn install_panic_hook() {
    std::panic::set_hook(Box::new(|info| {
        let loc = info
            .location()
            .map(|l| {
                let f = l.file();
                let f = f.rsplit("/rust/ommx/").next().unwrap_or(f);
                format!("{}:{}", f, l.line())
            })
            .unwrap_or_else(|| "?".to_string());
        let msg = if let Some(s) = info.payload().downcast_ref::<&str>() {
            s.to_string()
        } else if let Some(s) = info.payload().downcast_ref::<String>() {
            s.clone()
        } else {
            "<non-string panic>".to_string()
        };
        LAST_PANIC.with(|p| *p.borrow_mut() = Some((loc, msg)));
    }));
}

/// Run one case, converting panics into failures.
pub fn run_case(prop: &dyn Property, bytes: &[u8], ctx: &mut Ctx) -> PResult {
    let r = catch_unwind(AssertUnwindSafe(|| {
        let mut t = Tape::new(bytes);
        prop.run(&mut t, ctx)
    }));
    match r {
        Ok(r) => r,
        Err(_) => Err(panic_failure(prop.id())),
    }
}

fn panic_failure(id: &str) -> Failure {
    let (loc, msg) = LAST_PANIC
        .with(|p| p.borrow_mut().take())
        .unwrap_or(("?".into(), "?".into()));
    let short: String = msg.chars().take(60).collect();
    Failure {
        signature: format!("{id}/panic@{loc}:{short}"),
        message: format!("panic at {loc}: {msg}"),
    }
}

fn run_sweep_case(prop: &dyn Property, tier: Tier, i: usize, ctx: &mut Ctx) -> PResult {
    let r = catch_unwind(AssertUnwindSafe(|| prop.sweep_case(tier, i, ctx)));
    match r {
        Ok(r) => r,
        Err(_) => Err(panic_failure(prop.id())),
    }
}

// ---------------------------------------------------------------------------------------
// known findings
// ---------------------------------------------------------------------------------------

#[derive(Clone, Debug)]
pub struct Finding {
    pub property: String,
    pub status: String, // "open" | "fixed"
    pub signature: String,
    pub description: String,
}

pub fn load_findings() -> Vec<Finding> {
    let p = Path::new(VERIF_DIR).join("known_findings.json");
    let Ok(txt) = std::fs::read_to_string(&p) else {
        return vec![];
    };
    let v: Value = serde_json::from_str(&txt).unwrap_or_else(|e| inconclusive(&format!("known_findings.json unreadable: {e}")));
    let mut out = vec![];
    for f in v["findings"].as_array().cloned().unwrap_or_default() {
        out.push(Finding {
            property: f["property"].as_str().unwrap_or("").to_string(),
            status: f["status"].as_str().unwrap_or("").to_string(),
            signature: f["signature"].as_str().unwrap_or("").to_string(),
            description: f["description"].as_str().unwrap_or("").to_string(),
        });
    }
    out
}

// ---------------------------------------------------------------------------------------
// statistics
// ---------------------------------------------------------------------------------------

#[derive(Default)]
struct Stats {
    evaluations: u64,
    nontrivial_fps: HashSet<u64>,
    all_fps: HashSet<u64>,
    labels: BTreeMap<String, u64>,
    samples: Vec<Value>,
    excluded: BTreeMap<String, u64>,
    known_hits: BTreeMap<String, u64>,
}

impl Stats {
    fn absorb_case(&mut self, ctx: Ctx, tape: &[u8]) {
        self.evaluations += 1;
        let fp = ctx.fingerprint(tape);
        self.all_fps.insert(fp);
        if ctx.nontrivial {
            let new = self.nontrivial_fps.insert(fp);
            if new && self.samples.len() < 4 {
                if let Some(s) = ctx.sample {
                    self.samples.push(s);
                }
            }
        }
        for l in ctx.labels {
            *self.labels.entry(l).or_default() += 1;
        }
        for e in ctx.excluded {
            *self.excluded.entry(e).or_default() += 1;
        }
    }
    fn merge(&mut self, o: Stats) {
        self.evaluations += o.evaluations;
        self.nontrivial_fps.extend(o.nontrivial_fps);
        self.all_fps.extend(o.all_fps);
        for (k, v) in o.labels {
            *self.labels.entry(k).or_default() += v;
        }
        for (k, v) in o.excluded {
            *self.excluded.entry(k).or_default() += v;
        }
        for (k, v) in o.known_hits {
            *self.known_hits.entry(k).or_default() += v;
        }
        for s in o.samples {
            if self.samples.len() < 8 {
                self.samples.push(s);
            }
        }
    }
}

pub struct Violation {
    pub failure: Failure,
    pub tape: Option<Vec<u8>>,
    pub sweep_index: Option<usize>,
}

fn seed32(seed: u64, id: &str, shard: usize, round: usize) -> [u8; 32] {
    let mut h = Sha256::new();
    h.update(b"ommx-verif");
    h.update(seed.to_le_bytes());
    h.update(id.as_bytes());
    h.update((shard as u64).to_le_bytes());
    h.update((round as u64).to_le_bytes());
    h.finalize().into()
}

fn is_known(findings: &[Finding], id: &str, sig: &str) -> bool {
    findings
        .iter()
        .any(|f| f.status == "open" && f.property == id && f.signature == sig)
}

/// One shard of the random phase.
fn run_shard(
    prop: &dyn Property,
    tier: Tier,
    seed: u64,
    shard: usize,
    round: usize,
    cases: usize,
    findings: &[Finding],
) -> (Stats, Option<Violation>) {
    let mut stats = Stats::default();
    if cases == 0 {
        return (stats, None);
    }
    let config = Config {
        cases: cases as u32,
        failure_persistence: None,
        max_shrink_iters: 4000,
        max_global_rejects: 1,
        verbose: 0,
        ..Config::default()
    };
    let rng = TestRng::from_seed(RngAlgorithm::ChaCha, &seed32(seed, prop.id(), shard, round));
    let mut runner = TestRunner::new_with_rng(config, rng);
    let strat = proptest::collection::vec(any::<u8>(), 0..=prop.tape_max());
    struct Sh {
        stats: Stats,
        failed: bool,
        last_failure: Option<Failure>,
    }
    let sh = std::cell::RefCell::new(Sh {
        stats: std::mem::take(&mut stats),
        failed: false,
        last_failure: None,
    });
    let want_samples = shard == 0 || shard == 7;
    let res = runner.run(&strat, |bytes| {
        let mut g = sh.borrow_mut();
        let g = &mut *g;
        let mut ctx = Ctx::new(tier, want_samples && !g.failed && g.stats.samples.len() < 4);
        let r = run_case(prop, &bytes, &mut ctx);
        match r {
            Ok(()) => {
                if !g.failed {
                    g.stats.absorb_case(ctx, &bytes);
                }
                Ok(())
            }
            Err(f) => {
                if is_known(findings, prop.id(), &f.signature) {
                    if !g.failed {
                        *g.stats.known_hits.entry(f.signature.clone()).or_default() += 1;
                        g.stats.absorb_case(ctx, &bytes);
                    }
                    return Ok(());
                }
                if f.signature.contains("/hang") {
                    // a hang cannot be shrunk in reasonable time (every failing attempt costs the full timeout)
                    let v = Violation { failure: f, tape: Some(bytes.clone()), sweep_index: None };
                    let path = write_replay(prop, tier, &v);
                    println!("FAILURE signature={}", v.failure.signature);
                    println!("  {}", v.failure.message.replace('\n', "\n  "));
                    println!("VIOLATION property={} replay={}", prop.id(), path.display());
                    std::process::exit(1);
                }
                if !g.failed {
                    g.stats.evaluations += 1;
                }
                g.failed = true;
                let msg = f.message.clone();
                g.last_failure = Some(f);
                Err(TestCaseError::fail(msg))
            }
        }
    });
    let Sh { stats, last_failure, .. } = sh.into_inner();
    match res {
        Ok(()) => (stats, None),
        Err(TestError::Fail(_, bytes)) => {
            // second, deterministic minimiser on top of proptest's shrinking
            let min = tape::minimise(&bytes, 3000, |cand| {
                let mut ctx = Ctx::new(tier, false);
                match run_case(prop, cand, &mut ctx) {
                    Err(f) => !is_known(findings, prop.id(), &f.signature),
                    Ok(()) => false,
                }
            });
            let mut ctx = Ctx::new(tier, false);
            let failure = match run_case(prop, &min, &mut ctx) {
                Err(f) => f,
                Ok(()) => last_failure.unwrap_or(Failure {
                    signature: format!("{}/unstable", prop.id()),
                    message: "failure did not reproduce on the minimised tape".into(),
                }),
            };
            (
                stats,
                Some(Violation {
                    failure,
                    tape: Some(min),
                    sweep_index: None,
                }),
            )
        }
        Err(TestError::Abort(r)) => inconclusive(&format!("proptest aborted: {r}")),
    }
}

pub struct RunResult {
    pub exit: i32,
}

fn replay_dir(id: &str) -> PathBuf {
    Path::new(VERIF_DIR).join("replays").join(id)
}

fn write_replay(prop: &dyn Property, tier: Tier, v: &Violation) -> PathBuf {
    let dir = replay_dir(prop.id());
    let _ = std::fs::create_dir_all(&dir);
    let mut h = Sha256::new();
    h.update(v.failure.signature.as_bytes());
    let hh = h.finalize();
    let name = format!("{}-{}.json", prop.id(), tape::to_hex(&hh[..6]));
    let path = dir.join(name);
    // decoded case for the reader
    let mut case = Value::Null;
    if let Some(t) = &v.tape {
        let mut ctx = Ctx::new(tier, true);
        let _ = run_case(prop, t, &mut ctx);
        if let Some(s) = ctx.sample {
            case = s;
        }
    }
    let doc = json!({
        "property": prop.id(),
        "tier": tier.name(),
        "signature": v.failure.signature,
        "message": v.failure.message,
        "tape_hex": v.tape.as_ref().map(|t| tape::to_hex(t)),
        "sweep_index": v.sweep_index,
        "case": case,
        // the process environment is part of the case for properties that set it (C20: local time zone)
        "env_tz": std::env::var("TZ").ok(),
    });
    std::fs::write(&path, serde_json::to_string_pretty(&doc).unwrap()).unwrap_or_else(|e| inconclusive(&format!("cannot write replay: {e}")));
    path
}

fn corpus_tapes(id: &str) -> Vec<(String, Vec<u8>)> {
    let dir = Path::new(VERIF_DIR).join("corpus").join(id);
    let mut out = vec![];
    let Ok(rd) = std::fs::read_dir(&dir) else {
        return out;
    };
    let mut names: Vec<_> = rd.filter_map(|e| e.ok()).map(|e| e.path()).collect();
    names.sort();
    for p in names {
        if let Ok(txt) = std::fs::read_to_string(&p) {
            let hex = if p.extension().map(|e| e == "json").unwrap_or(false) {
                serde_json::from_str::<Value>(&txt)
                    .ok()
                    .and_then(|v| v["tape_hex"].as_str().map(|s| s.to_string()))
            } else {
                Some(txt.lines().find(|l| !l.starts_with('#')).unwrap_or("").to_string())
            };
            if let Some(t) = hex.and_then(|h| tape::from_hex(&h)) {
                out.push((p.file_name().unwrap().to_string_lossy().to_string(), t));
            }
        }
    }
    out
}

pub fn run_property(prop: &dyn Property, tier: Tier, seed: u64) -> RunResult {
    let start = Instant::now();
    let findings = load_findings();
    let id = prop.id();
    let mut total = Stats::default();
    let mut violation: Option<Violation> = None;
    let mut corpus_n = 0u64;
    let mut sweep_n = 0u64;

    // 1. corpus replay
    for (_name, t) in corpus_tapes(id) {
        let mut ctx = Ctx::new(tier, false);
        corpus_n += 1;
        match run_case(prop, &t, &mut ctx) {
            Ok(()) => total.absorb_case(ctx, &t),
            Err(f) => {
                if is_known(&findings, id, &f.signature) {
                    *total.known_hits.entry(f.signature.clone()).or_default() += 1;
                    total.absorb_case(ctx, &t);
                } else {
                    violation = Some(Violation {
                        failure: f,
                        tape: Some(t),
                        sweep_index: None,
                    });
                    break;
                }
            }
        }
    }

    // 2. sweeps (parallel over indices, first failing index wins)
    if violation.is_none() {
        // VERIF_SKIP_SWEEP is a debugging aid for sensitivity probes of the random phase (never set by registered commands)
        let n = if std::env::var("VERIF_SKIP_SWEEP").is_ok() { 0 } else { prop.sweep_len(tier) };
        if n > 0 {
            let next = std::sync::atomic::AtomicUsize::new(0);
            let results: Mutex<(Stats, Option<(usize, Failure)>)> = Mutex::new((Stats::default(), None));
            let threads = std::thread::available_parallelism().map(|x| x.get()).unwrap_or(4).min(16);
            std::thread::scope(|s| {
                for _ in 0..threads {
                    s.spawn(|| {
                        install_thread();
                        let mut local = Stats::default();
                        let mut local_fail: Option<(usize, Failure)> = None;
                        loop {
                            let i = next.fetch_add(1, std::sync::atomic::Ordering::SeqCst);
                            if i >= n {
                                break;
                            }
                            let mut ctx = Ctx::new(tier, i % 97 == 0);
                            let r = run_sweep_case(prop, tier, i, &mut ctx);
                            let key = (i as u64).to_le_bytes();
                            match r {
                                Ok(()) => local.absorb_case(ctx, &key),
                                Err(f) => {
                                    if is_known(&findings, id, &f.signature) {
                                        *local.known_hits.entry(f.signature.clone()).or_default() += 1;
                                        local.absorb_case(ctx, &key);
                                    } else {
                                        local.evaluations += 1;
                                        if local_fail.as_ref().map(|(j, _)| i < *j).unwrap_or(true) {
                                            local_fail = Some((i, f));
                                        }
                                    }
                                }
                            }
                        }
                        let mut g = results.lock().unwrap();
                        g.0.merge(local);
                        if let Some((i, f)) = local_fail {
                            if g.1.as_ref().map(|(j, _)| i < *j).unwrap_or(true) {
                                g.1 = Some((i, f));
                            }
                        }
                    });
                }
            });
            let (st, fl) = results.into_inner().unwrap();
            sweep_n = st.evaluations;
            total.merge(st);
            if let Some((i, f)) = fl {
                violation = Some(Violation {
                    failure: f,
                    tape: None,
                    sweep_index: Some(i),
                });
            }
        }
    }

    // 3. random phase, 16 deterministic shards; extra rounds while required labels are missing
    let required = prop.required_labels();
    let mut rounds = 0usize;
    if violation.is_none() {
        // VERIF_CASES_DIV: measuring aid for instrumented builds (tools/coverage.sh); no registered command sets it.
        let div = std::env::var("VERIF_CASES_DIV").ok().and_then(|s| s.parse::<usize>().ok()).filter(|d| *d > 0).unwrap_or(1);
        let cases = (prop.cases(tier) / div).max(SHARDS);
        loop {
            let per = cases.div_ceil(SHARDS);
            let results: Mutex<Vec<(usize, Stats, Option<Violation>)>> = Mutex::new(vec![]);
            let next = std::sync::atomic::AtomicUsize::new(0);
            let threads = std::thread::available_parallelism().map(|x| x.get()).unwrap_or(4).min(SHARDS);
            std::thread::scope(|s| {
                for _ in 0..threads {
                    s.spawn(|| {
                        install_thread();
                        loop {
                            let shard = next.fetch_add(1, std::sync::atomic::Ordering::SeqCst);
                            if shard >= SHARDS {
                                break;
                            }
                            let (st, v) = run_shard(prop, tier, seed, shard, rounds, per, &findings);
                            results.lock().unwrap().push((shard, st, v));
                        }
                    });
                }
            });
            let mut rs = results.into_inner().unwrap();
            rs.sort_by_key(|r| r.0);
            for (_shard, st, v) in rs {
                total.merge(st);
                if violation.is_none() {
                    violation = v;
                }
            }
            rounds += 1;
            let missing: Vec<_> = required
                .iter()
                .filter(|l| total.labels.get(*l).copied().unwrap_or(0) == 0)
                .cloned()
                .collect();
            if violation.is_some() || missing.is_empty() {
                break;
            }
            if rounds >= 6 {
                write_evidence(prop, tier, seed, &total, start, 0, corpus_n, sweep_n, rounds, &missing);
                inconclusive(&format!(
                    "{id}: required case classes never generated after {rounds} rounds: {missing:?}"
                ));
            }
        }
    }

    // report
    for (sig, n) in &total.known_hits {
        let desc = findings
            .iter()
            .find(|f| &f.signature == sig)
            .map(|f| f.description.clone())
            .unwrap_or_default();
        println!("KNOWN-FINDING: property={id} {sig} ({n} cases): {desc}");
    }
    let nviol = if violation.is_some() { 1 } else { 0 };
    write_evidence(prop, tier, seed, &total, start, nviol, corpus_n, sweep_n, rounds, &[]);
    if let Some(v) = violation {
        let path = write_replay(prop, tier, &v);
        println!("FAILURE signature={}", v.failure.signature);
        println!("  {}", v.failure.message.replace('\n', "\n  "));
        println!("VIOLATION property={} replay={}", id, path.display());
        return RunResult { exit: 1 };
    }
    println!(
        "OK property={id} tier={} seed={seed} evaluations={} distinct_nontrivial={} wall_s={:.1}",
        tier.name(),
        total.evaluations,
        total.nontrivial_fps.len(),
        start.elapsed().as_secs_f64()
    );
    RunResult { exit: 0 }
}

fn install_thread() {
    // panic hook is global; nothing per thread yet
}

#[allow(clippy::too_many_arguments)]
fn write_evidence(
    prop: &dyn Property,
    tier: Tier,
    seed: u64,
    st: &Stats,
    start: Instant,
    violations: i64,
    corpus_n: u64,
    sweep_n: u64,
    rounds: usize,
    missing: &[String],
) {
    // VERIF_EVIDENCE_DIR: measuring aid (tools/coverage.sh, soak runs) so that side runs do not overwrite the
    // registered evidence; no registered command sets it.
    let dir = match std::env::var("VERIF_EVIDENCE_DIR") {
        Ok(d) if !d.is_empty() => std::path::PathBuf::from(d),
        _ => Path::new(VERIF_DIR).join("evidence"),
    };
    let _ = std::fs::create_dir_all(&dir);
    let mut samples = st.samples.clone();
    if samples.is_empty() {
        samples.push(json!("(no sample captured: no non-trivial case in the sampled shards)"));
    }
    let doc = json!({
        "property_id": prop.id(),
        "tier": tier.name(),
        "seed": seed,
        "level": "exploration",
        "coverage": {
            "evaluations": st.evaluations,
            "distinct_nontrivial": st.nontrivial_fps.len(),
            "distinct_cases": st.all_fps.len(),
            "rule": prop.rule(),
            "samples": samples,
            "labels": st.labels,
            "required_labels": prop.required_labels(),
            "required_labels_missing": missing,
            "corpus_cases_replayed": corpus_n,
            "sweep_cases": sweep_n,
            "sweep_description": prop.sweep_description(),
            "exhaustive": false,
            "random_rounds": rounds,
            "shards": SHARDS,
            "excluded_by_construction": st.excluded,
            "known_findings_hit": st.known_hits,
            "engine": "proptest 1.6 TestRunner (ChaCha rng seeded from VERIF_SEED) over Vec<u8> choice tapes + deterministic tape minimiser",
        },
        "assumptions": prop.assumptions(),
        "wall_s": start.elapsed().as_secs_f64(),
        "violations": violations,
    });
    let path = dir.join(format!("{}.json", prop.id()));
    std::fs::write(&path, serde_json::to_string_pretty(&doc).unwrap())
        .unwrap_or_else(|e| inconclusive(&format!("cannot write evidence: {e}")));
}

/// Replay a saved file: exit 1 + VIOLATION if it still fails.
pub fn replay(props: &[Box<dyn Property>], path: &str) -> i32 {
    let txt = std::fs::read_to_string(path).unwrap_or_else(|e| inconclusive(&format!("cannot read {path}: {e}")));
    let v: Value = serde_json::from_str(&txt).unwrap_or_else(|e| inconclusive(&format!("bad replay file: {e}")));
    let id = v["property"].as_str().unwrap_or("");
    let Some(prop) = props.iter().find(|p| p.id() == id) else {
        inconclusive(&format!("unknown property {id}"))
    };
    let tier = if v["tier"].as_str() == Some("thorough") {
        Tier::Thorough
    } else {
        Tier::Quick
    };
    if let Some(tz) = v["env_tz"].as_str() {
        // single-threaded at this point
        std::env::set_var("TZ", tz);
    }
    let mut ctx = Ctx::new(tier, true);
    let r = if let Some(h) = v["tape_hex"].as_str() {
        let t = tape::from_hex(h).unwrap_or_else(|| inconclusive("bad tape hex"));
        run_case(prop.as_ref(), &t, &mut ctx)
    } else if let Some(i) = v["sweep_index"].as_u64() {
        run_sweep_case(prop.as_ref(), tier, i as usize, &mut ctx)
    } else {
        inconclusive("replay file has neither tape_hex nor sweep_index")
    };
    if let Some(s) = &ctx.sample {
        println!("case: {}", serde_json::to_string_pretty(s).unwrap());
    }
    match r {
        Ok(()) => {
            println!("replay passes: property={id}");
            0
        }
        Err(f) => {
            println!("FAILURE signature={}", f.signature);
            println!("  {}", f.message.replace('\n', "\n  "));
            println!("VIOLATION property={id} replay={path}");
            1
        }
    }
}

/// Run `f` on a helper thread; None if it does not return within `secs` (the thread is left behind;
/// callers report a "/hang" failure, which the driver treats as fatal: no shrinking, immediate exit 1).
pub fn run_with_timeout<T: Send + 'static>(secs: u64, f: impl FnOnce() -> T + Send + 'static) -> Option<T> {
    let (tx, rx) = std::sync::mpsc::channel();
    std::thread::spawn(move || {
        let r = catch_unwind(AssertUnwindSafe(f));
        let _ = tx.send(r);
    });
    match rx.recv_timeout(std::time::Duration::from_secs(secs)) {
        Ok(Ok(v)) => Some(v),
        Ok(Err(p)) => std::panic::resume_unwind(p),
        Err(_) => None,
    }
}

/// Run a raw tape (e.g. a libFuzzer artifact): minimise, write a replay file, print the VIOLATION line.
pub fn report_tape(prop: &dyn Property, bytes: &[u8]) -> i32 {
    let findings = load_findings();
    let fails = |cand: &[u8]| {
        let mut ctx = Ctx::new(Tier::Thorough, false);
        match run_case(prop, cand, &mut ctx) {
            Err(f) => !is_known(&findings, prop.id(), &f.signature),
            Ok(()) => false,
        }
    };
    if !fails(bytes) {
        println!("tape passes: property={}", prop.id());
        return 0;
    }
    let min = tape::minimise(bytes, 3000, fails);
    let mut ctx = Ctx::new(Tier::Thorough, false);
    let failure = match run_case(prop, &min, &mut ctx) {
        Err(f) => f,
        Ok(()) => return 2,
    };
    let v = Violation { failure, tape: Some(min), sweep_index: None };
    let path = write_replay(prop, Tier::Thorough, &v);
    println!("FAILURE signature={}", v.failure.signature);
    println!("  {}", v.failure.message.replace('\n', "\n  "));
    println!("VIOLATION property={} replay={}", prop.id(), path.display());
    1
}

pub fn write_seed_corpus(prop: &dyn Property, seed: u64, dir: &str) -> i32 {
    let _ = std::fs::create_dir_all(dir);
    let mut n = 0;
    for (name, t) in corpus_tapes(prop.id()) {
        let _ = std::fs::write(Path::new(dir).join(format!("corpus-{name}.tape")), &t);
        n += 1;
    }
    // deterministic pseudo-random tapes of full length (libFuzzer ramps lengths slowly from an empty corpus)
    let mut x = seed32(seed, prop.id(), 999, 0);
    for i in 0..64 {
        let len = prop.tape_max() * (1 + i % 4) / 4;
        let mut t = Vec::with_capacity(len);
        while t.len() < len {
            let mut h = Sha256::new();
            h.update(x);
            h.update((i as u64).to_le_bytes());
            x = h.finalize().into();
            t.extend_from_slice(&x);
        }
        t.truncate(len);
        let _ = std::fs::write(Path::new(dir).join(format!("seed-{i:02}.tape")), &t);
        n += 1;
    }
    println!("wrote {n} seed tapes to {dir}");
    0
}

pub fn append_fuzz_evidence(id: &str, execs: &str, corpus: &str, crashes: &str) -> i32 {
    let path = Path::new(VERIF_DIR).join("evidence").join(format!("{id}.json"));
    let Ok(txt) = std::fs::read_to_string(&path) else { return 2 };
    let Ok(mut v) = serde_json::from_str::<Value>(&txt) else { return 2 };
    v["coverage"]["libfuzzer_campaign"] = json!({
        "target": "fuzz_targets/prop.rs (the fuzzer's bytes are the property's choice tape; oracle inside the target)",
        "executions": execs.parse::<u64>().unwrap_or(0),
        "corpus_files_at_end": corpus.parse::<u64>().unwrap_or(0),
        "crash_artifacts": crashes.parse::<u64>().unwrap_or(0),
    });
    if std::fs::write(&path, serde_json::to_string_pretty(&v).unwrap()).is_err() {
        return 2;
    }
    0
}

pub fn start_watchdog(secs: u64) {
    std::thread::spawn(move || {
        std::thread::sleep(std::time::Duration::from_secs(secs));
        inconclusive(&format!("watchdog: run exceeded {secs} s"));
    });
}
