//! Exact polynomial oracle over BigRational. Reads the *raw public prost fields* of the
//! messages; shares no code with the SDK's arithmetic, iterators or comparisons.

use num::{BigInt, BigRational, One, Signed, Zero};
use ommx::v1;
use std::collections::{BTreeMap, BTreeSet};

pub type Q = BigRational;
pub type Mono = Vec<u64>; // sorted multiset of ids

pub fn q(f: f64) -> Q {
    BigRational::from_float(f).unwrap_or_else(|| panic!("oracle: non-finite float {f}"))
}

pub fn qi(i: i64) -> Q {
    BigRational::from_integer(BigInt::from(i))
}

pub fn qfrac(n: i64, d: i64) -> Q {
    BigRational::new(BigInt::from(n), BigInt::from(d))
}

pub fn q_to_f64(x: &Q) -> f64 {
    // good enough for reporting / tolerances (not used for exact decisions)
    use num::ToPrimitive;
    x.to_f64().unwrap_or(f64::NAN)
}

#[derive(Clone, Debug, PartialEq, Eq, Default)]
pub struct Poly {
    pub terms: BTreeMap<Mono, Q>, // no zero coefficients stored
}

pub type QState = BTreeMap<u64, Q>;

pub fn qstate(s: &v1::State) -> QState {
    s.entries.iter().map(|(k, v)| (*k, q(*v))).collect()
}

impl Poly {
    pub fn zero() -> Self {
        Poly::default()
    }

    pub fn constant(c: Q) -> Self {
        let mut p = Poly::zero();
        p.add_term(vec![], c);
        p
    }

    pub fn var(id: u64) -> Self {
        let mut p = Poly::zero();
        p.add_term(vec![id], Q::one());
        p
    }

    pub fn add_term(&mut self, mut ids: Mono, c: Q) {
        if c.is_zero() {
            return;
        }
        ids.sort_unstable();
        let e = self.terms.entry(ids.clone()).or_insert_with(Q::zero);
        *e += c;
        if e.is_zero() {
            self.terms.remove(&ids);
        }
    }

    pub fn from_terms<I: IntoIterator<Item = (Vec<u64>, f64)>>(it: I) -> Self {
        let mut p = Poly::zero();
        for (ids, c) in it {
            p.add_term(ids, q(c));
        }
        p
    }

    pub fn from_linear(l: &v1::Linear) -> Self {
        let mut p = Poly::zero();
        p.add_term(vec![], q(l.constant));
        for t in &l.terms {
            p.add_term(vec![t.id], q(t.coefficient));
        }
        p
    }

    pub fn from_quadratic(qd: &v1::Quadratic) -> Self {
        assert_eq!(qd.rows.len(), qd.columns.len(), "oracle: ragged quadratic");
        assert_eq!(qd.rows.len(), qd.values.len(), "oracle: ragged quadratic");
        let mut p = match &qd.linear {
            Some(l) => Poly::from_linear(l),
            None => Poly::zero(),
        };
        for i in 0..qd.rows.len() {
            p.add_term(vec![qd.rows[i], qd.columns[i]], q(qd.values[i]));
        }
        p
    }

    pub fn from_polynomial(pl: &v1::Polynomial) -> Self {
        let mut p = Poly::zero();
        for m in &pl.terms {
            p.add_term(m.ids.clone(), q(m.coefficient));
        }
        p
    }

    pub fn from_function(f: &v1::Function) -> Self {
        use v1::function::Function as F;
        match &f.function {
            None => Poly::zero(),
            Some(F::Constant(c)) => Poly::constant(q(*c)),
            Some(F::Linear(l)) => Poly::from_linear(l),
            Some(F::Quadratic(x)) => Poly::from_quadratic(x),
            Some(F::Polynomial(x)) => Poly::from_polynomial(x),
            #[allow(unreachable_patterns)]
            _ => crate::driver::inconclusive("Function oneof variant unknown to the oracle"),
        }
    }

    pub fn from_opt_function(f: &Option<v1::Function>) -> Self {
        match f {
            Some(f) => Poly::from_function(f),
            None => Poly::zero(),
        }
    }

    pub fn is_zero(&self) -> bool {
        self.terms.is_empty()
    }

    pub fn degree(&self) -> usize {
        self.terms.keys().map(|k| k.len()).max().unwrap_or(0)
    }

    pub fn vars(&self) -> BTreeSet<u64> {
        self.terms.keys().flat_map(|k| k.iter().copied()).collect()
    }

    pub fn coeff(&self, ids: &[u64]) -> Q {
        let mut k = ids.to_vec();
        k.sort_unstable();
        self.terms.get(&k).cloned().unwrap_or_else(Q::zero)
    }

    pub fn add(&self, o: &Poly) -> Poly {
        let mut r = self.clone();
        for (k, c) in &o.terms {
            r.add_term(k.clone(), c.clone());
        }
        r
    }

    pub fn neg(&self) -> Poly {
        Poly {
            terms: self.terms.iter().map(|(k, c)| (k.clone(), -c.clone())).collect(),
        }
    }

    pub fn sub(&self, o: &Poly) -> Poly {
        self.add(&o.neg())
    }

    pub fn scale(&self, s: &Q) -> Poly {
        let mut r = Poly::zero();
        for (k, c) in &self.terms {
            r.add_term(k.clone(), c * s);
        }
        r
    }

    pub fn mul(&self, o: &Poly) -> Poly {
        let mut r = Poly::zero();
        for (k1, c1) in &self.terms {
            for (k2, c2) in &o.terms {
                let mut k = k1.clone();
                k.extend_from_slice(k2);
                r.add_term(k, c1 * c2);
            }
        }
        r
    }

    pub fn pow(&self, e: usize) -> Poly {
        let mut r = Poly::constant(Q::one());
        for _ in 0..e {
            r = r.mul(self);
        }
        r
    }

    /// Value at a total assignment; None if a variable is missing.
    pub fn eval(&self, s: &QState) -> Option<Q> {
        let mut sum = Q::zero();
        for (k, c) in &self.terms {
            let mut t = c.clone();
            for id in k {
                t *= s.get(id)?;
            }
            sum += t;
        }
        Some(sum)
    }

    /// Sum of absolute values of the terms at the assignment (condition-number numerator).
    pub fn eval_abs(&self, s: &QState) -> Option<Q> {
        let mut sum = Q::zero();
        for (k, c) in &self.terms {
            let mut t = c.abs();
            for id in k {
                t *= s.get(id)?.abs();
            }
            sum += t;
        }
        Some(sum)
    }

    pub fn partial_eval(&self, s: &QState) -> Poly {
        let mut r = Poly::zero();
        for (k, c) in &self.terms {
            let mut t = c.clone();
            let mut rest = Vec::new();
            for id in k {
                match s.get(id) {
                    Some(v) => t *= v,
                    None => rest.push(*id),
                }
            }
            r.add_term(rest, t);
        }
        r
    }

    /// Simultaneous substitution (composition).
    pub fn substitute(&self, map: &BTreeMap<u64, Poly>) -> Poly {
        let mut r = Poly::zero();
        for (k, c) in &self.terms {
            let mut t = Poly::constant(c.clone());
            for id in k {
                match map.get(id) {
                    Some(p) => t = t.mul(p),
                    None => t = t.mul(&Poly::var(*id)),
                }
            }
            r = r.add(&t);
        }
        r
    }

    /// Reduce with x^2 = x (binary variables).
    pub fn multilinear(&self) -> Poly {
        let mut r = Poly::zero();
        for (k, c) in &self.terms {
            let mut ids = k.clone();
            ids.dedup();
            r.add_term(ids, c.clone());
        }
        r
    }

    /// max |coefficient| difference as f64 (reporting only)
    pub fn describe(&self) -> String {
        if self.terms.is_empty() {
            return "0".to_string();
        }
        let mut s = String::new();
        for (k, c) in &self.terms {
            if !s.is_empty() {
                s.push_str(" + ");
            }
            s.push_str(&format!("({})", c));
            for id in k {
                s.push_str(&format!("*x{}", id));
            }
        }
        s
    }
}

/// Syntactic id set of a function message (every id occurring in any field, zero coefficients included).
pub fn syntactic_ids(f: &v1::Function) -> BTreeSet<u64> {
    use v1::function::Function as F;
    let mut s = BTreeSet::new();
    match &f.function {
        None | Some(F::Constant(_)) => {}
        Some(F::Linear(l)) => {
            s.extend(l.terms.iter().map(|t| t.id));
        }
        Some(F::Quadratic(x)) => {
            if let Some(l) = &x.linear {
                s.extend(l.terms.iter().map(|t| t.id));
            }
            s.extend(x.rows.iter().copied());
            s.extend(x.columns.iter().copied());
        }
        Some(F::Polynomial(x)) => {
            for m in &x.terms {
                s.extend(m.ids.iter().copied());
            }
        }
        #[allow(unreachable_patterns)]
        _ => crate::driver::inconclusive("Function oneof variant unknown to the oracle"),
    }
    s
}

/// Raw (un-merged) terms of a message: (ids as written, coefficient).
pub fn raw_terms(f: &v1::Function) -> Vec<(Vec<u64>, f64)> {
    use v1::function::Function as F;
    let mut out = Vec::new();
    let lin = |l: &v1::Linear, out: &mut Vec<(Vec<u64>, f64)>| {
        for t in &l.terms {
            out.push((vec![t.id], t.coefficient));
        }
        out.push((vec![], l.constant));
    };
    match &f.function {
        None => {}
        Some(F::Constant(c)) => out.push((vec![], *c)),
        Some(F::Linear(l)) => lin(l, &mut out),
        Some(F::Quadratic(x)) => {
            for i in 0..x.rows.len() {
                out.push((vec![x.rows[i], x.columns[i]], x.values[i]));
            }
            if let Some(l) = &x.linear {
                lin(l, &mut out);
            }
        }
        Some(F::Polynomial(x)) => {
            for m in &x.terms {
                out.push((m.ids.clone(), m.coefficient));
            }
        }
        #[allow(unreachable_patterns)]
        _ => crate::driver::inconclusive("Function oneof variant unknown to the oracle"),
    }
    out
}

// ---------------------------------------------------------------------------------------
// Comparison regimes
// ---------------------------------------------------------------------------------------

fn lowbit_exp(x: f64) -> Option<i32> {
    // exponent e such that x is an odd multiple of 2^e; None for 0
    if x == 0.0 {
        return None;
    }
    let bits = x.abs().to_bits();
    let exp = ((bits >> 52) & 0x7ff) as i32;
    let mant = bits & ((1u64 << 52) - 1);
    let (m, e) = if exp == 0 {
        (mant, -1074)
    } else {
        (mant | (1u64 << 52), exp - 1075)
    };
    Some(e + m.trailing_zeros() as i32)
}

/// Sufficient condition for *every* evaluation order of sum_t c_t * prod v to be exact in f64:
/// all partial products / partial sums are multiples of a common granularity g and bounded by M
/// with M/g <= 2^53.
pub fn eval_is_provably_exact(terms: &[(Vec<u64>, f64)], state: &v1::State) -> bool {
    // special case: every variable value is 0 or +-1 and at most one term is non-zero: each product is
    // +-coefficient or 0 and the sum adds zeros only, whatever the coefficient looks like (e.g. 1e-6 * x at x = 1)
    {
        let mut nonzero = 0;
        let mut unit = true;
        for (ids, c) in terms {
            let mut z = *c == 0.0;
            for id in ids {
                match state.entries.get(id) {
                    Some(v) if *v == 0.0 => z = true,
                    Some(v) if *v == 1.0 || *v == -1.0 => {}
                    _ => unit = false,
                }
            }
            if !z {
                nonzero += 1;
            }
        }
        if unit && nonzero <= 1 {
            return true;
        }
    }
    let mut gmin: i32 = 0; // exponent of granularity (<= 0)
    let mut mag = 0.0f64;
    for (ids, c) in terms {
        let mut g = lowbit_exp(*c).map(|e| e.min(0)).unwrap_or(0);
        let mut m = c.abs().max(1.0);
        for id in ids {
            let Some(v) = state.entries.get(id) else {
                return false;
            };
            g += lowbit_exp(*v).map(|e| e.min(0)).unwrap_or(0);
            m *= v.abs().max(1.0);
        }
        gmin = gmin.min(g);
        mag += m;
    }
    if !mag.is_finite() {
        return false;
    }
    // mag / 2^gmin <= 2^52 (one bit of slack)
    mag * 2f64.powi(-gmin) <= 4503599627370496.0
}

/// gamma_k = k u / (1 - k u), u = 2^-53
pub fn gamma(k: usize) -> f64 {
    let u = 2f64.powi(-53);
    let ku = k as f64 * u;
    ku / (1.0 - ku)
}

/// |got - exact| <= tol ?  (tol as f64, comparison done exactly)
pub fn within(got: f64, exact: &Q, tol: f64) -> bool {
    if !got.is_finite() {
        return false;
    }
    let d = (q(got) - exact).abs();
    d <= q(tol)
}

pub fn is_exact(got: f64, exact: &Q) -> bool {
    got.is_finite() && &q(got) == exact
}

/// Error that gradual underflow may contribute when the raw terms are evaluated in f64: an intermediate product
/// that falls into the subnormal range is rounded with an ABSOLUTE error of up to 2^-1075, which the remaining
/// factors of the term then amplify. Bound: per term (deg + 1) * 2^-1074 * max(1, |c|) * prod max(1, |x_i|).
pub fn underflow_allowance(terms: &[(Vec<u64>, f64)], mag: &dyn Fn(&u64) -> f64) -> f64 {
    let tiny = f64::from_bits(1); // 2^-1074
    let mut a = 0.0f64;
    for (ids, c) in terms {
        let mut amp = c.abs().max(1.0);
        for id in ids {
            amp *= mag(id).abs().max(1.0);
        }
        a += (ids.len() + 1) as f64 * tiny * amp;
    }
    a
}

/// Rounding tolerance for evaluating a message with `n_terms` raw terms of degree <= deg
/// at a state: generous gamma_k times the sum of absolute term values.
pub fn eval_tol(n_terms: usize, deg: usize, abs_sum: &Q) -> f64 {
    let k = 4 * (n_terms + deg + 8);
    let t = gamma(k) * q_to_f64(abs_sum);
    // guard against subnormal nonsense: allow at least 4 ulps of the smallest normal scale
    t * 1.0000001 + f64::MIN_POSITIVE
}

// ---------------------------------------------------------------------------------------
// Magnitude polynomials: f64 maps monomial -> sum of |contributions| (no cancellation),
// used for rigorous per-coefficient rounding bounds of transformed functions.
// ---------------------------------------------------------------------------------------

pub type AbsPoly = BTreeMap<Mono, f64>;

pub fn abs_of(f: &v1::Function, floor1: bool) -> AbsPoly {
    let mut r = AbsPoly::new();
    for (ids, c) in raw_terms(f) {
        let mut k = ids.clone();
        k.sort_unstable();
        *r.entry(k).or_default() += if floor1 { c.abs().max(1.0) } else { c.abs() };
    }
    r
}

pub fn abs_var(id: u64) -> AbsPoly {
    let mut m = AbsPoly::new();
    m.insert(vec![id], 1.0);
    m
}

pub fn abs_add(a: &AbsPoly, b: &AbsPoly) -> AbsPoly {
    let mut r = a.clone();
    for (k, v) in b {
        *r.entry(k.clone()).or_default() += v;
    }
    r
}

pub fn abs_mul(a: &AbsPoly, b: &AbsPoly) -> AbsPoly {
    let mut r = AbsPoly::new();
    for (k1, c1) in a {
        for (k2, c2) in b {
            let mut k = k1.clone();
            k.extend_from_slice(k2);
            k.sort_unstable();
            *r.entry(k).or_default() += c1 * c2;
        }
    }
    r
}

/// Coefficient-wise comparison: exact when `exact_required`, otherwise
/// |got - exact| <= gamma(k) * mag(m) + drop_factor * EPS * mag1(m) + 2 EPS per monomial.
pub fn compare_poly(got: &Poly, exact: &Poly, exact_required: bool, mag: &AbsPoly, mag1: &AbsPoly, k: usize, drop_factor: f64) -> Result<(), String> {
    if exact_required {
        if got != exact {
            return Err(format!("not exact:\n got   = {}\n exact = {}", got.describe(), exact.describe()));
        }
        return Ok(());
    }
    let keys: BTreeSet<&Mono> = got.terms.keys().chain(exact.terms.keys()).collect();
    for key in keys {
        let g = got.terms.get(key).cloned().unwrap_or_else(Q::zero);
        let e = exact.terms.get(key).cloned().unwrap_or_else(Q::zero);
        let tol = gamma(k) * mag.get(key).copied().unwrap_or(0.0) + f64::EPSILON * (drop_factor * mag1.get(key).copied().unwrap_or(1.0).max(1.0) + 2.0);
        if (g.clone() - e.clone()).abs() > q(tol) {
            return Err(format!("coefficient of {:?}: got {:e}, exact {:e}, tolerance {:e}", key, q_to_f64(&g), q_to_f64(&e), tol));
        }
    }
    Ok(())
}
