//! Function messages in every wire-legal representation.
//!
//! The generator produces the message directly (terms in arbitrary order, repeated terms,
//! explicit zeros, unsorted monomial ids, quadratic entries in any orientation, absent or
//! zero linear part, several id-less monomials, oneof unset). The oracle always reads the
//! message that was produced, so no "intended polynomial" has to be trusted.

use crate::driver::Ctx;
use crate::tape::Tape;
use ommx::v1;
use crate::mk;

#[derive(Clone, Copy, PartialEq, Eq, Debug)]
pub enum Regime {
    /// coefficients k/16 (|k|<=64), values k/8: everything exact
    Dyadic,
    /// any finite reals of moderate magnitude
    General,
}

#[derive(Clone, Debug)]
pub struct FuncCfg {
    pub max_terms: usize,
    pub max_degree: usize,
    pub regime: Regime,
    /// allow `Function { function: None }`
    pub allow_unset: bool,
    /// allow two quadratic entries at the same (row, column) position
    pub allow_dup_quad_pos: bool,
    /// allow un-normalised renderings at all (false: sorted, merged, upper triangular, no zeros)
    pub unnormalised: bool,
    /// force a variant: 0 = free, 1 = constant, 2 = linear, 3 = quadratic, 4 = polynomial
    pub force_variant: u8,
    /// explicit zero coefficients allowed
    pub allow_zero_coeff: bool,
}

impl Default for FuncCfg {
    fn default() -> Self {
        FuncCfg {
            max_terms: 8,
            max_degree: 4,
            regime: Regime::Dyadic,
            allow_unset: true,
            allow_dup_quad_pos: true,
            unnormalised: true,
            force_variant: 0,
            allow_zero_coeff: true,
        }
    }
}

pub const ID_POOL: [u64; 26] = [
    0,
    1,
    2,
    3,
    5,
    8,
    13,
    // around the word sizes (bit sets, small tables)
    31,
    32,
    63,
    64,
    65,
    255,
    256,
    1000,
    // around the sizes of small flat tables
    1023,
    1024,
    1025,
    4096,
    65535,
    65536,
    1 << 32,
    (1 << 32) + 5,
    (1 << 53) + 1,
    u64::MAX - 1,
    u64::MAX,
];

/// sizes around the powers of two (block sizes, inline buffers, thresholds of size-dependent algorithms)
pub const SIZES: [usize; 17] = [9, 15, 16, 17, 31, 32, 33, 63, 64, 65, 127, 128, 129, 255, 256, 257, 300];

/// A pure function of (seed, i): small non-zero dyadic coefficient k/16, |k| <= 64. Used for structures that are
/// too large to spend tape bytes on every element; the tape supplies `seed`, so replay and shrinking still work.
pub fn derived_coeff(seed: u64, i: u64) -> f64 {
    let mut z = seed.wrapping_mul(0x9E37_79B9_7F4A_7C15).wrapping_add(i.wrapping_mul(0xBF58_476D_1CE4_E5B9)).wrapping_add(0x94D0_49BB_1331_11EB);
    z = (z ^ (z >> 30)).wrapping_mul(0xBF58_476D_1CE4_E5B9);
    z = (z ^ (z >> 27)).wrapping_mul(0x94D0_49BB_1331_11EB);
    z ^= z >> 31;
    let k = (z % 129) as i64 - 64;
    (if k == 0 { 3 } else { k }) as f64 / 16.0
}

/// like `derived_coeff` but a value k/8 that may be zero
pub fn derived_value(seed: u64, i: u64) -> f64 {
    derived_coeff(seed ^ 0x5555, i) * 2.0 * if derived_coeff(seed ^ 0xAAAA, i) > 3.5 { 0.0 } else { 1.0 }
}

/// A small id universe for one case (so that terms collide): 1..=6 ids.
pub fn gen_ids(t: &mut Tape, max: usize) -> Vec<u64> {
    let n = 1 + t.choice(max.max(1));
    let mut ids: Vec<u64> = Vec::new();
    if t.p(200) {
        // contiguous small ids (most readable; simplest)
        let base = *t.pick(&[0u64, 1, 10, 100]);
        for i in 0..n {
            ids.push(base + i as u64);
        }
    } else {
        let mut pool = ID_POOL.to_vec();
        t.shuffle(&mut pool);
        ids.extend(pool.into_iter().take(n));
    }
    ids
}

pub fn gen_coeff(t: &mut Tape, regime: Regime, allow_zero: bool) -> f64 {
    match regime {
        Regime::Dyadic => {
            let c = t.dyadic(64, 16.0);
            if c == 0.0 && !allow_zero {
                1.0
            } else {
                c
            }
        }
        Regime::General => {
            if allow_zero && t.p(16) {
                return 0.0;
            }
            let c = t.real();
            if c == 0.0 && !allow_zero {
                1.0
            } else {
                c
            }
        }
    }
}

pub fn gen_value(t: &mut Tape, regime: Regime) -> f64 {
    match regime {
        Regime::Dyadic => t.dyadic(64, 8.0),
        Regime::General => {
            // keep |value| <= ~1e6 so that degree-4 products stay far below overflow
            let v = t.real();
            if v.abs() > 1e6 {
                v.signum() * 1e6
            } else {
                v
            }
        }
    }
}

/// Raw term list: (ids in written order, coefficient)
pub fn gen_terms(t: &mut Tape, ids: &[u64], cfg: &FuncCfg) -> Vec<(Vec<u64>, f64)> {
    let n = t.choice(cfg.max_terms + 1);
    // degree cap of this function (so that constant/linear/quadratic shapes are common)
    let dmax = [0usize, 1, 2, 3, 4][t.weighted(&[1, 3, 4, 2, 3])].min(cfg.max_degree);
    let mut out: Vec<(Vec<u64>, f64)> = Vec::new();
    for _ in 0..n {
        // occasionally repeat an earlier monomial (possibly with permuted ids)
        if cfg.unnormalised && !out.is_empty() && t.p(40) {
            let (mut m, _) = out[t.choice(out.len())].clone();
            t.shuffle(&mut m);
            let c = if t.p(64) {
                // exact cancellation partner
                -out.iter().find(|(k, _)| sorted(k) == sorted(&m)).map(|x| x.1).unwrap_or(1.0)
            } else {
                gen_coeff(t, cfg.regime, cfg.allow_zero_coeff)
            };
            out.push((m, c));
            continue;
        }
        let d = t.choice(dmax + 1);
        let m: Vec<u64> = (0..d).map(|_| *t.pick(ids)).collect();
        let zero_ok = cfg.unnormalised && cfg.allow_zero_coeff;
        let c = if zero_ok && t.p(20) {
            0.0
        } else {
            gen_coeff(t, cfg.regime, false)
        };
        out.push((m, c));
    }
    out
}

fn sorted(v: &[u64]) -> Vec<u64> {
    let mut v = v.to_vec();
    v.sort_unstable();
    v
}

/// Render a raw term list as a Function message. Labels describing the representation are
/// pushed into `ctx`.
pub fn render(t: &mut Tape, terms: &[(Vec<u64>, f64)], cfg: &FuncCfg, ctx: &mut Ctx) -> v1::Function {
    let deg = terms.iter().map(|(k, _)| k.len()).max().unwrap_or(0);
    let min_variant = match deg {
        0 => 1u8,
        1 => 2,
        2 => 3,
        _ => 4,
    };
    if cfg.allow_unset && terms.is_empty() && t.p(96) {
        ctx.label("variant=unset");
        ctx.label("unset-oneof");
        return mk::func(None);
    }
    let variant = if cfg.force_variant != 0 {
        cfg.force_variant.max(min_variant)
    } else if cfg.unnormalised && t.p(80) {
        // a higher variant than needed
        min_variant + t.choice((5 - min_variant) as usize) as u8
    } else {
        min_variant
    };
    let mut terms: Vec<(Vec<u64>, f64)> = terms.to_vec();
    if !cfg.unnormalised {
        terms = normalise(&terms);
    }
    // labels on the raw list
    {
        let mut seen = std::collections::BTreeSet::new();
        for (k, c) in &terms {
            if !k.is_empty() && !seen.insert(sorted(k)) {
                ctx.label("repeated-term");
            }
            if *c == 0.0 {
                ctx.label("explicit-zero");
            }
            if k.contains(&u64::MAX) {
                ctx.label("id=u64::MAX");
            }
            if k.windows(2).any(|w| w[0] > w[1]) && k.len() >= 3 {
                ctx.label("unsorted-monomial");
            }
        }
    }
    match variant {
        1 => {
            ctx.label("variant=constant");
            let c: f64 = terms.iter().map(|(_, c)| *c).sum();
            mk::fconst(c)
        }
        2 => {
            ctx.label("variant=linear");
            mk::flin(render_linear(&terms))
        }
        3 => {
            ctx.label("variant=quadratic");
            let mut q = v1::Quadratic::default();
            let mut used = std::collections::BTreeSet::new();
            let mut lin_terms = Vec::new();
            for (k, c) in &terms {
                if k.len() == 2 {
                    let (mut r, mut cl) = (k[0], k[1]);
                    let push = |q: &mut v1::Quadratic, r: u64, cl: u64, v: f64| {
                        q.rows.push(r);
                        q.columns.push(cl);
                        q.values.push(v);
                    };
                    if !cfg.allow_dup_quad_pos && used.contains(&(r, cl)) {
                        if !used.contains(&(cl, r)) {
                            std::mem::swap(&mut r, &mut cl);
                        } else {
                            // both orientations taken: merge into the existing entry
                            let i = (0..q.rows.len()).find(|&i| q.rows[i] == r && q.columns[i] == cl).unwrap();
                            q.values[i] += *c;
                            continue;
                        }
                    }
                    if used.contains(&(r, cl)) {
                        ctx.label("dup-quad-position");
                    }
                    // symmetric split c/2 + c/2 (exact halving)
                    let split_ok = cfg.unnormalised && r != cl && (cfg.allow_dup_quad_pos || !used.contains(&(cl, r)));
                    if split_ok && t.p(40) {
                        ctx.label("symmetric-split");
                        used.insert((r, cl));
                        used.insert((cl, r));
                        push(&mut q, r, cl, *c / 2.0);
                        push(&mut q, cl, r, *c / 2.0);
                    } else {
                        used.insert((r, cl));
                        push(&mut q, r, cl, *c);
                    }
                    if r > cl {
                        ctx.label("lower-triangular");
                    }
                } else {
                    lin_terms.push((k.clone(), *c));
                }
            }
            if lin_terms.is_empty() {
                if cfg.unnormalised && t.coin() {
                    ctx.label("linear-present-zero");
                    q.linear = Some(v1::Linear::default());
                } else {
                    ctx.label("linear-absent");
                    q.linear = None;
                }
            } else {
                q.linear = Some(render_linear(&lin_terms));
            }
            mk::fquad(q)
        }
        _ => {
            ctx.label("variant=polynomial");
            let mut p = v1::Polynomial::default();
            let mut nconst = 0;
            for (k, c) in &terms {
                if k.is_empty() {
                    nconst += 1;
                }
                p.terms.push(mk::monomial(k.clone(), *c));
            }
            if nconst >= 2 {
                ctx.label("multi-const");
            }
            mk::fpoly(p)
        }
    }
}

fn render_linear(terms: &[(Vec<u64>, f64)]) -> v1::Linear {
    let mut l = v1::Linear::default();
    for (k, c) in terms {
        match k.len() {
            0 => l.constant += *c,
            1 => l.terms.push(mk::term(k[0], *c)),
            _ => unreachable!(),
        }
    }
    l
}

/// sorted ids, merged, no zeros, deterministic order (exact merging is only used with
/// dyadic coefficients or when the caller does not care about the intended value)
pub fn normalise(terms: &[(Vec<u64>, f64)]) -> Vec<(Vec<u64>, f64)> {
    let mut m: std::collections::BTreeMap<Vec<u64>, f64> = Default::default();
    for (k, c) in terms {
        *m.entry(sorted(k)).or_default() += *c;
    }
    m.into_iter().filter(|(_, c)| *c != 0.0).collect()
}

/// Generate a function over the given ids.
pub fn gen_function(t: &mut Tape, ids: &[u64], cfg: &FuncCfg, ctx: &mut Ctx) -> v1::Function {
    let terms = gen_terms(t, ids, cfg);
    render(t, &terms, cfg, ctx)
}

/// A state assigning every id of `ids` (plus optional extras).
pub fn gen_state(t: &mut Tape, ids: impl IntoIterator<Item = u64>, regime: Regime) -> v1::State {
    let mut s = v1::State::default();
    for id in ids {
        s.entries.insert(id, gen_value(t, regime));
    }
    s
}

pub fn fn_json(f: &v1::Function) -> serde_json::Value {
    serde_json::Value::String(format!("{:?}", f))
}
