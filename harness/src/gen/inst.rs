//! Instance generator (independent of `ommx::random`): valid instances with all variable
//! kinds, optional bounds, irrelevant / fixed / dependent variables, active and removed
//! constraints with metadata, non-contiguous shuffled ids.

use crate::driver::Ctx;
use crate::gen::func::*;
use crate::mk;
use crate::model::*;
use crate::tape::Tape;
use ommx::v1;
use std::collections::BTreeSet;

#[derive(Clone, Debug)]
pub struct InstCfg {
    pub regime: Regime,
    pub max_vars: usize,
    pub max_active: usize,
    pub max_removed: usize,
    pub func: FuncCfg,
    pub allow_deps: bool,
    pub allow_fixed: bool,
    pub allow_irrelevant: bool,
    pub allow_absent_function: bool,
    pub kinds: Vec<i32>,
    /// every variable gets a finite bound
    pub finite_bounds: bool,
    pub metadata: bool,
    pub hints: bool,
    pub sense_any: bool,
    /// constraints of the form 1e-6 * x (value exactly on the feasibility tolerance at x = +-1); only for
    /// evaluation-type properties, because the coefficient is not dyadic
    pub tolerance_candidates: bool,
    /// now and then 12..70 additional variables the problem does not use, at derived positions of the variable list
    /// (instances with "many variables per touched variable"; implementations may switch algorithm with the ratio)
    pub crowd: bool,
    /// a previously fixed value may lie outside the variable's bound (partial_evaluate does not look at bounds;
    /// an integer in [0, 3] fixed at 4, a binary fixed at an LP-noise value)
    pub fixed_out_of_bound: bool,
}

impl InstCfg {
    pub fn new(regime: Regime) -> Self {
        InstCfg {
            regime,
            max_vars: 6,
            max_active: 4,
            max_removed: 3,
            func: FuncCfg {
                regime,
                allow_unset: false,
                max_terms: 6,
                max_degree: 3,
                ..FuncCfg::default()
            },
            allow_deps: true,
            allow_fixed: true,
            allow_irrelevant: true,
            allow_absent_function: true,
            kinds: vec![KIND_BINARY, KIND_INTEGER, KIND_CONTINUOUS],
            finite_bounds: false,
            metadata: true,
            hints: false,
            sense_any: true,
            tolerance_candidates: false,
            crowd: false,
            fixed_out_of_bound: false,
        }
    }
}

#[derive(Clone, Debug)]
pub struct GI {
    pub inst: v1::Instance,
    /// ids the functions are drawn from (need values in a state)
    pub used_pool: Vec<u64>,
    /// defined but never mentioned, no fixed value, not dependent
    pub irrelevant: Vec<u64>,
    pub fixed: Vec<u64>,
    pub dependent: Vec<u64>,
}

const NAMES: [&str; 5] = ["x", "cap", "balance", "αβ", ""];

pub fn gen_string(t: &mut Tape) -> String {
    let base = *t.pick(&NAMES);
    if t.coin() {
        format!("{}{}", base, t.choice(10))
    } else {
        base.to_string()
    }
}

pub fn gen_smap(t: &mut Tape) -> std::collections::HashMap<String, String> {
    let n = t.choice(3);
    (0..n).map(|i| (format!("k{}", i), gen_string(t))).collect()
}

pub fn gen_bound(t: &mut Tape, kind: i32, regime: Regime, finite: bool, ctx: &mut Ctx) -> Option<v1::Bound> {
    if kind == KIND_BINARY {
        return match t.weighted(&[6, 6, 1, 1]) {
            0 => {
                if finite {
                    Some(mk::bound(0.0, 1.0))
                } else {
                    ctx.label("bound=absent-binary");
                    None
                }
            }
            1 => Some(mk::bound(0.0, 1.0)),
            2 => Some(mk::bound(0.0, 0.0)),
            _ => Some(mk::bound(1.0, 1.0)),
        };
    }
    let val = |t: &mut Tape| -> f64 {
        match regime {
            Regime::Dyadic => t.int_around(0, -80, 80) as f64 / 8.0,
            Regime::General => {
                if t.coin() {
                    t.int_around(0, -80, 80) as f64 / 8.0
                } else {
                    t.int_around(0, -999, 999) as f64 / 100.0
                }
            }
        }
    };
    let shape = if finite { 1 + t.choice(3) } else { t.weighted(&[4, 8, 2, 2, 2, 2, 1]) };
    match shape {
        0 => {
            ctx.label("bound=absent");
            None
        }
        1 => {
            // finite, possibly fractional
            let a = val(t);
            let w = if kind == KIND_INTEGER { (1 + t.choice(6)) as f64 + if t.p(64) { 0.5 } else { 0.0 } } else { val(t).abs() + 0.125 };
            ctx.label("bound=finite");
            Some(mk::bound(a, a + w))
        }
        2 => {
            // integer-aligned finite
            let a = t.int_around(0, -8, 8) as f64;
            let w = t.choice(6) as f64;
            if w == 0.0 {
                ctx.label("bound=degenerate");
            }
            Some(mk::bound(a, a + w))
        }
        3 => {
            let a = t.int_around(0, -8, 8) as f64;
            ctx.label("bound=degenerate");
            if a == 0.0 {
                // the four sign combinations of a point interval at zero are all valid bounds
                ctx.label("bound=signed-zero");
                let (l, u) = *t.pick(&[(0.0, 0.0), (0.0, -0.0), (-0.0, 0.0), (-0.0, -0.0)]);
                return Some(mk::bound(l, u));
            }
            Some(mk::bound(a, a))
        }
        4 => {
            ctx.label("bound=lower-only");
            Some(mk::bound(val(t), f64::INFINITY))
        }
        5 => {
            ctx.label("bound=upper-only");
            Some(mk::bound(f64::NEG_INFINITY, val(t)))
        }
        _ => {
            ctx.label("bound=explicit-infinite");
            Some(mk::bound(f64::NEG_INFINITY, f64::INFINITY))
        }
    }
}

pub fn gen_constraint(t: &mut Tape, id: u64, pool: &[u64], cfg: &InstCfg, ctx: &mut Ctx) -> v1::Constraint {
    let mut c = v1::Constraint::default();
    c.id = id;
    c.equality = if t.coin() { EQ_ZERO } else { LE_ZERO };
    if cfg.allow_absent_function && t.p(12) {
        ctx.label("absent-function");
        c.function = None;
    } else if cfg.tolerance_candidates && !pool.is_empty() && t.p(14) {
        // a constraint whose value lands exactly on the feasibility tolerance at x = +-1
        ctx.label("on-tolerance-candidate");
        let id = *t.pick(pool);
        let coef = *t.pick(&[1e-6, -1e-6, 2e-6, 1e-7, -1e-7]);
        c.function = Some(mk::flin(mk::linear(vec![(id, coef)], 0.0)));
    } else if t.p(16) {
        ctx.label("constant-constraint");
        c.function = Some(mk::fconst(gen_coeff(t, cfg.regime, true)));
    } else if pool.is_empty() {
        c.function = Some(mk::fconst(gen_coeff(t, cfg.regime, true)));
    } else {
        c.function = Some(gen_function(t, pool, &cfg.func, ctx));
    }
    if cfg.metadata && t.p(140) {
        if t.coin() {
            c.name = Some(gen_string(t));
        }
        if t.coin() {
            c.subscripts = (0..t.choice(3)).map(|_| t.int_around(0, -5, 5)).collect();
        }
        if t.coin() {
            c.parameters = gen_smap(t);
        }
        if t.coin() {
            c.description = Some(gen_string(t));
        }
    }
    c
}

pub fn gen_instance(t: &mut Tape, cfg: &InstCfg, ctx: &mut Ctx) -> GI {
    let mut ids = gen_ids(t, cfg.max_vars);
    t.shuffle(&mut ids);
    let n = ids.len();
    // partition: used pool first, then special roles
    let n_used = if cfg.allow_irrelevant { 1 + t.choice(n) } else { n };
    let used_pool: Vec<u64> = ids[..n_used].to_vec();
    let mut irrelevant = vec![];
    let mut fixed = vec![];
    let mut dependent = vec![];
    for id in &ids[n_used..] {
        match t.weighted(&[4, if cfg.allow_fixed { 2 } else { 0 }, if cfg.allow_deps { 3 } else { 0 }]) {
            0 => irrelevant.push(*id),
            1 => fixed.push(*id),
            _ => dependent.push(*id),
        }
    }
    let mut inst = v1::Instance::default();
    // decision variables in shuffled order
    let mut order = ids.clone();
    t.shuffle(&mut order);
    for id in &order {
        let mut v = v1::DecisionVariable::default();
        v.id = *id;
        v.kind = *t.pick(&cfg.kinds);
        v.bound = gen_bound(t, v.kind, cfg.regime, cfg.finite_bounds, ctx);
        if cfg.metadata && t.p(100) {
            if t.coin() {
                v.name = Some(gen_string(t));
            }
            if t.coin() {
                v.subscripts = (0..t.choice(3)).map(|_| t.int_around(0, -5, 5)).collect();
            }
            if t.coin() {
                v.parameters = gen_smap(t);
            }
            if t.coin() {
                v.description = Some(gen_string(t));
            }
        }
        if fixed.contains(id) {
            // a previously fixed value (inside the bound)
            v.substituted_value = Some(in_bound_value(t, &v, cfg.regime));
            ctx.label("fixed-variable");
            if cfg.fixed_out_of_bound && t.p(40) {
                if let Ok((lo, hi)) = effective_bound(&v) {
                    if hi.is_finite() && hi.abs() < 1e6 {
                        v.substituted_value = Some(hi + 1.0);
                        ctx.label("fixed-value-outside-its-bound");
                    } else if lo.is_finite() && lo.abs() < 1e6 {
                        v.substituted_value = Some(lo - 1.0);
                        ctx.label("fixed-value-outside-its-bound");
                    }
                }
            }
        }
        inst.decision_variables.push(v);
    }
    if cfg.crowd && cfg.allow_irrelevant && t.p(20) {
        // a crowd of further unused variables; ids and positions derived from one seed byte
        let m = *t.pick(&[12usize, 17, 31, 40, 70]);
        let seed = t.byte() as u64;
        let taken: BTreeSet<u64> = ids.iter().copied().collect();
        let base = *t.pick(&[0u64, 100, 5000]);
        let mut extra: Vec<v1::DecisionVariable> = vec![];
        for k in 0..m as u64 {
            let id = base + 2 * k + (derived_coeff(seed, k) > 0.0) as u64;
            if taken.contains(&id) {
                continue;
            }
            let mut v = v1::DecisionVariable::default();
            v.id = id;
            v.kind = if derived_coeff(seed ^ 3, k) > 0.0 { KIND_CONTINUOUS } else { KIND_INTEGER };
            if derived_coeff(seed ^ 5, k) > 0.0 {
                v.bound = Some(mk::bound(-3.0, 5.0));
            }
            irrelevant.push(id);
            extra.push(v);
        }
        inst.decision_variables.extend(extra);
        // derived permutation of the whole list
        let mut keyed: Vec<(u64, v1::DecisionVariable)> = inst.decision_variables.drain(..).enumerate().map(|(i, v)| ((derived_coeff(seed ^ 9, i as u64) * 16.0 + 64.0) as u64 * 1000 + i as u64, v)).collect();
        keyed.sort_by_key(|x| x.0);
        inst.decision_variables = keyed.into_iter().map(|x| x.1).collect();
        ctx.label("crowd-of-unused-variables");
    }
    if !irrelevant.is_empty() {
        ctx.label("irrelevant-variable");
    }
    // objective
    if cfg.allow_absent_function && t.p(12) {
        ctx.label("objective-absent");
        inst.objective = None;
    } else {
        inst.objective = Some(gen_function(t, &used_pool, &cfg.func, ctx));
    }
    // constraints: non-contiguous ids
    let n_act = t.choice(cfg.max_active + 1);
    let n_rem = t.choice(cfg.max_removed + 1);
    let mut cids: Vec<u64> = Vec::new();
    let mut next = *t.pick(&[0u64, 1, 10, 1 << 33, u64::MAX]);
    if next == u64::MAX && n_act + n_rem > 0 {
        // ids counted down from the largest id there is
        ctx.label("constraint-id=u64::MAX");
        for _ in 0..(n_act + n_rem) {
            cids.push(next);
            next -= 1 + t.choice(3) as u64;
        }
    } else {
        for _ in 0..(n_act + n_rem) {
            cids.push(next);
            next += 1 + t.choice(4) as u64 * t.choice(4) as u64;
        }
    }
    t.shuffle(&mut cids);
    for i in 0..n_act {
        let c = gen_constraint(t, cids[i], &used_pool, cfg, ctx);
        inst.constraints.push(c);
    }
    for i in 0..n_rem {
        let c = gen_constraint(t, cids[n_act + i], &used_pool, cfg, ctx);
        let mut rc = v1::RemovedConstraint::default();
        rc.constraint = Some(c);
        rc.removed_reason = match t.weighted(&[4, 3, 1, 1, 1]) {
            0 => "relaxed".to_string(),
            1 => gen_string(t),
            // reasons that the SDK's own transformations record
            2 => "uniform_penalty_method".to_string(),
            3 => "penalty_method".to_string(),
            _ => "convert_inequality_to_equality_with_integer_slack".to_string(),
        };
        if rc.removed_reason.contains('_') {
            ctx.label("removed-reason-of-sdk-transformation");
        }
        if t.coin() {
            rc.removed_reason_parameters = gen_smap(t);
        }
        if rc.removed_reason == "penalty_method" {
            // exactly what the SDK's penalty_method leaves behind: the id of the weight parameter of that round
            rc.removed_reason_parameters.insert("parameter_id".to_string(), (*t.pick(&[2u64, 7, 1000])).to_string());
            ctx.label("removed-constraint-records-a-penalty-parameter-id");
        }
        inst.removed_constraints.push(rc);
        ctx.label("removed-constraint");
    }
    inst.sense = if cfg.sense_any && t.coin() { SENSE_MAX } else { SENSE_MIN };
    // dependencies: each dependent variable is a function of used-pool variables and earlier dependents
    let mut avail = used_pool.clone();
    // a dependency may also be a function of a previously fixed variable (whose value the state need not repeat)
    if !fixed.is_empty() && !dependent.is_empty() && t.p(110) {
        avail.extend(fixed.iter().copied());
        ctx.label("dependency-may-use-fixed");
    }
    for d in &dependent {
        let dcfg = FuncCfg {
            max_terms: 3,
            max_degree: 2,
            ..cfg.func.clone()
        };
        let f = gen_function(t, &avail, &dcfg, ctx);
        if syntactic_ids_contains_any(&f, &dependent) {
            ctx.label("dependency-chain");
        }
        if syntactic_ids_contains_any(&f, &fixed) {
            ctx.label("dependency-on-fixed");
        }
        inst.decision_variable_dependency.insert(*d, f);
        avail.push(*d);
        ctx.label("dependency");
    }
    if cfg.metadata && t.p(64) {
        let mut d = v1::instance::Description::default();
        d.name = Some(gen_string(t));
        if t.coin() {
            d.description = Some(gen_string(t));
        }
        if t.coin() {
            d.authors = vec![gen_string(t), "b".to_string()];
        }
        if t.coin() {
            d.created_by = Some("verif".into());
        }
        inst.description = Some(d);
    }
    if cfg.metadata && t.p(48) {
        // values recorded by an earlier with_parameters: one or two entries; the ids may have been reused since by
        // variables created later (log_encode bits and slacks are numbered from the same counter as weight parameters)
        let mut p = v1::Parameters::default();
        p.entries.insert(7, 1.5);
        match t.choice(4) {
            0 => {}
            1 => {
                p.entries.insert(2, -1.0);
            }
            2 => {
                p.entries.clear();
                p.entries.insert(ids[t.choice(ids.len())], 0.75);
                ctx.label("recorded-parameter-id-is-a-variable-id");
            }
            _ => {
                p.entries.insert(ids[t.choice(ids.len())], 0.75);
                ctx.label("recorded-parameter-id-is-a-variable-id");
            }
        }
        inst.parameters = Some(p);
    }
    if cfg.hints && n_act > 0 && t.p(128) {
        let mut h = v1::ConstraintHints::default();
        let mut oh = v1::OneHot::default();
        oh.constraint_id = inst.constraints[0].id;
        oh.decision_variables = used_pool.iter().copied().take(2).collect();
        h.one_hot_constraints.push(oh);
        if n_act > 1 && t.coin() {
            let mut s = v1::Sos1::default();
            s.binary_constraint_id = inst.constraints[0].id;
            s.big_m_constraint_ids = vec![inst.constraints[1].id];
            s.decision_variables = used_pool.iter().copied().take(3).collect();
            h.sos1_constraints.push(s);
        }
        inst.constraint_hints = Some(h);
        ctx.label("hints");
    }
    GI {
        inst,
        used_pool,
        irrelevant,
        fixed,
        dependent,
    }
}

fn syntactic_ids_contains_any(f: &v1::Function, ids: &[u64]) -> bool {
    let s = crate::exact::syntactic_ids(f);
    ids.iter().any(|i| s.contains(i))
}

/// A value inside the effective bound of the variable, respecting integrality.
pub fn in_bound_value(t: &mut Tape, v: &v1::DecisionVariable, regime: Regime) -> f64 {
    let (lo, hi) = effective_bound(v).unwrap_or((f64::NEG_INFINITY, f64::INFINITY));
    let integral = v.kind == KIND_BINARY || v.kind == KIND_INTEGER;
    if integral {
        let l = if lo.is_finite() { lo.ceil() } else { f64::NEG_INFINITY };
        let h = if hi.is_finite() { hi.floor() } else { f64::INFINITY };
        if l > h {
            // no integer inside: take an end (still in bound)
            return if lo.is_finite() { lo } else { hi };
        }
        let (l2, h2) = (l.max(-8.0).min(h), h.min(8.0).max(l));
        let k = t.choice((h2 - l2) as usize + 1) as f64;
        // simplest = nearest to zero end
        let z = nearest_to_zero(l2, h2);
        let cand = z + k;
        let r = if cand <= h2 { cand } else { z - (cand - h2) };
        r.max(l2)
    } else {
        match t.weighted(&[3, 2, 2, 4]) {
            0 => nearest_to_zero(lo, hi),
            1 if lo.is_finite() => lo,
            2 if hi.is_finite() => hi,
            _ => {
                // interior
                let x = gen_value(t, regime);
                if lo.is_finite() && hi.is_finite() {
                    // map into [lo, hi] on an exact grid
                    let f = t.choice(9) as f64 / 8.0;
                    let y = lo + (hi - lo) * f;
                    if y >= lo && y <= hi {
                        y
                    } else {
                        lo
                    }
                } else if lo.is_finite() {
                    lo + x.abs()
                } else if hi.is_finite() {
                    hi - x.abs()
                } else {
                    x
                }
            }
        }
    }
}

/// In-bound state over the used pool (+ optionally irrelevant variables).
pub fn gen_inst_state(t: &mut Tape, gi: &GI, regime: Regime, include_irrelevant: bool) -> v1::State {
    let mut s = v1::State::default();
    let want: BTreeSet<u64> = gi
        .used_pool
        .iter()
        .copied()
        .chain(if include_irrelevant { gi.irrelevant.clone() } else { vec![] })
        .collect();
    for v in &gi.inst.decision_variables {
        if want.contains(&v.id) {
            s.entries.insert(v.id, in_bound_value(t, v, regime));
        }
    }
    s
}

/// In-bound state over the used pool plus the subset of irrelevant variables selected by `mask`
/// (bit i = i-th irrelevant variable is assigned).
pub fn gen_inst_state_partial(t: &mut Tape, gi: &GI, regime: Regime, mask: u16) -> v1::State {
    let mut s = v1::State::default();
    let mut want: BTreeSet<u64> = gi.used_pool.iter().copied().collect();
    for (i, id) in gi.irrelevant.iter().enumerate() {
        if (mask >> (i % 16)) & 1 == 1 {
            want.insert(*id);
        }
    }
    for v in &gi.inst.decision_variables {
        if want.contains(&v.id) {
            s.entries.insert(v.id, in_bound_value(t, v, regime));
        }
    }
    s
}
