pub mod func;
