pub mod func;
pub mod inst;
