pub mod func;
pub mod inst;
pub mod mps_text;
pub mod qplib_text;
