pub mod func;
pub mod inst;
pub mod mps_text;
