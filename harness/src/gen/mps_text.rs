//! Abstract LP/MIP model + an independent free-format MPS writer with layout choices.
//! Shares nothing with the SDK's MPS code.

use crate::driver::Ctx;
use crate::exact::*;
use crate::tape::Tape;
use std::collections::BTreeMap;

/// a number as it is written in the file, with its exact value
#[derive(Clone, Debug)]
pub struct Num {
    pub text: String,
    pub value: Q,
    pub dyadic: bool,
}

#[derive(Clone, Debug, PartialEq)]
pub enum BoundSpec {
    None,
    Up(usize),     // positive upper bound (index into nums)
    UpNeg(usize),  // negative upper bound without LO: opens the lower side
    Lo(usize),
    LoUp(usize, usize),
    Fx(usize),
    Mi,
    Pl,
    Fr,
    Bv,
    Li(usize),
    Ui(usize),
    MiUp(usize),
}

#[derive(Clone, Debug)]
pub struct Col {
    pub name: String,
    pub integer: bool,
    pub bound: BoundSpec,
    pub nums: Vec<Num>,
    pub obj: Option<Num>,
    /// (row index, coefficient)
    pub entries: Vec<(usize, Num)>,
}

#[derive(Clone, Debug)]
pub struct Row {
    pub name: String,
    pub kind: char, // 'E' 'L' 'G'
    pub rhs: Option<Num>,
    pub range: Option<Num>,
}

#[derive(Clone, Debug)]
pub struct Lp {
    pub name: String,
    pub maximize: bool,
    pub obj_name: String,
    pub obj_rhs: Option<Num>,
    pub cols: Vec<Col>,
    pub rows: Vec<Row>,
}

#[derive(Clone, Debug, Default)]
pub struct Layout {
    pub five_field: bool,
    pub lead: usize,         // leading spaces 1..4
    pub tabs: bool,          // tab between fields
    pub comments: bool,
    pub blanks: bool,
    pub objsense: u8,        // 0 absent (only when minimising), 1 inline, 2 own line
    pub gzip: bool,
    pub bound_after_ranges: bool,
    /// 0 nothing, 1 a comment line, 2 a blank line between an OBJSENSE header and its value line
    pub objsense_gap: u8,
    /// which texts the comment lines carry
    pub comment_style: u8,
    /// the RHS / RANGES / BOUNDS vectors are named "*RHS" / "*RNG" / "*BND": a `*` starts a comment only in column one,
    /// and data lines are indented
    pub star_set_names: bool,
}

#[derive(Clone, Debug, PartialEq)]
pub enum Inject {
    None,
    UnknownRowInColumns,
    UnknownRowInRanges,
    BadRowType,
    BadBoundType,
    BadMarker,
    BadSense,
    BadHeader,
    BadNumberColumns,
    BadNumberRhs,
    BadNumberRanges,
    BadNumberBounds,
}

pub fn gen_num(t: &mut Tape, nonzero: bool, positive: bool) -> Num {
    let class = t.weighted(&[5, 4, 3, 2]);
    let mut k = t.int_around(1, -40, 40);
    if nonzero && k == 0 {
        k = 1;
    }
    if positive {
        k = k.abs().max(1);
    }
    let (text, value, dyadic) = match class {
        0 => (format!("{}", k), qi(k), true),
        1 => {
            // dyadic decimal k / 2^d
            let d = 1 + t.choice(3);
            let den = 1i64 << d;
            let v = k as f64 / den as f64;
            (format!("{}", v), qfrac(k, den), true)
        }
        2 => {
            // exponent forms of a dyadic value
            let v = k as f64 * 0.5;
            let s = match t.choice(4) {
                0 => format!("{:e}", v),
                1 => format!("{:E}", v),
                2 => format!("{}e1", v / 10.0),
                _ => format!("{}E-1", v * 10.0),
            };
            // v/10.0 printed in decimal then scaled back by the exponent: exact decimal identity
            (s, qfrac(k, 2), true)
        }
        _ => {
            // non-dyadic decimal p / 10^d
            let d = 1 + t.choice(3) as u32;
            let den = 10i64.pow(d);
            let p = k * 7 + 1;
            let int = p / den;
            let frac = (p % den).abs();
            let sign = if p < 0 && int == 0 { "-" } else { "" };
            // the value a reader holds is the double nearest to the decimal text
            let text = format!("{sign}{int}.{:0width$}", frac, width = d as usize);
            let v = q(text.parse::<f64>().unwrap());
            (text, v, false)
        }
    };
    let mut text = text;
    if positive || value > qi(0) {
        if t.p(24) {
            text = format!("+{text}");
        }
    }
    let mut n = Num { text, value, dyadic };
    if positive && n.value <= qi(0) {
        n = Num { text: "3".into(), value: qi(3), dyadic: true };
    }
    if nonzero && n.value == qi(0) {
        n = Num { text: "2".into(), value: qi(2), dyadic: true };
    }
    n
}

fn gen_name(t: &mut Tape, prefix: &str, i: usize) -> String {
    // names are arbitrary tokens: some look like numbers (columns "1", "2", "inf"; rows "0.5", "1.5", "1e3")
    if t.p(28) {
        return match (prefix, i, t.coin()) {
            ("x", 0, true) => "inf".to_string(),
            ("x", _, _) => format!("{}", i + 1),
            (_, 0, true) => "1e3".to_string(),
            _ => format!("{i}.5"),
        };
    }
    // a name that is a keyword of the format when it stands elsewhere (only the quoted 'MARKER' in second position
    // marks an integrality block; RHS / BOUNDS / ENDATA are section words only at the start of a line)
    if i == 0 && t.p(16) {
        return (*t.pick(&["MARKER", "RHS", "BOUNDS", "ENDATA", "RANGES", "MARKER"])).to_string();
    }
    // a name starting with `*` (a comment only when the `*` stands in column one; data lines are indented)
    if t.p(10) {
        return format!("*{prefix}{i}");
    }
    match t.choice(5) {
        0 => format!("{prefix}{i}"),
        1 => format!("{prefix}_{i}"),
        2 => format!("{}{i}.a", prefix.to_uppercase()),
        3 => format!("{prefix}{i}#x"),
        _ => format!("{prefix}{i}(k)"),
    }
}

pub fn gen_lp(t: &mut Tape, ctx: &mut Ctx) -> Lp {
    let ncols = 1 + t.choice(6);
    let nrows = t.choice(6);
    let maximize = t.coin();
    let obj_name = if t.p(150) { "OBJ".to_string() } else { (*t.pick(&["COST", "obj", "Z_1", "MINIMIZE"])).to_string() };
    if obj_name != "OBJ" {
        ctx.label("foreign-objective-name");
    }
    let mut rows: Vec<Row> = vec![];
    for i in 0..nrows {
        let kind = *t.pick(&['E', 'L', 'G']);
        ctx.label(format!("row={kind}"));
        let rhs = if t.p(170) { Some(gen_num(t, false, false)) } else { None };
        let range = if t.p(70) {
            // (with decimal numbers the computed end b +- |r| is subject to one rounding; the row's own side is not)
            let keep_decimals = t.p(110);
            let mut n = gen_num(t, true, false);
            if !n.dyadic && !keep_decimals {
                n = Num { text: "-2.5".into(), value: qfrac(-5, 2), dyadic: true };
            }
            ctx.label(format!("range{}@{}", if n.value > qi(0) { "+" } else { "-" }, kind));
            Some(n)
        } else {
            None
        };
        let rhs = match (&range, rhs) {
            (Some(rg), Some(r)) if !r.dyadic && rg.dyadic && t.coin() => Some(Num { text: "1.5".into(), value: qfrac(3, 2), dyadic: true }),
            (_, r) => r,
        };
        if range.is_some() && (range.as_ref().map(|n| !n.dyadic).unwrap_or(false) || rhs.as_ref().map(|n| !n.dyadic).unwrap_or(false)) {
            ctx.label("ranged-row-with-decimal-numbers");
        }
        // a row may be named like the twin the reader generates for a ranged row ("<row>_")
        let name = if i > 0 && t.p(40) {
            ctx.label("row-named-like-range-twin");
            let base: String = rows[t.choice(rows.len())].name.clone();
            let mut cand = format!("{base}_");
            while rows.iter().any(|r: &Row| r.name == cand) {
                cand.push('_');
            }
            cand
        } else {
            {
                let nm = gen_name(t, "r", i);
                if nm.starts_with('*') {
                    ctx.label("name-starting-with-a-star");
                }
                if ["MARKER", "RHS", "BOUNDS", "ENDATA", "RANGES"].contains(&nm.as_str()) {
                    ctx.label("row-named-like-a-keyword");
                    if nm == "MARKER" {
                        ctx.label("row-named-MARKER");
                    }
                }
                nm
            }
        };
        rows.push(Row { name, kind, rhs, range });
    }
    let mut cols: Vec<Col> = vec![];
    let mut integer_block = false;
    for i in 0..ncols {
        // integer blocks are contiguous runs
        if t.p(80) {
            integer_block = !integer_block;
        }
        let mut nums: Vec<Num> = vec![];
        let bound = match t.choice(13) {
            0 => BoundSpec::None,
            1 => {
                nums.push(gen_num(t, true, true));
                BoundSpec::Up(0)
            }
            2 => {
                let mut n = gen_num(t, true, true);
                n.value = -n.value.clone();
                n.text = format!("-{}", n.text.trim_start_matches('+'));
                nums.push(n);
                BoundSpec::UpNeg(0)
            }
            3 => {
                nums.push(gen_num(t, false, false));
                BoundSpec::Lo(0)
            }
            4 => {
                let a = gen_num(t, false, false);
                let w = gen_num(t, true, true);
                // upper = lower + w, written as its own decimal: keep both dyadic to stay exact
                let (a, w0) = if a.dyadic && w.dyadic { (a, w) } else { (Num { text: "-1.5".into(), value: qfrac(-3, 2), dyadic: true }, Num { text: "4".into(), value: qi(4), dyadic: true }) };
                let up = a.value.clone() + w0.value.clone();
                let w = Num { text: format!("{}", q_to_f64(&up)), value: up, dyadic: true };
                nums.push(a);
                nums.push(w);
                BoundSpec::LoUp(0, 1)
            }
            5 => {
                nums.push(gen_num(t, false, false));
                BoundSpec::Fx(0)
            }
            6 => BoundSpec::Mi,
            7 => BoundSpec::Pl,
            8 => BoundSpec::Fr,
            9 => BoundSpec::Bv,
            10 => {
                nums.push(gen_num(t, false, false));
                BoundSpec::Li(0)
            }
            11 => {
                nums.push(gen_num(t, true, true));
                BoundSpec::Ui(0)
            }
            _ => {
                nums.push(gen_num(t, false, false));
                BoundSpec::MiUp(0)
            }
        };
        ctx.label(format!("bound={}", bound_keyword(&bound)));
        // entries may be written with an explicit zero value ("0", "0.0", "-0", "0e0"): the entry contributes
        // nothing, the line is still a line of that column and still names a row
        let zero = |t: &mut Tape| Num { text: (*t.pick(&["0", "0.0", "-0", "0e0"])).to_string(), value: qi(0), dyadic: true };
        let zero_col = t.p(20);
        let obj = if t.p(180) { Some(if zero_col || t.p(14) { zero(t) } else { gen_num(t, true, false) }) } else { None };
        let mut entries = vec![];
        for (ri, _) in rows.iter().enumerate() {
            if t.p(150) {
                entries.push((ri, if zero_col || t.p(14) { zero(t) } else { gen_num(t, true, false) }));
            }
        }
        if obj.iter().chain(entries.iter().map(|e| &e.1)).any(|n| n.value == qi(0)) {
            ctx.label("explicit-zero-entry");
        }
        if zero_col && (obj.is_some() || !entries.is_empty()) {
            ctx.label("column-with-only-zero-entries");
        }
        let cname = gen_name(t, "x", i);
        if cname.starts_with('*') {
            ctx.label("name-starting-with-a-star");
        }
        if ["MARKER", "RHS", "BOUNDS", "ENDATA", "RANGES"].contains(&cname.as_str()) {
            ctx.label("column-named-like-a-keyword");
        }
        let mut col = Col { name: cname, integer: integer_block, bound, nums, obj, entries };
        if col.obj.is_none() && col.entries.is_empty() {
            // a column exists only through its entries
            col.obj = Some(Num { text: "1".into(), value: qi(1), dyadic: true });
        }
        cols.push(col);
    }
    let obj_rhs = if t.p(120) {
        ctx.label("obj-constant");
        Some(gen_num(t, true, false))
    } else {
        None
    };
    if cols.iter().any(|c: &Col| c.name.parse::<f64>().is_ok()) {
        ctx.label("numeric-looking-column-name");
    }
    if rows.iter().any(|r: &Row| r.name.parse::<f64>().is_ok()) {
        ctx.label("numeric-looking-row-name");
    }
    Lp { name: if t.coin() { "TESTPROB".into() } else { "p 1".into() }, maximize, obj_name, obj_rhs, cols, rows }
}

pub fn bound_keyword(b: &BoundSpec) -> &'static str {
    match b {
        BoundSpec::None => "none",
        BoundSpec::Up(_) => "UP",
        BoundSpec::UpNeg(_) => "UP-negative",
        BoundSpec::Lo(_) => "LO",
        BoundSpec::LoUp(..) => "LO+UP",
        BoundSpec::Fx(_) => "FX",
        BoundSpec::Mi => "MI",
        BoundSpec::Pl => "PL",
        BoundSpec::Fr => "FR",
        BoundSpec::Bv => "BV",
        BoundSpec::Li(_) => "LI",
        BoundSpec::Ui(_) => "UI",
        BoundSpec::MiUp(_) => "MI+UP",
    }
}

pub fn gen_layout(t: &mut Tape, lp: &Lp, ctx: &mut Ctx) -> Layout {
    let l = Layout {
        five_field: t.coin(),
        lead: 1 + t.choice(4),
        tabs: t.p(64),
        comments: t.p(100),
        blanks: t.p(100),
        objsense: if lp.maximize { 1 + t.choice(2) as u8 } else { t.choice(3) as u8 },
        gzip: t.p(100),
        bound_after_ranges: true,
        objsense_gap: t.choice(3) as u8,
        comment_style: t.choice(4) as u8,
        star_set_names: t.p(24),
    };
    if l.star_set_names {
        ctx.label("vector-names-starting-with-a-star");
    }
    if l.comments && l.comment_style != 0 {
        ctx.label("comments-that-look-like-content");
    }
    if l.objsense == 2 && l.objsense_gap != 0 {
        ctx.label("objsense-gap");
    }
    if l.five_field {
        ctx.label("5-field");
    }
    if l.objsense == 2 {
        ctx.label("objsense-own-line");
    }
    if l.objsense == 0 {
        ctx.label("objsense-absent");
    }
    if l.gzip {
        ctx.label("gzip");
    }
    if l.tabs {
        ctx.label("tabs");
    }
    if l.comments {
        ctx.label("comments");
    }
    l
}

/// Render the model. Returns the text.
pub fn write_mps(lp: &Lp, l: &Layout, inject: &Inject) -> String {
    let mut out = String::new();
    let sep = if l.tabs { "\t" } else { "  " };
    let lead = " ".repeat(l.lead);
    let (rhs_set, rng_set, bnd_set) = if l.star_set_names { ("*RHS", "*RNG", "*BND") } else { ("RHS1", "RNG1", "BND1") };
    let line = |out: &mut String, fields: &[&str]| {
        out.push_str(&lead);
        out.push_str(&fields.join(sep));
        out.push('\n');
    };
    let deco = |out: &mut String, i: usize| {
        if l.comments && i % 3 == 0 {
            // a comment is a comment whatever it says: section keywords, lp_solve's <meta ...> lines, the opposite sense
            const TEXTS: [&str; 8] = ["* a comment line", "*<meta creator='lp_solve v5.5'>", "*<meta rows=3>", "*<meta origsense='MAX'>", "*<meta origsense='MIN'>", "* OBJSENSE MAX", "*RHS", "* ENDATA"];
            let k = if l.comment_style == 0 { 0 } else { (i / 3 + l.comment_style as usize * 3) % TEXTS.len() };
            out.push_str(TEXTS[k]);
            out.push('\n');
        }
        if l.blanks && i % 4 == 1 {
            out.push('\n');
        }
    };
    out.push_str(&format!("NAME {}\n", lp.name));
    let sense_word = if *inject == Inject::BadSense { "MAXIMUM" } else if lp.maximize { "MAX" } else { "MIN" };
    let force_sense = *inject == Inject::BadSense;
    match (l.objsense, force_sense) {
        (0, false) => {}
        (2, _) => {
            out.push_str("OBJSENSE\n");
            match l.objsense_gap {
                1 => out.push_str("* the sense follows\n"),
                2 => out.push('\n'),
                _ => {}
            }
            line(&mut out, &[sense_word]);
        }
        _ => out.push_str(&format!("OBJSENSE {}\n", sense_word)),
    }
    deco(&mut out, 0);
    out.push_str("ROWS\n");
    line(&mut out, &["N", &lp.obj_name]);
    for (i, r) in lp.rows.iter().enumerate() {
        let k = if *inject == Inject::BadRowType && i == 0 { "Q".to_string() } else { r.kind.to_string() };
        line(&mut out, &[&k, &r.name]);
        deco(&mut out, i);
    }
    if *inject == Inject::BadRowType && lp.rows.is_empty() {
        line(&mut out, &["Q", "extra"]);
    }
    if *inject == Inject::BadHeader {
        out.push_str("COLUMS\n");
    } else {
        out.push_str("COLUMNS\n");
    }
    let mut in_int = false;
    let mut marker = 0;
    let mut first_entry = true;
    for (ci, c) in lp.cols.iter().enumerate() {
        if c.integer != in_int {
            let kw = if c.integer { "'INTORG'" } else { "'INTEND'" };
            let kw = if *inject == Inject::BadMarker { "'INTBEGIN'" } else { kw };
            line(&mut out, &[&format!("MARKER{marker}"), "'MARKER'", kw]);
            marker += 1;
            in_int = c.integer;
        }
        // entries: objective first or last by parity
        let mut ents: Vec<(String, String)> = vec![];
        if let Some(o) = &c.obj {
            ents.push((lp.obj_name.clone(), o.text.clone()));
        }
        for (ri, n) in &c.entries {
            ents.push((lp.rows[*ri].name.clone(), n.text.clone()));
        }
        if ci % 2 == 1 {
            ents.reverse();
        }
        if first_entry && !ents.is_empty() {
            if *inject == Inject::UnknownRowInColumns {
                ents[0].0 = "NOSUCHROW".to_string();
                // (an undeclared row is undeclared whatever the value of the entry)
                if lp.cols.len() % 2 == 0 {
                    ents[0].1 = "0".to_string();
                }
            }
            if *inject == Inject::BadNumberColumns {
                ents[0].1 = "12x4".to_string();
            }
            first_entry = false;
        }
        let mut i = 0;
        while i < ents.len() {
            if l.five_field && i + 1 < ents.len() {
                line(&mut out, &[&c.name, &ents[i].0, &ents[i].1, &ents[i + 1].0, &ents[i + 1].1]);
                i += 2;
            } else {
                line(&mut out, &[&c.name, &ents[i].0, &ents[i].1]);
                i += 1;
            }
        }
        deco(&mut out, ci);
    }
    if *inject == Inject::BadMarker && marker == 0 {
        line(&mut out, &["MARKER0", "'MARKER'", "'INTBEGIN'"]);
    }
    if in_int {
        let kw = if *inject == Inject::BadMarker { "'INTBEGIN'" } else { "'INTEND'" };
        line(&mut out, &[&format!("MARKER{marker}"), "'MARKER'", kw]);
    }
    out.push_str("RHS\n");
    {
        let mut ents: Vec<(String, String)> = vec![];
        if let Some(o) = &lp.obj_rhs {
            ents.push((lp.obj_name.clone(), o.text.clone()));
        }
        for r in &lp.rows {
            if let Some(n) = &r.rhs {
                ents.push((r.name.clone(), n.text.clone()));
            }
        }
        if *inject == Inject::BadNumberRhs {
            ents.push((lp.rows.first().map(|r| r.name.clone()).unwrap_or(lp.obj_name.clone()), "1..5".to_string()));
        }
        let mut i = 0;
        while i < ents.len() {
            if l.five_field && i + 1 < ents.len() {
                line(&mut out, &[rhs_set, &ents[i].0, &ents[i].1, &ents[i + 1].0, &ents[i + 1].1]);
                i += 2;
            } else {
                line(&mut out, &[rhs_set, &ents[i].0, &ents[i].1]);
                i += 1;
            }
        }
    }
    let any_range = lp.rows.iter().any(|r| r.range.is_some()) || matches!(inject, Inject::UnknownRowInRanges | Inject::BadNumberRanges);
    if any_range {
        out.push_str("RANGES\n");
        let mut ents: Vec<(String, String)> = vec![];
        for r in &lp.rows {
            if let Some(n) = &r.range {
                ents.push((r.name.clone(), n.text.clone()));
            }
        }
        if *inject == Inject::UnknownRowInRanges {
            ents.insert(0, ("NOSUCHROW".to_string(), "4".to_string()));
        }
        if *inject == Inject::BadNumberRanges {
            ents.push((lp.rows.first().map(|r| r.name.clone()).unwrap_or("r".into()), "abc".to_string()));
        }
        let mut i = 0;
        while i < ents.len() {
            if l.five_field && i + 1 < ents.len() {
                line(&mut out, &[rng_set, &ents[i].0, &ents[i].1, &ents[i + 1].0, &ents[i + 1].1]);
                i += 2;
            } else {
                line(&mut out, &[rng_set, &ents[i].0, &ents[i].1]);
                i += 1;
            }
        }
    }
    out.push_str("BOUNDS\n");
    let mut first_bound = true;
    for (ci, c) in lp.cols.iter().enumerate() {
        let mut lines: Vec<(String, Option<String>)> = match &c.bound {
            BoundSpec::None => vec![],
            BoundSpec::Up(i) | BoundSpec::UpNeg(i) => vec![("UP".into(), Some(c.nums[*i].text.clone()))],
            BoundSpec::Lo(i) => vec![("LO".into(), Some(c.nums[*i].text.clone()))],
            BoundSpec::LoUp(a, b) => {
                let mut v = vec![("LO".to_string(), Some(c.nums[*a].text.clone())), ("UP".to_string(), Some(c.nums[*b].text.clone()))];
                if ci % 2 == 0 {
                    v.reverse();
                }
                v
            }
            BoundSpec::Fx(i) => vec![("FX".into(), Some(c.nums[*i].text.clone()))],
            BoundSpec::Mi => vec![("MI".into(), None)],
            BoundSpec::Pl => vec![("PL".into(), None)],
            BoundSpec::Fr => vec![("FR".into(), None)],
            BoundSpec::Bv => vec![("BV".into(), None)],
            BoundSpec::Li(i) => vec![("LI".into(), Some(c.nums[*i].text.clone()))],
            BoundSpec::Ui(i) => vec![("UI".into(), Some(c.nums[*i].text.clone()))],
            BoundSpec::MiUp(i) => vec![("MI".into(), None), ("UP".into(), Some(c.nums[*i].text.clone()))],
        };
        if first_bound && *inject == Inject::BadBoundType {
            lines.insert(0, ("XX".into(), Some("1".into())));
            first_bound = false;
        }
        if first_bound && *inject == Inject::BadNumberBounds {
            lines.insert(0, ("UP".into(), Some("one".into())));
            first_bound = false;
        }
        for (kw, val) in lines {
            match val {
                Some(v) => line(&mut out, &[&kw, bnd_set, &c.name, &v]),
                None => {
                    if ci % 2 == 0 {
                        line(&mut out, &[&kw, bnd_set, &c.name])
                    } else {
                        line(&mut out, &[&kw, bnd_set, &c.name, "0"])
                    }
                }
            }
        }
    }
    out.push_str("ENDATA\n");
    out
}

/// value domain: (integral, lower, upper) with +-inf as None
#[derive(Clone, Debug, PartialEq)]
pub struct Domain {
    pub integral: bool,
    pub lo: Option<Q>,
    pub hi: Option<Q>,
}

pub fn expected_domain(c: &Col) -> Domain {
    let z = Some(qi(0));
    let v = |i: &usize| Some(c.nums[*i].value.clone());
    let (lo, hi, force_int) = match &c.bound {
        BoundSpec::None | BoundSpec::Pl => (z.clone(), None, false),
        BoundSpec::Up(i) => (z.clone(), v(i), false),
        BoundSpec::UpNeg(i) => (None, v(i), false),
        BoundSpec::Lo(i) => (v(i), None, false),
        BoundSpec::LoUp(a, b) => (v(a), v(b), false),
        BoundSpec::Fx(i) => (v(i), v(i), false),
        BoundSpec::Mi | BoundSpec::Fr => (None, None, false),
        BoundSpec::Bv => (z.clone(), Some(qi(1)), true),
        BoundSpec::Li(i) => (v(i), None, true),
        BoundSpec::Ui(i) => (z.clone(), v(i), true),
        BoundSpec::MiUp(i) => (None, v(i), false),
    };
    Domain { integral: c.integer || force_int, lo, hi }
}

/// expected constraints: (is_equality, polynomial over column indices (as ids), source row name, constant is the
/// result of one floating-point addition of two file numbers that are not both dyadic)
pub fn expected_constraints(lp: &Lp) -> Vec<(bool, Poly, String, bool)> {
    let mut out = vec![];
    for (ri, r) in lp.rows.iter().enumerate() {
        let mut ax = Poly::zero();
        for (ci, c) in lp.cols.iter().enumerate() {
            for (rj, n) in &c.entries {
                if *rj == ri {
                    ax.add_term(vec![ci as u64], n.value.clone());
                }
            }
        }
        let b = r.rhs.as_ref().map(|n| n.value.clone()).unwrap_or_else(|| qi(0));
        let le = |hi: &Q| ax.sub(&Poly::constant(hi.clone())); // a.x - hi <= 0
        let ge = |lo: &Q| Poly::constant(lo.clone()).sub(&ax); // lo - a.x <= 0
        match (&r.range, r.kind) {
            (None, 'E') => out.push((true, le(&b), r.name.clone(), false)),
            (None, 'L') => out.push((false, le(&b), r.name.clone(), false)),
            (None, 'G') => out.push((false, ge(&b), r.name.clone(), false)),
            (Some(rg), k) => {
                use num::Signed;
                let ar = rg.value.abs();
                let (lo, hi) = match k {
                    'G' => (b.clone(), b.clone() + ar),
                    'L' => (b.clone() - ar, b.clone()),
                    _ => {
                        if rg.value > qi(0) {
                            (b.clone(), b.clone() + ar)
                        } else {
                            (b.clone() - ar, b.clone())
                        }
                    }
                };
                let inexact = !rg.dyadic || r.rhs.as_ref().map(|n| !n.dyadic).unwrap_or(false);
                out.push((false, le(&hi), r.name.clone(), inexact && hi != b));
                out.push((false, ge(&lo), r.name.clone(), inexact && lo != b));
            }
            _ => unreachable!(),
        }
    }
    out
}

pub fn expected_objective(lp: &Lp) -> Poly {
    let mut p = Poly::zero();
    for (ci, c) in lp.cols.iter().enumerate() {
        if let Some(o) = &c.obj {
            p.add_term(vec![ci as u64], o.value.clone());
        }
    }
    if let Some(r) = &lp.obj_rhs {
        p.add_term(vec![], -r.value.clone());
    }
    p
}

pub fn all_dyadic(lp: &Lp) -> bool {
    lp.cols.iter().all(|c| c.nums.iter().all(|n| n.dyadic) && c.obj.as_ref().map(|n| n.dyadic).unwrap_or(true) && c.entries.iter().all(|e| e.1.dyadic))
        && lp.rows.iter().all(|r| r.rhs.as_ref().map(|n| n.dyadic).unwrap_or(true) && r.range.as_ref().map(|n| n.dyadic).unwrap_or(true))
        && lp.obj_rhs.as_ref().map(|n| n.dyadic).unwrap_or(true)
}

pub type NameMap = BTreeMap<u64, usize>;
