//! Abstract QP model + independent QPLIB writer (section order of the QPLIB format paper),
//! with the physical line of every emitted value recorded for the error-location oracle.

use crate::driver::Ctx;
use crate::exact::*;
use crate::tape::Tape;

pub const OBJ_KINDS: [char; 4] = ['L', 'D', 'C', 'Q'];
pub const VAR_KINDS: [char; 5] = ['C', 'B', 'M', 'I', 'G'];
pub const CON_KINDS: [char; 6] = ['N', 'B', 'L', 'D', 'C', 'Q'];

#[derive(Clone, Debug)]
pub struct V {
    pub text: String,
    pub value: Q,
}

fn dy(t: &mut Tape, nonzero: bool) -> V {
    let mut k = t.int_around(2, -24, 24);
    if nonzero && k == 0 {
        k = 3;
    }
    let den = [1i64, 2, 4][t.choice(3)];
    let v = k as f64 / den as f64;
    let text = match t.choice(4) {
        0 => format!("{}", v),
        1 => format!("{:e}", v),
        2 => format!("{:.3}", v),
        _ => {
            if v >= 0.0 {
                format!("+{}", v)
            } else {
                format!("{}", v)
            }
        }
    };
    V { text, value: qfrac(k, den) }
}

/// side value: finite, or at / beyond the infinity threshold
#[derive(Clone, Debug)]
pub enum Side {
    Finite(V),
    AtThreshold,
    Beyond,
}

#[derive(Clone, Debug)]
pub struct QCon {
    /// lower-triangle entries (i >= j), 0-based
    pub q: Vec<(usize, usize, V)>,
    pub b: Vec<(usize, V)>,
    pub lower: Option<Side>, // None = default
    pub upper: Option<Side>,
    pub name: Option<String>,
}

#[derive(Clone, Debug)]
pub struct Qp {
    pub name: String,
    pub okind: char,
    pub vkind: char,
    pub ckind: char,
    pub maximize: bool,
    pub n: usize,
    pub q0: Vec<(usize, usize, V)>,
    pub b0_default: V,
    pub b0: Vec<(usize, V)>,
    pub q0_const: V,
    pub cons: Vec<QCon>,
    pub threshold_text: String,
    pub cl_default: Side,
    pub cu_default: Side,
    pub l_default: Side,
    pub u_default: Side,
    pub l: Vec<(usize, Side)>,
    pub u: Vec<(usize, Side)>,
    /// per variable type code 0/1/2 (for M and G), default + non-defaults
    pub type_default: u8,
    pub types: Vec<(usize, u8)>,
    pub var_names: Vec<(usize, String)>,
    /// starting point sections x^0, y^0 (one entry per constraint), z^0: (default text, non-default (index, text)); they
    /// are read and ignored by the conversion, but they are part of a well-formed file
    pub x0: (String, Vec<(usize, String)>),
    pub y0: (String, Vec<(usize, String)>),
    pub z0: (String, Vec<(usize, String)>),
}

/// all entries of one matrix scaled by 2^exp (exact): a badly scaled but perfectly legal file
fn scale_v(v: V, exp: i32) -> V {
    if exp == 0 {
        return v;
    }
    let s = (2.0f64).powi(exp);
    let value = v.value * q(s);
    let x = q_to_f64(&value);
    V { text: format!("{:e}", x), value }
}

fn gen_entries(t: &mut Tape, n: usize, diagonal_only: bool, max: usize, ctx: &mut Ctx) -> Vec<(usize, usize, V)> {
    let exp = [0i32, -60, 40][t.weighted(&[12, 1, 1])];
    let k = t.choice(max + 1);
    if exp == -60 && k > 0 {
        ctx.label("matrix-entries-below-epsilon");
    }
    let mut seen = std::collections::BTreeSet::new();
    let mut out = vec![];
    for _ in 0..k {
        let i = t.choice(n);
        let j = if diagonal_only || t.p(90) { i } else { t.choice(i + 1) };
        if seen.insert((i, j)) {
            out.push((i, j, scale_v(dy(t, true), exp)));
        }
    }
    out
}

fn gen_side(t: &mut Tape, lower: bool) -> Side {
    if t.p(40) {
        // ordinary decimals (not dyadic): the value a reader holds is the double nearest to the text; every lower
        // candidate is below every upper candidate
        let text = if lower { *t.pick(&["0.1", "-0.7", "0.3", "-1000000.1", "-2.3"]) } else { *t.pick(&["0.7", "1000000.1", "2.3", "0.9", "1e1"]) };
        return Side::Finite(V { text: text.to_string(), value: q(text.parse::<f64>().unwrap()) });
    }
    match t.weighted(&[6, 2, 1]) {
        0 => {
            let mut v = dy(t, false);
            if lower {
                // keep lower sides mostly below upper sides
                v.value = v.value.clone() - qi(8);
                v.text = format!("{}", q_to_f64(&v.value));
            } else {
                v.value = v.value.clone() + qi(8);
                v.text = format!("{}", q_to_f64(&v.value));
            }
            Side::Finite(v)
        }
        1 => Side::AtThreshold,
        _ => Side::Beyond,
    }
}

pub fn gen_qp(t: &mut Tape, code: usize, ctx: &mut Ctx) -> Qp {
    let okind = OBJ_KINDS[code / 30];
    let vkind = VAR_KINDS[(code / 6) % 5];
    let ckind = CON_KINDS[code % 6];
    let n = 1 + t.choice(5);
    let m = if matches!(ckind, 'N' | 'B') { 0 } else { t.choice(5) };
    // starting points (drawn early, derived from one byte): none, or non-default entries at the first / last index of each
    // section (the last constraint index may exceed the number of variables)
    let start_seed = if t.p(48) { 1 + t.byte() as usize % 255 } else { 0 };
    let start = |len: usize, k: usize| -> (String, Vec<(usize, String)>) {
        if start_seed == 0 || len == 0 {
            return ("0.0".to_string(), vec![]);
        }
        let vals = ["1", "-2.5", "0.125", "3e0", "7"];
        let mut e = vec![];
        if (start_seed >> k) & 1 == 1 {
            e.push((len - 1, vals[(start_seed + k) % 5].to_string()));
        }
        if (start_seed >> (k + 3)) & 1 == 1 && len >= 2 {
            e.insert(0, (0, vals[(start_seed + k + 2) % 5].to_string()));
        }
        (vals[(start_seed / 7 + k) % 5].to_string(), e)
    };
    let (x0, y0, z0) = (start(n, 0), start(m, 1), start(n, 2));
    if !x0.1.is_empty() || !y0.1.is_empty() || !z0.1.is_empty() {
        ctx.label("non-default-starting-point-entries");
        if y0.1.iter().any(|(i, _)| *i >= n) {
            ctx.label("starting-multiplier-for-a-constraint-index-beyond-the-variables");
        }
    }
    let q0 = match okind {
        'L' => vec![],
        'D' => gen_entries(t, n, true, 4, ctx),
        _ => gen_entries(t, n, false, 6, ctx),
    };
    let b0_default = if t.p(100) {
        ctx.label("default-b0!=0");
        dy(t, true)
    } else {
        V { text: "0".into(), value: qi(0) }
    };
    let mut b0 = vec![];
    {
        let mut seen = std::collections::BTreeSet::new();
        for _ in 0..t.choice(n + 1) {
            let i = t.choice(n);
            if seen.insert(i) {
                if t.p(40) {
                    ctx.label("explicit-zero-b0");
                    b0.push((i, V { text: "0.0".into(), value: qi(0) }));
                } else {
                    b0.push((i, dy(t, true)));
                }
            }
        }
    }
    let q0_const = dy(t, false);
    let mut cons = vec![];
    for ci in 0..m {
        let q = match ckind {
            'L' => vec![],
            'D' => gen_entries(t, n, true, 3, ctx),
            _ => gen_entries(t, n, false, 4, ctx),
        };
        let mut b = vec![];
        let mut seen = std::collections::BTreeSet::new();
        for _ in 0..t.choice(n + 1) {
            let i = t.choice(n);
            if seen.insert(i) {
                b.push((i, dy(t, true)));
            }
        }
        let lower = if t.p(150) { Some(gen_side(t, true)) } else { None };
        let upper = if t.p(150) { Some(gen_side(t, false)) } else { None };
        let name = if t.p(80) { Some(if t.p(80) { format!("cover_s{ci}d4") } else { format!("con_{ci}") }) } else { None };
        cons.push(QCon { q, b, lower, upper, name });
    }
    let threshold_text = (*t.pick(&["1e20", "1.0E+20", "1e+30", "100000000000000000000"])).to_string();
    let cl_default = gen_side(t, true);
    let cu_default = gen_side(t, false);
    let (l_default, u_default) = (gen_side(t, true), gen_side(t, false));
    let mut l = vec![];
    let mut u = vec![];
    {
        let mut seen = std::collections::BTreeSet::new();
        for _ in 0..t.choice(n + 1) {
            let i = t.choice(n);
            if seen.insert(i) {
                l.push((i, gen_side(t, true)));
            }
        }
        let mut seen = std::collections::BTreeSet::new();
        for _ in 0..t.choice(n + 1) {
            let i = t.choice(n);
            if seen.insert(i) {
                u.push((i, gen_side(t, false)));
            }
        }
    }
    // integer-ish variables sometimes get the exact [0,1] / [1,1] / [0,0] bounds (promotion to binary)
    if matches!(vkind, 'I' | 'G' | 'M') && t.p(120) {
        let i = t.choice(n);
        let (a, b) = *t.pick(&[(0i64, 1i64), (1, 1), (0, 0), (0, 2)]);
        l.retain(|x| x.0 != i);
        u.retain(|x| x.0 != i);
        l.push((i, Side::Finite(V { text: format!("{a}"), value: qi(a) })));
        u.push((i, Side::Finite(V { text: format!("{b}"), value: qi(b) })));
        ctx.label("integer-01-bounds");
    }
    let type_default = match vkind {
        'M' => *t.pick(&[0u8, 2]),
        'G' => *t.pick(&[0u8, 1, 2]),
        _ => 0,
    };
    let mut types = vec![];
    if matches!(vkind, 'M' | 'G') {
        let mut seen = std::collections::BTreeSet::new();
        for _ in 0..t.choice(n + 1) {
            let i = t.choice(n);
            if seen.insert(i) {
                let ty = if vkind == 'M' { *t.pick(&[0u8, 2]) } else { *t.pick(&[0u8, 1, 2]) };
                types.push((i, ty));
            }
        }
    }
    let mut var_names = vec![];
    {
        let mut seen = std::collections::BTreeSet::new();
        for _ in 0..t.choice(n + 1) {
            let i = t.choice(n);
            if seen.insert(i) {
                // names are arbitrary tokens; some contain fragments that look like (Fortran) number syntax
                let k = t.choice(9);
                let nm = match t.choice(16) {
                    // the names other writers give by default: x<k> with the variable's own 1-based (or 0-based) position
                    14 => {
                        ctx.label("name-is-x-plus-own-position");
                        format!("x{}", i + 1)
                    }
                    15 => format!("x{i}"),
                    // names containing the characters that start a remark elsewhere (a name is read as written)
                    11 => format!("x#{i}"),
                    12 => format!("flow!{i}a"),
                    13 => format!("rate{i}%"),
                    // names that START like a number (digit, sign, dot) and contain a d / D further on
                    6 => format!("{i}nd_stage{k}"),
                    7 => format!("{k}D_pos{i}"),
                    8 => format!("-delta{i}"),
                    9 => format!("+Demand{i}"),
                    10 => format!(".{i}dot_d"),
                    0 => format!("w{i}d{k}"),
                    1 => format!("x{i}D-{k}"),
                    2 => format!("{i}e{k}"),
                    3 => format!("s{i}E+{k}x"),
                    _ => format!("v{i}_{k}"),
                };
                if nm.contains(|c: char| c == '#' || c == '!' || c == '%') {
                    ctx.label("name-with-a-remark-character");
                }
                if nm.starts_with(|c: char| c.is_ascii_digit() || c == '-' || c == '+' || c == '.') && nm.contains(|c: char| c == 'd' || c == 'D') {
                    ctx.label("name-starting-like-a-number-with-d-inside");
                }
                if nm.contains(|c: char| c == 'd' || c == 'D' || c == 'e' || c == 'E') {
                    ctx.label("name-with-exponent-like-fragment");
                }
                var_names.push((i, nm));
            }
        }
        if !var_names.is_empty() {
            ctx.label("names");
        }
    }
    Qp {
        name: "QPTEST_1".into(),
        okind,
        vkind,
        ckind,
        maximize: t.coin(),
        n,
        q0,
        b0_default,
        b0,
        q0_const,
        cons: {
            if !cons.is_empty() && cons.iter().all(|c: &QCon| c.b.is_empty()) {
                ctx.label("constraints-but-no-linear-constraint-term");
            }
            cons
        },
        threshold_text,
        cl_default,
        cu_default,
        l_default,
        u_default,
        l,
        u,
        type_default,
        types,
        var_names,
        x0,
        y0,
        z0,
    }
}

#[derive(Clone, Debug, PartialEq)]
pub enum QInject {
    None,
    /// replace the token with the given id by garbage
    Token(String),
    TypeWrongLetter,
    TypeTooShort,
    BadSense,
}

pub struct Written {
    pub text: String,
    /// (token id, physical line)
    pub tokens: Vec<(String, usize)>,
    pub lines: usize,
}

struct W {
    out: String,
    line: usize,
    tokens: Vec<(String, usize)>,
    comments: bool,
    blanks: bool,
    trailing: bool,
    inject: QInject,
    k: usize,
    /// fields of entry lines separated by a TAB instead of a blank
    tabs: bool,
}

impl W {
    fn raw(&mut self, s: &str) {
        self.out.push_str(s);
        self.out.push('\n');
        self.line += 1;
    }
    fn deco(&mut self) {
        self.k += 1;
        if self.comments && self.k % 3 == 0 {
            let c = ["! a comment", "# another comment", "% and one more"][self.k % 3];
            self.raw(c);
            if self.k % 2 == 0 {
                self.raw("  ! indented comment");
            }
        }
        if self.blanks && self.k % 4 == 1 {
            self.raw("");
        }
    }
    /// a line whose first token is a value
    fn val(&mut self, id: &str, text: &str, note: &str) {
        self.deco();
        let t = if self.inject == QInject::Token(id.to_string()) { "#bad" } else { text };
        let t = if t == "#bad" { "x1y" } else { t };
        let line = if self.trailing && !note.is_empty() { format!("{t} # {note}") } else { t.to_string() };
        self.raw(&line);
        self.tokens.push((id.to_string(), self.line));
    }
    /// an entry line "i [j [k]] value" (comment and blank lines may stand between entries as well)
    fn entry(&mut self, id: &str, idx: &[usize], text: &str) {
        if self.k % 2 == 1 {
            self.deco();
        } else {
            self.k += 1;
        }
        let t = if self.inject == QInject::Token(id.to_string()) { "12..5" } else { text };
        let mut s = String::new();
        let sep = if self.tabs { "\t" } else { " " };
        for i in idx {
            s.push_str(&format!("{}{sep}", i + 1));
        }
        s.push_str(t);
        if self.trailing && self.k % 2 == 0 {
            s.push_str(sep);
            s.push_str("trailing text");
        }
        self.raw(&s);
        self.tokens.push((id.to_string(), self.line));
    }
}

fn side_text(s: &Side, lower: bool, thr: f64) -> String {
    match s {
        Side::Finite(v) => v.text.clone(),
        Side::AtThreshold => format!("{:e}", if lower { -thr } else { thr }),
        Side::Beyond => format!("{:e}", if lower { -thr * 10.0 } else { thr * 10.0 }),
    }
}

pub fn write_qplib(qp: &Qp, comments: bool, blanks: bool, trailing: bool, case_style: u8, inject: &QInject) -> Written {
    let thr: f64 = qp.threshold_text.parse().unwrap();
    let mut w = W { out: String::new(), line: 0, tokens: vec![], comments, blanks, trailing, inject: inject.clone(), k: 0, tabs: case_style & 16 != 0 };
    if comments {
        w.raw("! QPLIB test file");
    }
    w.raw(&format!("{} extra words after the name", qp.name));
    let mut code: String = [qp.okind, qp.vkind, qp.ckind].iter().collect();
    if case_style % 2 == 1 {
        code = code.to_lowercase();
    }
    match inject {
        QInject::TypeWrongLetter => code = format!("{}X{}", &code[0..1], &code[2..3]),
        QInject::TypeTooShort => code = code[0..2].to_string(),
        _ => {}
    }
    w.val("type", &code, "problem type");
    let sense = if *inject == QInject::BadSense {
        "minimise".to_string()
    } else {
        let s = if qp.maximize { "maximize" } else { "minimize" };
        match case_style % 3 {
            0 => s.to_string(),
            1 => s.to_uppercase(),
            _ => format!("{}{}", s[0..1].to_uppercase(), &s[1..]),
        }
    };
    w.val("sense", &sense, "objective sense");
    w.val("n", &qp.n.to_string(), "variables");
    let has_cons = !matches!(qp.ckind, 'N' | 'B');
    if has_cons {
        w.val("m", &qp.cons.len().to_string(), "constraints");
    }
    if qp.okind != 'L' {
        w.val("q0-count", &qp.q0.len().to_string(), "nonzeros in lower triangle of Q^0");
        for (k, (i, j, v)) in qp.q0.iter().enumerate() {
            w.entry(&format!("q0-entry-{k}"), &[*i, *j], &v.text);
        }
    }
    w.val("b0-default", &qp.b0_default.text, "default b^0");
    w.val("b0-count", &qp.b0.len().to_string(), "non-default b^0");
    for (k, (i, v)) in qp.b0.iter().enumerate() {
        w.entry(&format!("b0-entry-{k}"), &[*i], &v.text);
    }
    w.val("q0-const", &qp.q0_const.text, "objective constant");
    if has_cons {
        if qp.ckind != 'L' {
            let total: usize = qp.cons.iter().map(|c| c.q.len()).sum();
            w.val("qi-count", &total.to_string(), "nonzeros in Q^i");
            let mut k = 0;
            for (ci, c) in qp.cons.iter().enumerate() {
                for (i, j, v) in &c.q {
                    w.entry(&format!("qi-entry-{k}"), &[ci, *i, *j], &v.text);
                    k += 1;
                }
            }
        }
        let total: usize = qp.cons.iter().map(|c| c.b.len()).sum();
        w.val("bi-count", &total.to_string(), "nonzeros in b^i");
        let mut k = 0;
        for (ci, c) in qp.cons.iter().enumerate() {
            for (j, v) in &c.b {
                w.entry(&format!("bi-entry-{k}"), &[ci, *j], &v.text);
                k += 1;
            }
        }
    }
    w.val("infinity", &qp.threshold_text, "infinity");
    if has_cons {
        w.val("cl-default", &side_text(&qp.cl_default, true, thr), "default c_l");
        let nd: Vec<(usize, &Side)> = qp.cons.iter().enumerate().filter_map(|(i, c)| c.lower.as_ref().map(|s| (i, s))).collect();
        w.val("cl-count", &nd.len().to_string(), "non-default c_l");
        for (k, (i, s)) in nd.iter().enumerate() {
            w.entry(&format!("cl-entry-{k}"), &[*i], &side_text(s, true, thr));
        }
        w.val("cu-default", &side_text(&qp.cu_default, false, thr), "default c_u");
        let nd: Vec<(usize, &Side)> = qp.cons.iter().enumerate().filter_map(|(i, c)| c.upper.as_ref().map(|s| (i, s))).collect();
        w.val("cu-count", &nd.len().to_string(), "non-default c_u");
        for (k, (i, s)) in nd.iter().enumerate() {
            w.entry(&format!("cu-entry-{k}"), &[*i], &side_text(s, false, thr));
        }
    }
    if qp.vkind != 'B' {
        w.val("l-default", &side_text(&qp.l_default, true, thr), "default l");
        w.val("l-count", &qp.l.len().to_string(), "non-default l");
        for (k, (i, s)) in qp.l.iter().enumerate() {
            w.entry(&format!("l-entry-{k}"), &[*i], &side_text(s, true, thr));
        }
        w.val("u-default", &side_text(&qp.u_default, false, thr), "default u");
        w.val("u-count", &qp.u.len().to_string(), "non-default u");
        for (k, (i, s)) in qp.u.iter().enumerate() {
            w.entry(&format!("u-entry-{k}"), &[*i], &side_text(s, false, thr));
        }
    }
    if matches!(qp.vkind, 'M' | 'G') {
        w.val("type-default", &qp.type_default.to_string(), "default variable type");
        w.val("type-count", &qp.types.len().to_string(), "non-default variable types");
        for (k, (i, ty)) in qp.types.iter().enumerate() {
            w.entry(&format!("type-entry-{k}"), &[*i], &ty.to_string());
        }
    }
    w.val("x0-default", &qp.x0.0, "default x^0");
    w.val("x0-count", &qp.x0.1.len().to_string(), "non-default x^0");
    for (k, (i, v)) in qp.x0.1.iter().enumerate() {
        w.entry(&format!("x0-entry-{k}"), &[*i], v);
    }
    if has_cons {
        w.val("y0-default", &qp.y0.0, "default y^0");
        w.val("y0-count", &qp.y0.1.len().to_string(), "non-default y^0");
        for (k, (i, v)) in qp.y0.1.iter().enumerate() {
            w.entry(&format!("y0-entry-{k}"), &[*i], v);
        }
    }
    w.val("z0-default", &qp.z0.0, "default z^0");
    w.val("z0-count", &qp.z0.1.len().to_string(), "non-default z^0");
    for (k, (i, v)) in qp.z0.1.iter().enumerate() {
        w.entry(&format!("z0-entry-{k}"), &[*i], v);
    }
    w.val("vnames-count", &qp.var_names.len().to_string(), "non-default variable names");
    for (k, (i, nm)) in qp.var_names.iter().enumerate() {
        w.entry(&format!("vname-entry-{k}"), &[*i], nm);
    }
    let cn: Vec<(usize, &String)> = qp.cons.iter().enumerate().filter_map(|(i, c)| c.name.as_ref().map(|n| (i, n))).collect();
    w.val("cnames-count", &cn.len().to_string(), "non-default constraint names");
    for (k, (i, nm)) in cn.iter().enumerate() {
        w.entry(&format!("cname-entry-{k}"), &[*i], nm);
    }
    Written { text: w.out, tokens: w.tokens, lines: w.line }
}

// ---------------------------------------------------------------------------------------
// expectations
// ---------------------------------------------------------------------------------------

fn side_value(s: &Side) -> Option<Q> {
    match s {
        Side::Finite(v) => Some(v.value.clone()),
        _ => None,
    }
}

pub fn quad_poly(q: &[(usize, usize, V)], b: &[(usize, Q)], c: Q) -> Poly {
    let mut p = Poly::zero();
    for (i, j, v) in q {
        if i == j {
            p.add_term(vec![*i as u64, *i as u64], v.value.clone() / qi(2));
        } else {
            p.add_term(vec![*i as u64, *j as u64], v.value.clone());
        }
    }
    for (i, v) in b {
        p.add_term(vec![*i as u64], v.clone());
    }
    p.add_term(vec![], c);
    p
}

pub fn expected_objective(qp: &Qp) -> Poly {
    let mut b: Vec<(usize, Q)> = vec![];
    for i in 0..qp.n {
        let v = qp.b0.iter().find(|x| x.0 == i).map(|x| x.1.value.clone()).unwrap_or_else(|| qp.b0_default.value.clone());
        b.push((i, v));
    }
    quad_poly(&qp.q0, &b, qp.q0_const.value.clone())
}

/// (polynomial <= 0) per finite side
pub fn expected_constraints(qp: &Qp) -> Vec<Poly> {
    let mut out = vec![];
    for c in &qp.cons {
        let b: Vec<(usize, Q)> = c.b.iter().map(|(i, v)| (*i, v.value.clone())).collect();
        let expr = quad_poly(&c.q, &b, qi(0));
        let up = c.upper.as_ref().unwrap_or(&qp.cu_default);
        let lo = c.lower.as_ref().unwrap_or(&qp.cl_default);
        if let Some(u) = side_value(up) {
            out.push(expr.sub(&Poly::constant(u)));
        }
        if let Some(l) = side_value(lo) {
            out.push(Poly::constant(l).sub(&expr));
        }
    }
    out
}

/// per variable: (type code 0 continuous / 1 integer / 2 binary, lower, upper)
pub fn expected_vars(qp: &Qp) -> Vec<(u8, Option<Q>, Option<Q>)> {
    let mut out = vec![];
    for i in 0..qp.n {
        let ty = match qp.vkind {
            'C' => 0,
            'B' => 2,
            'I' => 1,
            _ => qp.types.iter().find(|x| x.0 == i).map(|x| x.1).unwrap_or(qp.type_default),
        };
        let (lo, hi) = if qp.vkind == 'B' {
            (Some(qi(0)), Some(qi(1)))
        } else {
            let l = qp.l.iter().find(|x| x.0 == i).map(|x| &x.1).unwrap_or(&qp.l_default);
            let u = qp.u.iter().find(|x| x.0 == i).map(|x| &x.1).unwrap_or(&qp.u_default);
            (side_value(l), side_value(u))
        };
        out.push((ty, lo, hi));
    }
    out
}
