//! Verification harness for Jij-Inc/ommx: property-based testing and fuzzing of the properties C01-C20.
pub mod driver;
pub mod exact;
pub mod gen;
pub mod mk;
pub mod model;
pub mod props;
pub mod tape;
pub mod wire;

/// Entry point for coverage-guided fuzzing: the fuzzer's bytes are the choice tape of property `id`.
/// A violation (not listed as an open known finding) aborts the process so that libFuzzer keeps the input.
pub fn fuzz_one(id: &str, data: &[u8]) {
    use std::sync::OnceLock;
    static PROPS: OnceLock<Vec<Box<dyn driver::Property>>> = OnceLock::new();
    static FINDINGS: OnceLock<Vec<driver::Finding>> = OnceLock::new();
    let props = PROPS.get_or_init(|| {
        driver::install_panic_hook();
        props::all()
    });
    let findings = FINDINGS.get_or_init(driver::load_findings);
    let Some(p) = props.iter().find(|p| p.id() == id) else {
        eprintln!("unknown property {id}");
        std::process::abort();
    };
    let mut ctx = driver::Ctx::new(driver::Tier::Thorough, false);
    if let Err(f) = driver::run_case(p.as_ref(), data, &mut ctx) {
        if findings.iter().any(|k| k.status == "open" && k.property == id && k.signature == f.signature) {
            return;
        }
        eprintln!("FUZZ-FAILURE signature={}\n{}", f.signature, f.message);
        std::process::abort();
    }
}
