mod driver;
mod exact;
mod gen;
mod mk;
mod model;
mod props;
mod tape;
mod wire;

use driver::Tier;

fn usage() -> ! {
    eprintln!("usage: ommx-verif run <ID> [quick|thorough] [--seed N] | replay <file> | list");
    std::process::exit(2)
}

fn main() {
    let args: Vec<String> = std::env::args().collect();
    if args.len() < 2 {
        usage();
    }
    driver::install_panic_hook();
    let props = props::all();
    match args[1].as_str() {
        "list" => {
            for p in &props {
                println!("{}", p.id());
            }
        }
        "run" => {
            if args.len() < 3 {
                usage();
            }
            let id = &args[2];
            let mut tier = match std::env::var("VERIF_TIER").ok().as_deref() {
                Some("thorough") => Tier::Thorough,
                _ => Tier::Quick,
            };
            let mut seed: u64 = std::env::var("VERIF_SEED").ok().and_then(|s| s.trim().parse::<i128>().ok()).map(|v| v as u64).unwrap_or(0);
            let mut i = 3;
            while i < args.len() {
                match args[i].as_str() {
                    "quick" => tier = Tier::Quick,
                    "thorough" => tier = Tier::Thorough,
                    "--seed" => {
                        i += 1;
                        seed = args.get(i).and_then(|s| s.parse::<i128>().ok()).map(|v| v as u64).unwrap_or_else(|| usage());
                    }
                    _ => usage(),
                }
                i += 1;
            }
            let Some(p) = props.iter().find(|p| p.id() == id) else {
                eprintln!("unknown property {id}");
                std::process::exit(2)
            };
            driver::start_watchdog(match tier {
                Tier::Quick => 900,
                Tier::Thorough => 7200,
            });
            let r = driver::run_property(p.as_ref(), tier, seed);
            std::process::exit(r.exit);
        }
        "child" => {
            if args.len() < 4 {
                usage();
            }
            let Some(p) = props.iter().find(|p| p.id() == args[2]) else { std::process::exit(2) };
            let bytes = tape::from_hex(&args[3]).unwrap_or_default();
            let r = std::panic::catch_unwind(std::panic::AssertUnwindSafe(|| p.child(&bytes)));
            match r {
                Ok(code) => std::process::exit(code),
                Err(_) => {
                    println!("{}/panic-in-child
panic inside the child process", args[2]);
                    std::process::exit(3)
                }
            }
        }
        "replay" => {
            if args.len() < 3 {
                usage();
            }
            std::process::exit(driver::replay(&props, &args[2]));
        }
        _ => usage(),
    }
}
