use ommx_verif::driver::{self, Tier};
use ommx_verif::{props, tape};

fn usage() -> ! {
    eprintln!("usage: ommx-verif run <ID> [quick|thorough] [--seed N] | replay <file> | list");
    std::process::exit(2)
}

fn main() {
    let args: Vec<String> = std::env::args().collect();
    if args.len() < 2 {
        usage();
    }
    driver::install_panic_hook();
    let props = props::all();
    match args[1].as_str() {
        "list" => {
            for p in &props {
                println!("{}", p.id());
            }
        }
        "run" => {
            if args.len() < 3 {
                usage();
            }
            let id = &args[2];
            let mut tier = match std::env::var("VERIF_TIER").ok().as_deref() {
                Some("thorough") => Tier::Thorough,
                _ => Tier::Quick,
            };
            let mut seed: u64 = std::env::var("VERIF_SEED").ok().and_then(|s| s.trim().parse::<i128>().ok()).map(|v| v as u64).unwrap_or(0);
            let mut i = 3;
            while i < args.len() {
                match args[i].as_str() {
                    "quick" => tier = Tier::Quick,
                    "thorough" => tier = Tier::Thorough,
                    "--seed" => {
                        i += 1;
                        seed = args.get(i).and_then(|s| s.parse::<i128>().ok()).map(|v| v as u64).unwrap_or_else(|| usage());
                    }
                    _ => usage(),
                }
                i += 1;
            }
            let Some(p) = props.iter().find(|p| p.id() == id) else {
                eprintln!("unknown property {id}");
                std::process::exit(2)
            };
            if id == "C20" {
                // The artifact accessors convert times through the process's LOCAL time zone, and UTC is the one zone in
                // which a confusion of local and universal time cannot show. The zone is part of the generated case:
                // chosen from VERIF_SEED before any thread exists (POSIX TZ strings, no tz database needed), recorded in
                // replay files. A half-hour offset west and a whole-hour offset east of Greenwich.
                std::env::set_var("TZ", if seed % 2 == 0 { "NST3:30" } else { "JST-9" });
            }
            driver::start_watchdog(match tier {
                Tier::Quick => 900,
                Tier::Thorough => 7200,
            });
            let r = driver::run_property(p.as_ref(), tier, seed);
            std::process::exit(r.exit);
        }
        "child" => {
            if args.len() < 4 {
                usage();
            }
            let Some(p) = props.iter().find(|p| p.id() == args[2]) else { std::process::exit(2) };
            let bytes = tape::from_hex(&args[3]).unwrap_or_default();
            let r = std::panic::catch_unwind(std::panic::AssertUnwindSafe(|| p.child(&bytes)));
            match r {
                Ok(code) => std::process::exit(code),
                Err(_) => {
                    println!("{}/panic-in-child
panic inside the child process", args[2]);
                    std::process::exit(3)
                }
            }
        }
        "tape" => {
            // ommx-verif tape <ID> <file with raw tape bytes> : used for libFuzzer artifacts
            if args.len() < 4 {
                usage();
            }
            let Some(p) = props.iter().find(|p| p.id() == args[2]) else { std::process::exit(2) };
            let bytes = std::fs::read(&args[3]).unwrap_or_else(|e| driver::inconclusive(&format!("cannot read {}: {e}", args[3])));
            std::process::exit(driver::report_tape(p.as_ref(), &bytes));
        }
        "tape-max" => {
            let Some(p) = props.iter().find(|p| Some(p.id()) == args.get(2).map(|s| s.as_str())) else { std::process::exit(2) };
            println!("{}", p.tape_max());
        }
        "seeds" => {
            // ommx-verif seeds <ID> <dir> : initial corpus for libFuzzer = saved regression tapes + tapes derived from VERIF_SEED
            if args.len() < 4 {
                usage();
            }
            let Some(p) = props.iter().find(|p| p.id() == args[2]) else { std::process::exit(2) };
            let seed: u64 = std::env::var("VERIF_SEED").ok().and_then(|s| s.trim().parse::<i128>().ok()).map(|v| v as u64).unwrap_or(0);
            std::process::exit(driver::write_seed_corpus(p.as_ref(), seed, &args[3]));
        }
        "fuzz-evidence" => {
            // ommx-verif fuzz-evidence <ID> <executions> <corpus files> <crashes> : append the campaign to the evidence file
            if args.len() < 6 {
                usage();
            }
            std::process::exit(driver::append_fuzz_evidence(&args[2], &args[3], &args[4], &args[5]));
        }
        "replay" => {
            if args.len() < 3 {
                usage();
            }
            std::process::exit(driver::replay(&props, &args[2]));
        }
        _ => usage(),
    }
}
