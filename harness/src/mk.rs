//! Constructors for the `#[non_exhaustive]` generated messages (Default + field assignment).
use ommx::v1;
use ommx::v1::function::Function as F;

pub fn func(f: Option<F>) -> v1::Function {
    let mut x = v1::Function::default();
    x.function = f;
    x
}
pub fn fconst(c: f64) -> v1::Function {
    func(Some(F::Constant(c)))
}
pub fn flin(l: v1::Linear) -> v1::Function {
    func(Some(F::Linear(l)))
}
pub fn fquad(q: v1::Quadratic) -> v1::Function {
    func(Some(F::Quadratic(q)))
}
pub fn fpoly(p: v1::Polynomial) -> v1::Function {
    func(Some(F::Polynomial(p)))
}
pub fn term(id: u64, coefficient: f64) -> v1::linear::Term {
    let mut t = v1::linear::Term::default();
    t.id = id;
    t.coefficient = coefficient;
    t
}
pub fn linear(terms: Vec<(u64, f64)>, constant: f64) -> v1::Linear {
    let mut l = v1::Linear::default();
    l.terms = terms.into_iter().map(|(i, c)| term(i, c)).collect();
    l.constant = constant;
    l
}
pub fn monomial(ids: Vec<u64>, coefficient: f64) -> v1::Monomial {
    let mut m = v1::Monomial::default();
    m.ids = ids;
    m.coefficient = coefficient;
    m
}
pub fn polynomial(terms: Vec<(Vec<u64>, f64)>) -> v1::Polynomial {
    let mut p = v1::Polynomial::default();
    p.terms = terms.into_iter().map(|(i, c)| monomial(i, c)).collect();
    p
}
pub fn state<I: IntoIterator<Item = (u64, f64)>>(it: I) -> v1::State {
    let mut s = v1::State::default();
    s.entries = it.into_iter().collect();
    s
}
pub fn samples_entry(state: v1::State, ids: Vec<u64>) -> v1::samples::SamplesEntry {
    let mut e = v1::samples::SamplesEntry::default();
    e.state = Some(state);
    e.ids = ids;
    e
}
pub fn bound(lower: f64, upper: f64) -> v1::Bound {
    let mut b = v1::Bound::default();
    b.lower = lower;
    b.upper = upper;
    b
}
