//! Independent reference evaluator for instances: implements the statement of C05 literally,
//! over exact rationals, reading only raw message fields.

use crate::driver::{fail, PResult};
use crate::exact::*;
use num::{Signed, Zero};
use ommx::v1;
use std::collections::{BTreeMap, BTreeSet};

pub const KIND_BINARY: i32 = 1;
pub const KIND_INTEGER: i32 = 2;
pub const KIND_CONTINUOUS: i32 = 3;
pub const EQ_ZERO: i32 = 1;
pub const LE_ZERO: i32 = 2;
pub const SENSE_MIN: i32 = 1;
pub const SENSE_MAX: i32 = 2;

#[derive(Clone, Debug)]
pub struct MCons {
    pub id: u64,
    pub equality: i32,
    pub value: Q,
    /// rounding margin for the f64 value (0 when every evaluation order is provably exact)
    pub margin: f64,
    pub used_ids: BTreeSet<u64>,
    pub name: Option<String>,
    pub subscripts: Vec<i64>,
    pub parameters: BTreeMap<String, String>,
    pub description: Option<String>,
    pub removed: Option<(String, BTreeMap<String, String>)>,
    /// Some(true/false) or None when the exact value is too close to the tolerance to call
    pub holds: Option<bool>,
}

#[derive(Clone, Debug)]
pub struct MSolution {
    pub objective: Q,
    pub objective_margin: f64,
    pub constraints: Vec<MCons>,
    pub feasible_relaxed: Option<bool>,
    pub feasible: Option<bool>,
    /// completed state; values of dependent variables carry a margin
    pub state: BTreeMap<u64, (Q, f64)>,
}

#[derive(Clone, Debug, PartialEq)]
pub enum MReject {
    OutOfBound(u64),
    MissingVar(u64),
    Dependency,
    InvalidBound(u64),
    UnsupportedEquality(u64),
    /// the decision cannot be made robustly (value within rounding distance of a threshold)
    Borderline(String),
}

pub fn effective_bound(v: &v1::DecisionVariable) -> Result<(f64, f64), MReject> {
    match &v.bound {
        Some(b) => {
            if b.lower.is_nan() || b.upper.is_nan() || b.lower == f64::INFINITY || b.upper == f64::NEG_INFINITY || b.lower > b.upper {
                return Err(MReject::InvalidBound(v.id));
            }
            Ok((b.lower, b.upper))
        }
        None => {
            if v.kind == KIND_BINARY {
                Ok((0.0, 1.0))
            } else {
                Ok((f64::NEG_INFINITY, f64::INFINITY))
            }
        }
    }
}

pub fn nearest_to_zero(lo: f64, hi: f64) -> f64 {
    if lo >= 0.0 {
        lo
    } else if hi <= 0.0 {
        hi
    } else {
        0.0
    }
}

#[derive(Clone, Debug)]
pub struct EvalOpts {
    /// the SDK may have dropped sub-epsilon coefficients while transforming the function
    /// (documented behaviour): widen every margin by EPS * prod max(|v|,1) per raw term
    pub drop_allowance: bool,
    /// multiply rounding margins (several rounding steps instead of one)
    pub scale: f64,
    /// magnitudes to use for the condition number instead of |value| (the SDK evaluates a
    /// *composed* function whose intermediate magnitudes are those of the replacements' terms);
    /// when set, nothing is claimed to be exact
    pub mag: Option<BTreeMap<u64, f64>>,
    /// magnitudes (floored at 1, coefficients floored at 1) that bound how much a dropped
    /// sub-epsilon coefficient can be amplified by the remaining factors
    pub mag1: Option<BTreeMap<u64, f64>>,
}

impl Default for EvalOpts {
    fn default() -> Self {
        EvalOpts { drop_allowance: false, scale: 1.0, mag: None, mag1: None }
    }
}

pub fn eval_with_margin(f: &v1::Function, state: &v1::State) -> Result<(Q, f64), MReject> {
    eval_with_margin_opts(f, state, &EvalOpts::default())
}

/// margin + exact value of a function at a state
pub fn eval_with_margin_opts(f: &v1::Function, state: &v1::State, o: &EvalOpts) -> Result<(Q, f64), MReject> {
    let raw = raw_terms(f);
    for (ids, _) in &raw {
        for id in ids {
            if !state.entries.contains_key(id) {
                return Err(MReject::MissingVar(*id));
            }
        }
    }
    let qs = qstate(state);
    let p = Poly::from_function(f);
    let v = p.eval(&qs).unwrap();
    let magv = |i: &u64| -> f64 {
        let base = state.entries[i].abs();
        match &o.mag {
            Some(m) => m.get(i).copied().unwrap_or(base).max(base),
            None => base,
        }
    };
    let magv1 = |i: &u64| -> f64 {
        let base = magv(i).max(1.0);
        match &o.mag1 {
            Some(m) => m.get(i).copied().unwrap_or(base).max(base),
            None => base,
        }
    };
    let mut allowance = 0.0;
    if o.drop_allowance {
        for (ids, c) in &raw {
            allowance += f64::EPSILON * c.abs().max(1.0) * ids.iter().map(magv1).product::<f64>() + f64::EPSILON;
        }
        allowance *= if o.mag1.is_some() { 16.0 } else { 2.0 };
    }
    if o.mag.is_none() && eval_is_provably_exact(&raw, state) {
        return Ok((v, allowance));
    }
    let mut abs = Q::zero();
    for (ids, c) in &raw {
        let mut tq = q(*c).abs();
        for id in ids {
            tq *= q(magv(id));
        }
        abs += tq;
    }
    let deg = raw.iter().map(|(k, _)| k.len()).max().unwrap_or(0);
    Ok((v, (eval_tol(raw.len(), deg, &abs) + underflow_allowance(&raw, &magv)) * o.scale + allowance))
}

thread_local! {
    static BOUNDARY_OPEN: std::cell::Cell<bool> = const { std::cell::Cell::new(false) };
}

/// While this guard lives (on the current thread) a constraint value EXACTLY on the feasibility threshold is not decided
/// by the reference model. C05's statement spells the comparison out (|f| < 1e-6, f < 1e-6) and asserts the boundary;
/// the statements of the other properties that use the model (C06, C14) do not fix the tolerance or its strictness.
pub struct BoundaryOpenGuard(bool);
impl BoundaryOpenGuard {
    #[allow(clippy::new_without_default)]
    pub fn new() -> Self {
        BoundaryOpenGuard(BOUNDARY_OPEN.with(|b| b.replace(true)))
    }
}
impl Drop for BoundaryOpenGuard {
    fn drop(&mut self) {
        let old = self.0;
        BOUNDARY_OPEN.with(|b| b.set(old));
    }
}

fn holds(equality: i32, v: &Q, margin: f64, id: u64) -> Result<Option<bool>, MReject> {
    let atol = q(1e-6);
    let m = q(margin);
    let open = BOUNDARY_OPEN.with(|b| b.get());
    let margin = if open && margin == 0.0 { f64::MIN_POSITIVE } else { margin };
    match equality {
        EQ_ZERO => {
            let a = v.abs();
            if (a.clone() - atol.clone()).abs() <= m {
                // exactly on the threshold is decidable only without rounding
                if margin == 0.0 {
                    return Ok(Some(a < atol));
                }
                return Ok(None);
            }
            Ok(Some(a < atol))
        }
        LE_ZERO => {
            if (v.clone() - atol.clone()).abs() <= m {
                if margin == 0.0 {
                    return Ok(Some(*v < atol));
                }
                return Ok(None);
            }
            Ok(Some(*v < atol))
        }
        _ => Err(MReject::UnsupportedEquality(id)),
    }
}

fn smap(m: &std::collections::HashMap<String, String>) -> BTreeMap<String, String> {
    m.iter().map(|(k, v)| (k.clone(), v.clone())).collect()
}

fn eval_constraint(c: &v1::Constraint, removed: Option<(String, BTreeMap<String, String>)>, state: &v1::State, o: &EvalOpts) -> Result<MCons, MReject> {
    let f = c.function.clone().unwrap_or_else(|| crate::mk::fconst(0.0));
    let (value, margin) = eval_with_margin_opts(&f, state, o)?;
    let h = holds(c.equality, &value, margin, c.id)?;
    Ok(MCons {
        id: c.id,
        equality: c.equality,
        value,
        margin,
        used_ids: syntactic_ids(&f),
        name: c.name.clone(),
        subscripts: c.subscripts.clone(),
        parameters: smap(&c.parameters),
        description: c.description.clone(),
        removed,
        holds: h,
    })
}

pub fn and_all(it: impl Iterator<Item = Option<bool>>) -> Option<bool> {
    // false if any is definitely false; None if undecided and none false; else true
    let mut undecided = false;
    for x in it {
        match x {
            Some(false) => return Some(false),
            None => undecided = true,
            Some(true) => {}
        }
    }
    if undecided {
        None
    } else {
        Some(true)
    }
}

/// Reference evaluation of an instance at a state.
pub fn evaluate(inst: &v1::Instance, state: &v1::State) -> Result<MSolution, MReject> {
    evaluate_opts(inst, state, &EvalOpts::default())
}

pub fn evaluate_opts(inst: &v1::Instance, state: &v1::State, o: &EvalOpts) -> Result<MSolution, MReject> {
    // 1. bounds of every given value whose id is a defined variable
    let mut bounds: BTreeMap<u64, (f64, f64)> = BTreeMap::new();
    for v in &inst.decision_variables {
        bounds.insert(v.id, effective_bound(v)?);
    }
    let atol = 1e-7;
    let mut ids: Vec<&u64> = state.entries.keys().collect();
    ids.sort();
    for id in ids {
        let x = state.entries[id];
        if let Some((lo, hi)) = bounds.get(id) {
            // exact comparison against lo - atol / hi + atol with a guard band for the f64 subtraction
            let guard = |b: f64| 2.0 * f64::EPSILON * (b.abs().max(atol).max(x.abs()));
            if lo.is_finite() {
                let d = q(x) - (q(*lo) - q(atol)); // >= 0 accepted
                if d.abs() <= q(guard(*lo)) && !d.is_zero() {
                    return Err(MReject::Borderline(format!("bound of {id}")));
                }
                if d < Q::zero() {
                    return Err(MReject::OutOfBound(*id));
                }
            }
            if hi.is_finite() {
                let d = (q(*hi) + q(atol)) - q(x);
                if d.abs() <= q(guard(*hi)) && !d.is_zero() {
                    return Err(MReject::Borderline(format!("bound of {id}")));
                }
                if d < Q::zero() {
                    return Err(MReject::OutOfBound(*id));
                }
            }
            if !x.is_finite() {
                return Err(MReject::Borderline("non-finite value".into()));
            }
        }
    }
    // 2. constraints
    let mut cons = vec![];
    for c in &inst.constraints {
        cons.push(eval_constraint(c, None, state, o)?);
    }
    for rc in &inst.removed_constraints {
        let Some(c) = &rc.constraint else {
            return Err(MReject::Borderline("removed constraint without constraint".into()));
        };
        cons.push(eval_constraint(c, Some((rc.removed_reason.clone(), smap(&rc.removed_reason_parameters))), state, o)?);
    }
    let feasible_relaxed = and_all(cons.iter().filter(|c| c.removed.is_none()).map(|c| c.holds));
    let feasible = and_all(cons.iter().map(|c| c.holds));
    // 3. objective
    let obj = inst.objective.clone().unwrap_or_else(|| crate::mk::fconst(0.0));
    let (objective, objective_margin) = eval_with_margin_opts(&obj, state, o)?;
    // 4. state completion
    let mut st: BTreeMap<u64, (Q, f64)> = state.entries.iter().map(|(k, v)| (*k, (q(*v), 0.0))).collect();
    let mut fst = state.clone(); // f64 view for margins of dependent values
    for v in &inst.decision_variables {
        if let Some(x) = v.substituted_value {
            st.insert(v.id, (q(x), 0.0));
            fst.entries.insert(v.id, x);
        }
    }
    let deps = eval_dependencies(&inst.decision_variable_dependency, &mut st, &mut fst, o)?;
    let _ = deps;
    for v in &inst.decision_variables {
        if !st.contains_key(&v.id) {
            let (lo, hi) = bounds[&v.id];
            st.insert(v.id, (q(nearest_to_zero(lo, hi)), 0.0));
        }
    }
    Ok(MSolution {
        objective,
        objective_margin,
        constraints: cons,
        feasible_relaxed,
        feasible,
        state: st,
    })
}

/// Topological evaluation of dependent variables (exact); error when stuck (cycle or dangling reference).
pub fn eval_dependencies(
    deps: &std::collections::HashMap<u64, v1::Function>,
    st: &mut BTreeMap<u64, (Q, f64)>,
    fst: &mut v1::State,
    o: &EvalOpts,
) -> Result<Vec<u64>, MReject> {
    let mut pending: BTreeMap<u64, &v1::Function> = deps.iter().map(|(k, v)| (*k, v)).collect();
    let mut order = vec![];
    loop {
        if pending.is_empty() {
            return Ok(order);
        }
        let mut progressed = false;
        let keys: Vec<u64> = pending.keys().copied().collect();
        for k in keys {
            let f = pending[&k];
            let ids = syntactic_ids(f);
            // a dependency may only be evaluated from values that are final: given/fixed values or
            // dependent variables already computed (never a still-pending dependent variable)
            if ids.iter().all(|i| st.contains_key(i) && !pending.contains_key(i)) {
                let qs: QState = ids.iter().map(|i| (*i, st[i].0.clone())).collect();
                let v = Poly::from_function(f).eval(&qs).unwrap();
                // margin: rounding of this evaluation plus propagated input margins (first order, generous)
                let (_, m0) = eval_with_margin_opts(f, fst, o).map_err(|_| MReject::Dependency)?;
                let mut m = m0;
                let raw = raw_terms(f);
                for (tids, c) in &raw {
                    for (pos, id) in tids.iter().enumerate() {
                        let im = st[id].1;
                        if im > 0.0 {
                            let mut others = c.abs();
                            for (p2, id2) in tids.iter().enumerate() {
                                if p2 != pos {
                                    others *= q_to_f64(&st[id2].0).abs() + st[id2].1;
                                }
                            }
                            // (the floor keeps the margin non-zero when the product underflows)
                            m += 2.0 * others * im + f64::MIN_POSITIVE;
                        }
                    }
                }
                st.insert(k, (v.clone(), m));
                fst.entries.insert(k, q_to_f64(&v));
                pending.remove(&k);
                order.push(k);
                progressed = true;
            }
        }
        if !progressed {
            return Err(MReject::Dependency);
        }
    }
}

// ---------------------------------------------------------------------------------------
// comparison of an SDK Solution with the model
// ---------------------------------------------------------------------------------------

pub fn value_matches(got: f64, exact: &Q, margin: f64) -> bool {
    if margin == 0.0 {
        is_exact(got, exact)
    } else {
        within(got, exact, margin)
    }
}

pub struct CmpOpts {
    /// compare `decision_variables` of the solution against these
    pub decision_variables: Option<Vec<v1::DecisionVariable>>,
    /// extra slack factor on margins (e.g. when the SDK evaluates a transformed function)
    pub margin_scale: f64,
    /// extra absolute slack
    pub margin_abs: f64,
    pub check_used_ids: bool,
}

impl Default for CmpOpts {
    fn default() -> Self {
        CmpOpts {
            decision_variables: None,
            margin_scale: 1.0,
            margin_abs: 0.0,
            check_used_ids: true,
        }
    }
}

pub fn compare_solution(p: &str, sol: &v1::Solution, m: &MSolution, o: &CmpOpts) -> PResult {
    let mg = |x: f64| if x == 0.0 && o.margin_abs == 0.0 && o.margin_scale == 1.0 { 0.0 } else { x * o.margin_scale + o.margin_abs };
    if !value_matches(sol.objective, &m.objective, mg(m.objective_margin)) {
        return fail(
            format!("{p}/objective"),
            format!("solution.objective = {:e}, reference value {:e} (margin {:e})", sol.objective, q_to_f64(&m.objective), mg(m.objective_margin)),
        );
    }
    // constraints: exactly once each, by id
    let mut seen = BTreeSet::new();
    for ec in &sol.evaluated_constraints {
        if !seen.insert(ec.id) {
            return fail(format!("{p}/constraint-listed-twice"), format!("constraint id {} listed twice in the solution", ec.id));
        }
    }
    let want: BTreeSet<u64> = m.constraints.iter().map(|c| c.id).collect();
    if seen != want {
        return fail(
            format!("{p}/constraint-set"),
            format!("solution lists constraint ids {seen:?}, instance has active+removed {want:?}"),
        );
    }
    for mc in &m.constraints {
        let ec = sol.evaluated_constraints.iter().find(|e| e.id == mc.id).unwrap();
        if !value_matches(ec.evaluated_value, &mc.value, mg(mc.margin)) {
            return fail(
                format!("{p}/constraint-value"),
                format!("constraint {}: evaluated_value {:e}, reference {:e} (margin {:e})", mc.id, ec.evaluated_value, q_to_f64(&mc.value), mg(mc.margin)),
            );
        }
        if ec.equality != mc.equality {
            return fail(format!("{p}/constraint-equality"), format!("constraint {}: equality {} != {}", mc.id, ec.equality, mc.equality));
        }
        let meta_ok = ec.name == mc.name && ec.subscripts == mc.subscripts && smap(&ec.parameters) == mc.parameters && ec.description == mc.description;
        if !meta_ok {
            return fail(format!("{p}/constraint-metadata"), format!("constraint {}: metadata differs: {:?} vs model {:?}", mc.id, ec, mc));
        }
        match &mc.removed {
            None => {
                if ec.removed_reason.is_some() || !ec.removed_reason_parameters.is_empty() {
                    return fail(format!("{p}/removed-reason-on-active"), format!("active constraint {} carries a removal reason: {:?}", mc.id, ec));
                }
            }
            Some((r, ps)) => {
                if ec.removed_reason.as_ref() != Some(r) || &smap(&ec.removed_reason_parameters) != ps {
                    return fail(
                        format!("{p}/removed-reason"),
                        format!("removed constraint {}: reason {:?}/{:?}, expected {:?}/{:?}", mc.id, ec.removed_reason, ec.removed_reason_parameters, r, ps),
                    );
                }
            }
        }
        // `used_decision_variable_ids` of an evaluated constraint is derived information that the statement of C05 does
        // not list (whether an id occurring only with coefficient 0 counts is open); the id set of a FUNCTION evaluation
        // is C01's business. Not asserted here.
        let _ = o.check_used_ids;
    }
    if let Some(fr) = m.feasible_relaxed {
        if sol.feasible_relaxed != Some(fr) {
            return fail(
                format!("{p}/feasible-relaxed"),
                format!("feasible_relaxed = {:?}, reference {fr} (constraint values {:?})", sol.feasible_relaxed, m.constraints.iter().map(|c| (c.id, q_to_f64(&c.value), c.removed.is_some())).collect::<Vec<_>>()),
            );
        }
    }
    if let Some(fe) = m.feasible {
        if sol.feasible != fe {
            return fail(
                format!("{p}/feasible"),
                format!("feasible = {}, reference {fe} (constraint values {:?})", sol.feasible, m.constraints.iter().map(|c| (c.id, q_to_f64(&c.value), c.removed.is_some())).collect::<Vec<_>>()),
            );
        }
    }
    // state
    let Some(st) = &sol.state else {
        return fail(format!("{p}/state-missing"), "solution has no state".to_string());
    };
    let got_keys: BTreeSet<u64> = st.entries.keys().copied().collect();
    let want_keys: BTreeSet<u64> = m.state.keys().copied().collect();
    if got_keys != want_keys {
        return fail(format!("{p}/state-keys"), format!("solution state has ids {got_keys:?}, reference {want_keys:?}"));
    }
    for (id, (v, margin)) in &m.state {
        if !value_matches(st.entries[id], v, mg(*margin)) {
            return fail(
                format!("{p}/state-value"),
                format!("solution state[{id}] = {:e}, reference {:e} (margin {:e})", st.entries[id], q_to_f64(v), mg(*margin)),
            );
        }
    }
    if let Some(dvs) = &o.decision_variables {
        // the solution's copy of the variable list: the same variables (id, kind, effective bound); whether an implied
        // bound is written out, and the remaining metadata, are not part of the statement
        let key = |v: &v1::DecisionVariable| (v.id, v.kind, effective_bound(v).ok().map(|(l, h)| (l.to_bits(), h.to_bits())));
        let mut a: Vec<_> = sol.decision_variables.iter().map(key).collect();
        let mut b: Vec<_> = dvs.iter().map(key).collect();
        a.sort();
        b.sort();
        if a != b {
            return fail(format!("{p}/decision-variables"), format!("solution.decision_variables {:?} are not the instance's variables {:?} (id, kind, effective bound)", a, b));
        }
    }
    Ok(())
}
