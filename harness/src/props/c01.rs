//! C01 Evaluating a function returns the polynomial's mathematical value.

use crate::driver::{fail, Ctx, PResult, Property, Tier};
use crate::exact::*;
use crate::gen::func::*;
use crate::tape::Tape;
use ommx::v1;
use ommx::Evaluate;
use serde_json::json;
use std::collections::BTreeSet;

pub struct C01;

fn check_value(sig: &str, got: f64, f: &v1::Function, state: &v1::State, regime: Regime, ctx: &mut Ctx) -> PResult {
    let poly = Poly::from_function(f);
    let qs = qstate(state);
    let exact = poly.eval(&qs).expect("oracle: total state");
    let raw = raw_terms(f);
    if regime == Regime::Dyadic && eval_is_provably_exact(&raw, state) {
        ctx.label("compare=bit-exact");
        if !is_exact(got, &exact) {
            return fail(
                format!("C01/{sig}/value-not-exact"),
                format!("evaluate returned {got:e}, exact value is {} for {:?} at {:?}", exact, f, state.entries),
            );
        }
    } else {
        ctx.label("compare=rounding-bound");
        // bound uses the absolute sum over the *raw* (un-merged) terms
        let mut abs = Q::from_integer(0.into());
        for (ids, c) in &raw {
            let mut tq = q(*c);
            for id in ids {
                tq *= qs.get(id).unwrap();
            }
            abs += num::Signed::abs(&tq);
        }
        let deg = raw.iter().map(|(k, _)| k.len()).max().unwrap_or(0);
        let tol = eval_tol(raw.len(), deg, &abs) + underflow_allowance(&raw, &|id| state.entries.get(id).copied().unwrap_or(0.0));
        if !within(got, &exact, tol) {
            return fail(
                format!("C01/{sig}/value-outside-rounding-bound"),
                format!(
                    "evaluate returned {got:e}, exact value is {:e} (tolerance {tol:e}) for {:?} at {:?}",
                    q_to_f64(&exact),
                    f,
                    state.entries
                ),
            );
        }
    }
    Ok(())
}

const HUGE: [usize; 2] = [33_000, 70_000];
/// side of the dense quadratic of the last sweep case (side^2 entries: beyond 2^17)
const DENSE_SIDE: u64 = 400;

impl C01 {
    /// functions well beyond the usual handful of terms (20..80 raw terms over as many ids, non-zero constant):
    /// implementations may switch algorithm with size (blocked / pairwise summation, pre-sized tables)
    fn run_big(&self, t: &mut Tape, regime: Regime, cfg: &FuncCfg, ctx: &mut Ctx) -> PResult {
        ctx.label("mode=big");
        let variant = t.choice(3) as u8; // 0 linear, 1 quadratic, 2 polynomial
        // 20..80 terms with tape-chosen coefficients, or a size around a power of two (up to 300) with coefficients
        // derived from one seed byte
        let derived = t.p(100);
        let n = if derived { *t.pick(&SIZES) } else { 20 + t.choice(61) };
        let seed = t.byte() as u64;
        let base = *t.pick(&[0u64, 1, 1000]);
        let mut terms: Vec<(Vec<u64>, f64)> = Vec::new();
        let c0 = gen_coeff(t, regime, false);
        if !t.p(40) {
            terms.push((vec![], c0));
        }
        if derived {
            ctx.label("mode=big-derived");
        }
        for i in 0..n {
            let c = if derived { derived_coeff(seed, i as u64) } else { gen_coeff(t, regime, false) };
            let other = base + if derived { (derived_coeff(seed ^ 77, i as u64).abs() * 16.0) as u64 % n as u64 } else { t.choice(n) as u64 };
            let shape = if derived { (derived_coeff(seed ^ 99, i as u64).abs() * 16.0) as usize % 4 } else { t.choice(4) };
            let m = match (variant, shape) {
                (0, _) | (_, 0) | (_, 1) => vec![base + i as u64],
                (1, _) | (_, 2) => vec![base + i as u64, other],
                _ => vec![other, base + i as u64, other],
            };
            terms.push((m, c));
        }
        if terms.len() > 32 {
            ctx.label("terms>32");
        }
        let fcfg = FuncCfg { force_variant: variant + 2, ..cfg.clone() };
        if terms.len() >= 256 {
            ctx.label("terms>=256");
        }
        let f = render(t, &terms, &fcfg, ctx);
        let used = syntactic_ids(&f);
        let state = if derived {
            // exactly the used ids (a packed state when the ids are 0..n or 1..=n)
            let mut st = v1::State::default();
            for id in &used {
                st.entries.insert(*id, derived_value(seed, *id));
            }
            st
        } else {
            gen_state(t, used.iter().copied(), regime)
        };
        ctx.fp_msg(&f);
        ctx.fp_state(&state);
        ctx.fp(&[9]);
        ctx.nontrivial();
        ctx.sample_with(|| json!({"mode":"big function","terms":terms.len(),"variant":variant}));
        let (v, got_ids) = match f.evaluate(&state) {
            Ok(x) => x,
            Err(e) => return fail("C01/big/err-on-total-state", format!("evaluate failed on a total state: {e} for {f:?}")),
        };
        check_value("big", v, &f, &state, regime, ctx)?;
        if got_ids != used {
            return fail("C01/big/id-set", format!("returned id set {got_ids:?} differs from ids occurring in the message {used:?}"));
        }
        // the same function through evaluate_samples (two ids sharing the state)
        let mut samples = v1::Samples::default();
        samples.entries.push(crate::mk::samples_entry(state.clone(), vec![3, 4]));
        match f.evaluate_samples(&samples) {
            Ok((sv, _)) => {
                for e in &sv.entries {
                    check_value("big-samples", e.value, &f, &state, regime, ctx)?;
                }
            }
            Err(e) => return fail("C01/big/samples-err", format!("evaluate_samples failed: {e}")),
        }
        // missing variable: the last id, the first id, and a tape-chosen one (a hole inside an otherwise packed state)
        let k = t.choice(used.len().max(1));
        let victims: Vec<u64> = [used.iter().next_back().copied(), used.iter().next().copied(), used.iter().nth(k).copied()].into_iter().flatten().collect();
        for victim in victims {
            let mut s2 = state.clone();
            s2.entries.remove(&victim);
            ctx.label("big-missing-var");
            if Some(&victim) != used.iter().next_back() && Some(&victim) != used.iter().next() {
                ctx.label("big-missing-interior-var");
            }
            if let Ok((v, _)) = f.evaluate(&s2) {
                return fail("C01/big/missing-var-accepted", format!("evaluate returned {v} although the state lacks id {victim}"));
            }
            // typed entry point as well
            use v1::function::Function as F;
            let r = match &f.function {
                Some(F::Linear(l)) => l.evaluate(&s2).is_ok(),
                Some(F::Quadratic(x)) => x.evaluate(&s2).is_ok(),
                Some(F::Polynomial(x)) => x.evaluate(&s2).is_ok(),
                _ => false,
            };
            if r {
                return fail("C01/big/typed-missing-var-accepted", format!("typed evaluate succeeded although the state lacks id {victim}"));
            }
        }
        Ok(())
    }
}

impl C01 {
    /// Polynomial messages beyond degree four: monomials of degree 5..8 over two to four ids, the ids in any order with
    /// their repetitions scattered ([1, 2, 1, 3, 1]); the schema puts no limit on the degree of a monomial.
    fn run_high_degree(&self, t: &mut Tape, regime: Regime, ctx: &mut Ctx) -> PResult {
        ctx.label("mode=high-degree");
        let ids = gen_ids(t, 4);
        let nterms = 1 + t.choice(3);
        let mut terms: Vec<(Vec<u64>, f64)> = vec![];
        for _ in 0..nterms {
            // 5..8, now and then 16..24 (a monomial has no maximal degree)
            let deg = if t.p(40) { 16 + t.choice(9) } else { 5 + t.choice(4) };
            if deg >= 17 {
                ctx.label("monomial-degree>=17");
            }
            let m: Vec<u64> = (0..deg).map(|_| *t.pick(&ids)).collect();
            let mut sorted = m.clone();
            sorted.sort_unstable();
            if sorted != m && sorted.windows(2).any(|w| w[0] == w[1]) {
                ctx.label("high-degree-monomial-with-scattered-repeats");
            }
            terms.push((m, gen_coeff(t, regime, false)));
        }
        if t.coin() {
            terms.push((vec![], gen_coeff(t, regime, false)));
        }
        let f = crate::mk::fpoly(crate::mk::polynomial(terms.clone()));
        let used = syntactic_ids(&f);
        // small values: the eighth power of k/8 is still exact
        let mut state = v1::State::default();
        for id in &used {
            state.entries.insert(*id, match regime {
                Regime::Dyadic => [1.0, -1.0, 0.5, 2.0, -0.5, 1.0, 0.0, -2.0][t.choice(8)],
                Regime::General => [1.1, -0.9, 0.3, 2.0, -1.7, 1e-3, 0.0, 3.0][t.choice(8)],
            });
        }
        ctx.fp_msg(&f);
        ctx.fp_state(&state);
        ctx.fp(&[0xD5]);
        ctx.nontrivial();
        ctx.sample_with(|| json!({"mode": "high-degree polynomial", "function": fn_json(&f), "state": format!("{:?}", state.entries)}));
        let r = if t.coin() {
            f.evaluate(&state)
        } else {
            match &f.function {
                Some(v1::function::Function::Polynomial(p)) => p.evaluate(&state),
                _ => unreachable!(),
            }
        };
        let (v, got_ids) = match r {
            Ok(x) => x,
            Err(e) => return fail("C01/high-degree/err-on-total-state", format!("evaluate failed on a total state: {e} for {f:?}")),
        };
        check_value("high-degree", v, &f, &state, regime, ctx)?;
        if got_ids != used {
            return fail("C01/high-degree/id-set", format!("returned id set {got_ids:?} differs from ids occurring in the message {used:?} for {f:?}"));
        }
        for victim in used.iter().copied().collect::<Vec<_>>() {
            let mut s2 = state.clone();
            s2.entries.remove(&victim);
            if let Ok((v, _)) = f.evaluate(&s2) {
                return fail("C01/high-degree/missing-var-accepted", format!("evaluate returned {v} although the state lacks id {victim} which occurs in {f:?}"));
            }
        }
        Ok(())
    }
}

impl Property for C01 {
    fn id(&self) -> &'static str {
        "C01"
    }
    fn rule(&self) -> &'static str {
        "case = function message (any oneof state, any wire-legal representation, <=8 raw terms, degree<=4, and polynomial messages with monomials of degree 5..8 whose repeated ids are scattered, ids incl. 0 and u64::MAX; about 5% of the cases: 20..80 raw terms over as many ids, or 9..300 terms (sizes around the powers of two) over ids 0..n / 1..=n / 1000.. with a packed state, also with a hole at the first / last / an interior id) x state; entry points Function / typed evaluate and evaluate_samples; \
         oracle = exact rational value of the raw message fields; non-trivial = >=2 raw terms and (un-normalised representation or missing-variable case or multi-sample case); \
         distinct = sha256 of (encoded message, state, mode)"
    }
    fn required_labels(&self) -> Vec<String> {
        [
            "variant=constant",
            "variant=linear",
            "variant=quadratic",
            "variant=polynomial",
            "variant=unset",
            "repeated-term",
            "lower-triangular",
            "explicit-zero",
            "linear-absent",
            "missing-var",
            "missing-var-zero-coeff",
            "id=u64::MAX",
            "mode=typed",
            "mode=samples",
            "compare=bit-exact",
            "compare=rounding-bound",
            "mode=big",
            "mode=big-derived",
            "terms>32",
            "terms>=256",
            "one-sample-lacks-a-variable",
            "incomplete-sample-with-same-entry-count",
            "sweep=many-variables",
            "big-missing-interior-var",
            "samples-typed",
            "mode=high-degree",
            "high-degree-monomial-with-scattered-repeats",
            "monomial-degree>=17",
            "sweep=dense-quadratic",
        ]
        .iter()
        .map(|s| s.to_string())
        .collect()
    }
    fn cases(&self, tier: Tier) -> usize {
        match tier {
            Tier::Quick => 300_000,
            Tier::Thorough => 10_000_000,
        }
    }
    fn tape_max(&self) -> usize {
        448
    }
    fn sweep_len(&self, _tier: Tier) -> usize {
        HUGE.len() * 3 + 1
    }
    fn sweep_description(&self) -> Option<String> {
        Some("functions over 33 000 and 70 000 distinct variables (beyond the 16-bit counts) as linear, quadratic and polynomial message, through evaluate and evaluate_samples (three samples); a dense quadratic form with 160 000 entries and linear-only variables".into())
    }
    fn sweep_case(&self, _tier: Tier, i: usize, ctx: &mut Ctx) -> PResult {
        if i == HUGE.len() * 3 {
            // a dense quadratic form with 160 000 entries plus a linear part on variables that do not occur in the
            // quadratic part: value, id set (incl. the linear-only variables) and the missing-variable error
            ctx.label("sweep=dense-quadratic");
            ctx.nontrivial();
            ctx.fp_dbg(&("dense-quadratic", DENSE_SIDE));
            ctx.sample_with(|| json!({"sweep": "dense quadratic", "side": DENSE_SIDE, "entries": DENSE_SIDE * DENSE_SIDE}));
            let mut q = v1::Quadratic::default();
            for r in 0..DENSE_SIDE {
                for c in 0..DENSE_SIDE {
                    q.rows.push(r);
                    q.columns.push(c);
                    q.values.push(derived_coeff(7, r * DENSE_SIDE + c));
                }
            }
            q.linear = Some(crate::mk::linear(vec![(100_000, 2.5), (3, -1.0), (200_000, 0.0)], 0.75));
            let f = crate::mk::fquad(q);
            let used = syntactic_ids(&f);
            let mut st = v1::State::default();
            for id in &used {
                st.entries.insert(*id, derived_value(11, *id));
            }
            let (v, got_ids) = match f.evaluate(&st) {
                Ok(x) => x,
                Err(e) => return fail("C01/dense-quadratic/err", format!("evaluate failed on a total state: {e}")),
            };
            check_value("dense-quadratic", v, &f, &st, Regime::Dyadic, ctx).map_err(|mut e| {
                e.message.truncate(400);
                e
            })?;
            if got_ids != used {
                let lost: Vec<u64> = used.difference(&got_ids).copied().take(5).collect();
                let extra: Vec<u64> = got_ids.difference(&used).copied().take(5).collect();
                return fail("C01/dense-quadratic/id-set", format!("returned id set has {} ids, the message mentions {} (lost {lost:?}, extra {extra:?})", got_ids.len(), used.len()));
            }
            for victim in [100_000u64, 200_000, 0, DENSE_SIDE - 1] {
                let mut s2 = st.clone();
                s2.entries.remove(&victim);
                if f.evaluate(&s2).is_ok() {
                    return fail("C01/dense-quadratic/missing-var-accepted", format!("evaluate succeeded although the state lacks id {victim}"));
                }
            }
            return Ok(());
        }
        let n = HUGE[i / 3] as u64;
        let variant = (i % 3) as u8;
        ctx.label("sweep=many-variables");
        ctx.nontrivial();
        ctx.fp_dbg(&("many-variables", n, variant));
        ctx.sample_with(|| json!({"sweep": "many variables", "variables": n, "variant": variant}));
        let seed = 5 + n;
        let mut terms: Vec<(Vec<u64>, f64)> = (0..n).map(|k| (vec![k * 2 + 1], derived_coeff(seed, k))).collect();
        terms.push((vec![], 0.75));
        if variant >= 1 {
            // a few products of far-apart variables
            for k in 0..8u64 {
                terms.push((vec![k * 2 + 1, (n - 1 - k) * 2 + 1], derived_coeff(seed ^ 9, k)));
            }
        }
        let cfg = FuncCfg { force_variant: variant + 2, unnormalised: false, ..FuncCfg::default() };
        let f = render(&mut Tape::new(&[]), &terms, &cfg, &mut Ctx::new(ctx.tier, false));
        let used = syntactic_ids(&f);
        let mut samples = v1::Samples::default();
        for s in 0..3u64 {
            let mut st = v1::State::default();
            for id in &used {
                st.entries.insert(*id, derived_value(seed + s, *id));
            }
            if s == 0 {
                let (v, got_ids) = match f.evaluate(&st) {
                    Ok(x) => x,
                    Err(e) => return fail("C01/many-variables/err", format!("evaluate failed on a total state over {n} variables: {e}")),
                };
                check_value("many-variables", v, &f, &st, Regime::Dyadic, ctx).map_err(|mut e| {
                    e.message.truncate(400);
                    e
                })?;
                if got_ids != used {
                    return fail("C01/many-variables/id-set", format!("returned id set has {} ids, the message mentions {}", got_ids.len(), used.len()));
                }
            }
            samples.entries.push(crate::mk::samples_entry(st, vec![10 + s]));
        }
        let (sv, _) = match f.evaluate_samples(&samples) {
            Ok(x) => x,
            Err(e) => return fail("C01/many-variables/samples-err", format!("evaluate_samples failed over {n} variables: {e}")),
        };
        for e in &sv.entries {
            for id in &e.ids {
                let st = samples.entries.iter().find(|x| x.ids.contains(id)).and_then(|x| x.state.as_ref()).unwrap();
                check_value("many-variables/samples", e.value, &f, st, Regime::Dyadic, ctx).map_err(|mut er| {
                    er.message.truncate(400);
                    er
                })?;
            }
        }
        Ok(())
    }
    fn assumptions(&self) -> Vec<String> {
        vec![
            "coefficients/values finite, |value| <= 1e6, exact values far below f64 overflow".into(),
            "quadratic rows/columns/values of equal length (wire-legal content)".into(),
            "num-bigint/num-rational arithmetic is correct".into(),
        ]
    }

    fn run(&self, t: &mut Tape, ctx: &mut Ctx) -> PResult {
        let regime = if t.p(96) { Regime::General } else { Regime::Dyadic };
        let cfg = FuncCfg {
            regime,
            ..FuncCfg::default()
        };
        if t.p(14) {
            return self.run_big(t, regime, &cfg, ctx);
        }
        if t.p(10) {
            return self.run_high_degree(t, regime, ctx);
        }
        let ids = gen_ids(t, 5);
        let f = gen_function(t, &ids, &cfg, ctx);
        let used = syntactic_ids(&f);
        let raw = raw_terms(&f);
        let unnormalised = ["repeated-term", "lower-triangular", "explicit-zero", "symmetric-split", "unsorted-monomial", "multi-const", "dup-quad-position", "linear-present-zero"]
            .iter()
            .any(|l| ctx.labels.iter().any(|x| x == l));
        let mode = t.weighted(&[6, 3, 2, 2]);
        // state over used ids + sometimes extra ids
        let mut state_ids: BTreeSet<u64> = used.clone();
        if t.p(64) {
            state_ids.extend(ids.iter().copied());
            state_ids.insert(77);
        }
        let state = gen_state(t, state_ids.iter().copied(), regime);
        ctx.fp_msg(&f);
        ctx.fp_state(&state);
        ctx.fp(&[mode as u8]);

        match mode {
            0 => {
                ctx.label("mode=function");
                if raw.len() >= 2 && unnormalised {
                    ctx.nontrivial();
                }
                ctx.sample_with(|| json!({"mode":"Function::evaluate","function":fn_json(&f),"state":format!("{:?}",state.entries)}));
                let (v, got_ids) = match f.evaluate(&state) {
                    Ok(x) => x,
                    Err(e) => return fail("C01/function/err-on-total-state", format!("evaluate failed on a total state: {e} for {f:?}")),
                };
                check_value("function", v, &f, &state, regime, ctx)?;
                if got_ids != used {
                    return fail(
                        "C01/function/id-set",
                        format!("returned id set {got_ids:?} differs from ids occurring in the message {used:?} for {f:?}"),
                    );
                }
            }
            1 => {
                // missing exactly one occurring id
                if used.is_empty() {
                    ctx.label("mode=missing-skipped-no-ids");
                    return Ok(());
                }
                ctx.label("mode=missing");
                ctx.label("missing-var");
                ctx.nontrivial();
                let all: Vec<u64> = used.iter().copied().collect();
                let victim = *t.pick(&all);
                // does the victim occur only with coefficient zero?
                let only_zero = raw.iter().filter(|(k, _)| k.contains(&victim)).all(|(_, c)| *c == 0.0);
                if only_zero {
                    ctx.label("missing-var-zero-coeff");
                }
                let mut s2 = state.clone();
                s2.entries.remove(&victim);
                ctx.fp(&victim.to_le_bytes());
                ctx.sample_with(|| json!({"mode":"missing variable","function":fn_json(&f),"state":format!("{:?}",s2.entries),"missing":victim}));
                if let Ok((v, _)) = f.evaluate(&s2) {
                    return fail(
                        "C01/missing-var-accepted",
                        format!("evaluate returned {v} although the state lacks id {victim} which occurs in {f:?}"),
                    );
                }
            }
            2 => {
                ctx.label("mode=typed");
                if raw.len() >= 2 && unnormalised {
                    ctx.nontrivial();
                }
                use v1::function::Function as F;
                let r = match &f.function {
                    Some(F::Linear(l)) => Some(l.evaluate(&state)),
                    Some(F::Quadratic(x)) => Some(x.evaluate(&state)),
                    Some(F::Polynomial(x)) => Some(x.evaluate(&state)),
                    _ => None,
                };
                ctx.sample_with(|| json!({"mode":"typed evaluate","function":fn_json(&f),"state":format!("{:?}",state.entries)}));
                if let Some(r) = r {
                    let (v, got_ids) = match r {
                        Ok(x) => x,
                        Err(e) => return fail("C01/typed/err-on-total-state", format!("typed evaluate failed: {e} for {f:?}")),
                    };
                    check_value("typed", v, &f, &state, regime, ctx)?;
                    if got_ids != used {
                        return fail("C01/typed/id-set", format!("returned id set {got_ids:?} != {used:?} for {f:?}"));
                    }
                }
            }
            _ => {
                ctx.label("mode=samples");
                // 1..4 states under arbitrary sample ids, grouped arbitrarily
                let n = 1 + t.choice(4);
                let incomplete = t.p(40);
                let mut samples = v1::Samples::default();
                let mut expect: Vec<(u64, v1::State)> = vec![];
                let mut next_id = *t.pick(&[0u64, 1, 7, 1 << 40]);
                for i in 0..n {
                    let st = if i > 0 && t.p(64) {
                        expect[t.choice(expect.len())].1.clone()
                    } else {
                        gen_state(t, state_ids.iter().copied(), regime)
                    };
                    let sid = next_id;
                    next_id = next_id.wrapping_add(1 + t.choice(3) as u64);
                    // join an existing entry with the same state?
                    let mut joined = false;
                    if t.coin() {
                        for e in samples.entries.iter_mut() {
                            if e.state.as_ref() == Some(&st) {
                                e.ids.push(sid);
                                joined = true;
                                break;
                            }
                        }
                    }
                    if !joined {
                        samples.entries.push(crate::mk::samples_entry(st.clone(), vec![sid]));
                    }
                    expect.push((sid, st));
                }
                if n >= 2 && raw.len() >= 2 {
                    ctx.nontrivial();
                }
                // one sample (not all) lacks a variable of the function: the call must fail, whatever the others assign
                if incomplete && n >= 2 && !used.is_empty() {
                    let victim = *used.iter().nth(t.choice(used.len())).unwrap();
                    let k = t.choice(samples.entries.len());
                    let others_have_it = samples.entries.iter().enumerate().any(|(i, e)| i != k && e.state.as_ref().map(|s| s.entries.contains_key(&victim)).unwrap_or(false));
                    if others_have_it {
                        samples.entries[k].state.as_mut().unwrap().entries.remove(&victim);
                        if t.coin() {
                            // ... while an unrelated id keeps the number of entries the same
                            samples.entries[k].state.as_mut().unwrap().entries.insert(777_777_777, 1.0);
                            ctx.label("incomplete-sample-with-same-entry-count");
                        }
                        ctx.label("one-sample-lacks-a-variable");
                        ctx.nontrivial();
                        ctx.fp(&victim.to_le_bytes());
                        ctx.fp(&[k as u8, 0xEE]);
                        ctx.sample_with(|| json!({"mode":"evaluate_samples, one incomplete sample","function":fn_json(&f),"samples":format!("{:?}",samples)}));
                        use v1::function::Function as F;
                        let r = match (&f.function, t.coin()) {
                            (Some(F::Linear(l)), true) => l.evaluate_samples(&samples),
                            (Some(F::Quadratic(x)), true) => x.evaluate_samples(&samples),
                            (Some(F::Polynomial(x)), true) => x.evaluate_samples(&samples),
                            _ => f.evaluate_samples(&samples),
                        };
                        return match r {
                            Err(_) => Ok(()),
                            Ok((sv, _)) => fail("C01/samples/missing-var-accepted", format!("evaluate_samples returned {sv:?} although the state of entry {k} lacks id {victim}, which occurs in {f:?}; samples {samples:?}")),
                        };
                    }
                }
                for e in &samples.entries {
                    ctx.fp_state(e.state.as_ref().unwrap());
                    ctx.fp_dbg(&e.ids);
                }
                ctx.sample_with(|| json!({"mode":"evaluate_samples","function":fn_json(&f),"samples":format!("{:?}",samples)}));
                // through the Function wrapper or through the typed message's own impl
                let typed = t.coin();
                use v1::function::Function as F;
                let r = match (&f.function, typed) {
                    (Some(F::Linear(l)), true) => {
                        ctx.label("samples-typed");
                        l.evaluate_samples(&samples)
                    }
                    (Some(F::Quadratic(x)), true) => {
                        ctx.label("samples-typed");
                        x.evaluate_samples(&samples)
                    }
                    (Some(F::Polynomial(x)), true) => {
                        ctx.label("samples-typed");
                        x.evaluate_samples(&samples)
                    }
                    _ => f.evaluate_samples(&samples),
                };
                let (sv, got_ids) = match r {
                    Ok(x) => x,
                    Err(e) => return fail("C01/samples/err", format!("evaluate_samples failed: {e} for {f:?} on {samples:?}")),
                };
                if got_ids != used {
                    return fail("C01/samples/id-set", format!("returned id set {got_ids:?} != {used:?} for {f:?}"));
                }
                // read the sampled values table raw
                let mut table = std::collections::BTreeMap::new();
                for e in &sv.entries {
                    for id in &e.ids {
                        if table.insert(*id, e.value).is_some() {
                            return fail("C01/samples/dup-id", format!("sample id {id} occurs twice in {sv:?}"));
                        }
                    }
                }
                let want: BTreeSet<u64> = expect.iter().map(|x| x.0).collect();
                let got: BTreeSet<u64> = table.keys().copied().collect();
                if want != got {
                    return fail("C01/samples/keys", format!("sampled values keyed by {got:?}, submitted {want:?}"));
                }
                for (sid, st) in &expect {
                    check_value("samples", table[sid], &f, st, regime, ctx)?;
                }
            }
        }
        Ok(())
    }
}
