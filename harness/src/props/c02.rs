//! C02 Function arithmetic is exact polynomial arithmetic for every operand mix.

use crate::driver::{fail, Ctx, PResult, Property, Tier};
use crate::exact::*;
use crate::gen::func::*;
use crate::tape::Tape;
use num::Zero;
use ommx::v1::{self, DecisionVariable, Function, Linear, Parameter, Polynomial, Quadratic};
use serde_json::json;
use std::collections::BTreeMap;

pub struct C02;

#[derive(Clone, Copy, PartialEq, Eq, Debug)]
#[allow(clippy::upper_case_acronyms)]
enum K {
    F,
    DV,
    PA,
    L,
    Q,
    P,
    FN,
}

#[derive(Clone, Debug)]
#[allow(clippy::upper_case_acronyms)]
enum Opd {
    F(f64),
    DV(DecisionVariable),
    PA(Parameter),
    L(Linear),
    Q(Quadratic),
    P(Polynomial),
    FN(Function),
}

#[allow(non_snake_case)]
impl Opd {
    fn F(&self) -> f64 {
        match self {
            Opd::F(x) => *x,
            _ => unreachable!(),
        }
    }
    fn DV(&self) -> &DecisionVariable {
        match self {
            Opd::DV(x) => x,
            _ => unreachable!(),
        }
    }
    fn PA(&self) -> &Parameter {
        match self {
            Opd::PA(x) => x,
            _ => unreachable!(),
        }
    }
    fn L(&self) -> Linear {
        match self {
            Opd::L(x) => x.clone(),
            _ => unreachable!(),
        }
    }
    fn Q(&self) -> Quadratic {
        match self {
            Opd::Q(x) => x.clone(),
            _ => unreachable!(),
        }
    }
    fn P(&self) -> Polynomial {
        match self {
            Opd::P(x) => x.clone(),
            _ => unreachable!(),
        }
    }
    fn FN(&self) -> Function {
        match self {
            Opd::FN(x) => x.clone(),
            _ => unreachable!(),
        }
    }
    fn as_function(&self) -> Function {
        match self {
            Opd::F(x) => crate::mk::fconst(*x),
            Opd::DV(d) => crate::mk::flin(crate::mk::linear(vec![(d.id, 1.0)], 0.0)),
            Opd::PA(d) => crate::mk::flin(crate::mk::linear(vec![(d.id, 1.0)], 0.0)),
            Opd::L(l) => crate::mk::flin(l.clone()),
            Opd::Q(l) => crate::mk::fquad(l.clone()),
            Opd::P(l) => crate::mk::fpoly(l.clone()),
            Opd::FN(f) => f.clone(),
        }
    }
}

trait ToFunction {
    fn to_function(&self) -> Function;
}
impl ToFunction for f64 {
    fn to_function(&self) -> Function {
        crate::mk::fconst(*self)
    }
}
impl ToFunction for Linear {
    fn to_function(&self) -> Function {
        crate::mk::flin(self.clone())
    }
}
impl ToFunction for Quadratic {
    fn to_function(&self) -> Function {
        crate::mk::fquad(self.clone())
    }
}
impl ToFunction for Polynomial {
    fn to_function(&self) -> Function {
        crate::mk::fpoly(self.clone())
    }
}
impl ToFunction for Function {
    fn to_function(&self) -> Function {
        self.clone()
    }
}

#[derive(Clone, Copy, PartialEq, Eq, Debug)]
enum Op {
    Add,
    Sub,
    Mul,
    Neg,
    NegRef,
}

struct Row {
    name: &'static str,
    op: Op,
    lk: K,
    rk: K, // ignored for Neg
    f: fn(&Opd, &Opd) -> Function,
}

macro_rules! bin {
    ($rows:ident, $opname:ident, $op:tt, $( ($lk:ident, $rk:ident) ),* $(,)?) => {
        $(
            $rows.push(Row {
                name: concat!(stringify!($lk), " ", stringify!($op), " ", stringify!($rk)),
                op: Op::$opname,
                lk: K::$lk,
                rk: K::$rk,
                f: |a, b| (a.$lk() $op b.$rk()).to_function(),
            });
        )*
    };
}

macro_rules! neg {
    ($rows:ident, $( $k:ident ),*) => {
        $(
            $rows.push(Row { name: concat!("-", stringify!($k)), op: Op::Neg, lk: K::$k, rk: K::F, f: |a, _| (-a.$k()).to_function() });
        )*
    };
}
macro_rules! negref {
    ($rows:ident, $( $k:ident ),*) => {
        $(
            $rows.push(Row { name: concat!("-&", stringify!($k)), op: Op::NegRef, lk: K::$k, rk: K::F, f: |a, _| (-&a.$k()).to_function() });
        )*
    };
}

fn table() -> Vec<Row> {
    let mut r: Vec<Row> = Vec::new();
    // every Add impl the API defines
    bin!(r, Add, +,
        (L, L), (L, F), (F, L),
        (Q, Q), (Q, L), (Q, F), (L, Q), (F, Q),
        (P, P), (P, F), (P, L), (P, Q), (F, P), (L, P), (Q, P),
        (FN, FN), (FN, F), (FN, L), (FN, Q), (FN, P), (F, FN), (L, FN), (Q, FN), (P, FN),
        (PA, PA), (PA, DV), (DV, PA), (DV, DV),
        (PA, F), (PA, L), (PA, Q), (PA, P), (PA, FN), (F, PA), (L, PA), (Q, PA), (P, PA), (FN, PA),
        (DV, F), (DV, L), (DV, Q), (DV, P), (DV, FN), (F, DV), (L, DV), (Q, DV), (P, DV), (FN, DV),
    );
    bin!(r, Sub, -,
        (L, F), (L, L), (Q, L), (Q, F), (Q, Q), (P, P),
        (FN, FN), (FN, F), (FN, L), (FN, Q), (FN, P),
    );
    bin!(r, Mul, *,
        (L, F), (F, L), (L, L),
        (Q, Q), (Q, L), (L, Q), (Q, F), (F, Q),
        (P, P), (P, F), (P, L), (P, Q), (F, P), (L, P), (Q, P),
        (FN, FN), (FN, F), (FN, L), (FN, Q), (FN, P), (F, FN), (L, FN), (Q, FN), (P, FN),
        (PA, PA), (PA, DV), (DV, PA), (DV, DV),
        (PA, F), (PA, L), (PA, Q), (PA, P), (PA, FN), (F, PA), (L, PA), (Q, PA), (P, PA), (FN, PA),
        (DV, F), (DV, L), (DV, Q), (DV, P), (DV, FN), (F, DV), (L, DV), (Q, DV), (P, DV), (FN, DV),
    );
    neg!(r, L, Q, P, FN);
    negref!(r, L, Q, P, FN);
    r.push(Row { name: "-&PA", op: Op::NegRef, lk: K::PA, rk: K::F, f: |a, _| (-a.PA()).to_function() });
    r.push(Row { name: "-&DV", op: Op::NegRef, lk: K::DV, rk: K::F, f: |a, _| (-a.DV()).to_function() });
    r
}

fn gen_operand(t: &mut Tape, k: K, ids: &[u64], regime: Regime, ctx: &mut Ctx) -> Opd {
    let base = FuncCfg {
        regime,
        allow_unset: false,
        allow_dup_quad_pos: false,
        max_terms: 8,
        ..FuncCfg::default()
    };
    use v1::function::Function as FE;
    match k {
        K::F => Opd::F(if t.p(24) { 0.0 } else { gen_coeff(t, regime, false) }),
        K::DV => {
            let mut d = DecisionVariable::default();
            d.id = *t.pick(ids);
            d.kind = *t.pick(&[
                v1::decision_variable::Kind::Continuous as i32,
                v1::decision_variable::Kind::Integer as i32,
                v1::decision_variable::Kind::Binary as i32,
            ]);
            // a variable as it looks inside an instance: bound, name, and possibly a value recorded by an
            // earlier partial evaluation -- as an operand it still stands for the variable x_id
            if t.p(96) {
                d.bound = Some(crate::mk::bound(-4.0, 4.0));
                d.name = Some("x".into());
            }
            if t.p(96) {
                d.substituted_value = Some(gen_value(t, regime));
                ctx.label("dv-with-recorded-value");
            }
            Opd::DV(d)
        }
        K::PA => {
            let mut d = Parameter::default();
            d.id = *t.pick(ids);
            Opd::PA(d)
        }
        K::L => {
            let cfg = FuncCfg { max_degree: 1, force_variant: 2, ..base };
            match gen_function(t, ids, &cfg, ctx).function {
                Some(FE::Linear(l)) => Opd::L(l),
                _ => unreachable!(),
            }
        }
        K::Q => {
            let cfg = FuncCfg { max_degree: 2, force_variant: 3, ..base };
            match gen_function(t, ids, &cfg, ctx).function {
                Some(FE::Quadratic(l)) => Opd::Q(l),
                _ => unreachable!(),
            }
        }
        K::P => {
            let cfg = FuncCfg { max_degree: 3, force_variant: 4, ..base };
            match gen_function(t, ids, &cfg, ctx).function {
                Some(FE::Polynomial(l)) => Opd::P(l),
                _ => unreachable!(),
            }
        }
        K::FN => {
            let cfg = FuncCfg { max_degree: 3, ..base };
            Opd::FN(gen_function(t, ids, &cfg, ctx))
        }
    }
}

/// every coefficient of the operand multiplied by `s` (a power of two: exact)
fn scale_opd(o: &Opd, s: f64) -> Opd {
    fn lin(l: &Linear, s: f64) -> Linear {
        let mut l = l.clone();
        for t in l.terms.iter_mut() {
            t.coefficient *= s;
        }
        l.constant *= s;
        l
    }
    fn quad(q: &Quadratic, s: f64) -> Quadratic {
        let mut q = q.clone();
        for v in q.values.iter_mut() {
            *v *= s;
        }
        q.linear = q.linear.as_ref().map(|l| lin(l, s));
        q
    }
    fn poly(p: &Polynomial, s: f64) -> Polynomial {
        let mut p = p.clone();
        for t in p.terms.iter_mut() {
            t.coefficient *= s;
        }
        p
    }
    use v1::function::Function as FE;
    match o {
        Opd::L(l) => Opd::L(lin(l, s)),
        Opd::Q(q) => Opd::Q(quad(q, s)),
        Opd::P(p) => Opd::P(poly(p, s)),
        Opd::FN(f) => {
            let mut f = f.clone();
            f.function = match f.function.take() {
                Some(FE::Constant(c)) => Some(FE::Constant(c * s)),
                Some(FE::Linear(l)) => Some(FE::Linear(lin(&l, s))),
                Some(FE::Quadratic(q)) => Some(FE::Quadratic(quad(&q, s))),
                Some(FE::Polynomial(p)) => Some(FE::Polynomial(poly(&p, s))),
                other => other,
            };
            Opd::FN(f)
        }
        other => other.clone(),
    }
}

/// per-coefficient comparison of a result message with the exact polynomial
fn compare(
    sig: &str,
    got: &Function,
    exact: &Poly,
    contrib: &BTreeMap<Mono, (usize, f64, f64)>, // monomial -> (#contributions, sum |contribution|, allowance for documented sub-epsilon drops)
    regime: Regime,
    what: &dyn Fn() -> String,
) -> PResult {
    let gp = Poly::from_function(got);
    if regime == Regime::Dyadic {
        if &gp != exact {
            return fail(
                format!("C02/{sig}/not-exact"),
                format!("{}\n result  = {}\n exact   = {}", what(), gp.describe(), exact.describe()),
            );
        }
        return Ok(());
    }
    let keys: std::collections::BTreeSet<&Mono> = gp.terms.keys().chain(exact.terms.keys()).collect();
    for k in keys {
        let g = gp.terms.get(k).cloned().unwrap_or_else(Q::zero);
        let e = exact.terms.get(k).cloned().unwrap_or_else(Q::zero);
        let (n, mag, drops) = contrib.get(k).copied().unwrap_or((0, 0.0, 0.0));
        let tol = gamma(4 * (n + 8)) * mag + (drops + 2.0 * f64::EPSILON) * 1.0000001;
        let d = num::Signed::abs(&(g.clone() - e.clone()));
        if d > q(tol) {
            return fail(
                format!("C02/{sig}/coefficient-outside-bound"),
                format!(
                    "{}\n coefficient of {:?}: got {:e}, exact {:e}, tolerance {:e}",
                    what(),
                    k,
                    q_to_f64(&g),
                    q_to_f64(&e),
                    tol
                ),
            );
        }
    }
    Ok(())
}

/// `drop`: how much this contribution may legitimately be off because the SDK drops
/// coefficients (of operands, partial sums or results) whose magnitude is <= f64::EPSILON.
fn add_contrib(m: &mut BTreeMap<Mono, (usize, f64, f64)>, ids: &[u64], mag: f64, drop: f64) {
    let mut k = ids.to_vec();
    k.sort_unstable();
    let e = m.entry(k).or_insert((0, 0.0, 0.0));
    e.0 += 1;
    e.1 += mag.abs();
    e.2 += drop;
}

const EPS: f64 = f64::EPSILON;

impl Property for C02 {
    fn id(&self) -> &'static str {
        "C02"
    }
    fn rule(&self) -> &'static str {
        "case = one row of the operation table (every Add/Sub/Mul/Neg impl the API defines, 7 operand kinds, both orders) x operand values (<=8 raw terms, small id sets so terms collide/cancel, unsorted/repeated/lower-triangular allowed, duplicate quadratic positions excluded) | Sum/Product folds | term-iterator check; \
         oracle = the same ring operation on exact BigRational polynomials read from raw fields; non-trivial = mixed operand kinds or a result coefficient with >=2 contributions; distinct = sha256(row, operands)"
    }
    fn required_labels(&self) -> Vec<String> {
        let mut v: Vec<String> = table().iter().map(|r| format!("row={}", r.name)).collect();
        v.extend(["mode=iterator", "mode=sum-function", "mode=sum-linear", "mode=product", "collision", "cancellation", "regime=general", "regime=dyadic", "dv-with-recorded-value", "tiny-scalar-times-huge-coefficients", "same-operand-twice", "depth-two-expression"].iter().map(|s| s.to_string()));
        v
    }
    fn cases(&self, tier: Tier) -> usize {
        match tier {
            Tier::Quick => 400_000,
            Tier::Thorough => 10_000_000,
        }
    }
    fn assumptions(&self) -> Vec<String> {
        vec![
            "Function operands have their oneof set (the SDK documents a panic 'Empty Function' otherwise)".into(),
            "quadratic operands carry no duplicated (row, column) position (schema requirement, part of the property's quantifier)".into(),
            "finite coefficients of moderate magnitude (no overflow)".into(),
        ]
    }

    fn run(&self, t: &mut Tape, ctx: &mut Ctx) -> PResult {
        let regime = if t.p(80) { Regime::General } else { Regime::Dyadic };
        ctx.label(if regime == Regime::General { "regime=general" } else { "regime=dyadic" });
        let ids = gen_ids(t, 4);
        let mode = t.weighted(&[20, 2, 1, 1, 1]);
        match mode {
            0 => {
                let tab = table();
                let row = &tab[t.choice(tab.len())];
                ctx.label(format!("row={}", row.name));
                let scaled = t.p(40);
                let same = t.p(36);
                // the result is used as an operand of a further operation (an expression of depth two)
                let chain = if t.p(70) { 1 + t.choice(4) } else { 0 };
                let mut a = gen_operand(t, row.lk, &ids, regime, ctx);
                let unary = matches!(row.op, Op::Neg | Op::NegRef);
                let mut b = if unary { Opd::F(0.0) } else { gen_operand(t, row.rk, &ids, regime, ctx) };
                // f + f, f - f, f * f: the same value on both sides (implementations may special-case equal operands)
                if same && !unary && row.lk == row.rk && row.lk != K::F {
                    b = a.clone();
                    ctx.label("same-operand-twice");
                }
                // scalar multiples with a tiny scalar and huge coefficients (2^-60 * 2^70 k/16): every result
                // coefficient is an ordinary dyadic number, so nothing may be dropped and the result is exact
                let poly_kind = |k: K| matches!(k, K::L | K::Q | K::P | K::FN);
                if scaled && regime == Regime::Dyadic && row.op == Op::Mul {
                    let s = *t.pick(&[1.0f64, -1.0, 3.0, -2.0]) * (2.0f64).powi(-60);
                    if row.lk == K::F && poly_kind(row.rk) && a.F() != 0.0 {
                        a = Opd::F(s);
                        b = scale_opd(&b, (2.0f64).powi(70));
                        ctx.label("tiny-scalar-times-huge-coefficients");
                    } else if row.rk == K::F && poly_kind(row.lk) && b.F() != 0.0 {
                        b = Opd::F(s);
                        a = scale_opd(&a, (2.0f64).powi(70));
                        ctx.label("tiny-scalar-times-huge-coefficients");
                    }
                }
                ctx.fp_str(row.name);
                ctx.fp_msg(&a.as_function());
                ctx.fp_msg(&b.as_function());
                let fa = a.as_function();
                let fb = b.as_function();
                let pa = Poly::from_function(&fa);
                let pb = Poly::from_function(&fb);
                let ra = raw_terms(&fa);
                let rb = raw_terms(&fb);
                let mut contrib: BTreeMap<Mono, (usize, f64, f64)> = BTreeMap::new();
                let exact = match row.op {
                    Op::Add => {
                        for (k, c) in ra.iter().chain(rb.iter()) {
                            add_contrib(&mut contrib, k, *c, EPS);
                        }
                        pa.add(&pb)
                    }
                    Op::Sub => {
                        for (k, c) in ra.iter().chain(rb.iter()) {
                            add_contrib(&mut contrib, k, *c, EPS);
                        }
                        pa.sub(&pb)
                    }
                    Op::Mul => {
                        for (k1, c1) in &ra {
                            for (k2, c2) in &rb {
                                let mut k = k1.clone();
                                k.extend_from_slice(k2);
                                add_contrib(&mut contrib, &k, c1 * c2, EPS * (c1.abs() + c2.abs() + 1.0));
                            }
                        }
                        pa.mul(&pb)
                    }
                    Op::Neg | Op::NegRef => {
                        for (k, c) in ra.iter() {
                            add_contrib(&mut contrib, k, *c, EPS);
                        }
                        pa.neg()
                    }
                };
                let collide = contrib.values().any(|(n, _, _)| *n >= 2);
                if collide {
                    ctx.label("collision");
                }
                if contrib.iter().any(|(k, (n, _, _))| *n >= 2 && !exact.terms.contains_key(k)) {
                    ctx.label("cancellation");
                }
                if (!unary && row.lk != row.rk) || collide {
                    ctx.nontrivial();
                }
                ctx.sample_with(|| json!({"row": row.name, "lhs": format!("{:?}", a), "rhs": if unary { "-".to_string() } else { format!("{:?}", b) }}));
                let got = (row.f)(&a, &b);
                let what = || format!("{}: lhs = {:?}, rhs = {:?}", row.name, a, b);
                compare(&format!("row={}", row.name), &got, &exact, &contrib, regime, &what)?;
                // depth two: (a op b) combined with a third function, on either side. Whatever representation the first
                // operation chose for its result, the second one must read it as the polynomial it stands for.
                if chain != 0 && regime == Regime::Dyadic && !(scaled && row.op == Op::Mul) {
                    let c = gen_operand(t, K::FN, &ids, regime, ctx).as_function();
                    let pc = Poly::from_function(&c);
                    let pg = Poly::from_function(&got);
                    let (rg, rc) = (raw_terms(&got), raw_terms(&c));
                    let mut contrib2: BTreeMap<Mono, (usize, f64, f64)> = BTreeMap::new();
                    let (got2, exact2, opname) = match chain {
                        1 | 2 => {
                            for (k, v) in rg.iter().chain(rc.iter()) {
                                add_contrib(&mut contrib2, k, *v, EPS);
                            }
                            if chain == 1 {
                                (got.clone() + c.clone(), pg.add(&pc), "(lhs op rhs) + third")
                            } else {
                                (c.clone() + got.clone(), pg.add(&pc), "third + (lhs op rhs)")
                            }
                        }
                        3 => {
                            for (k, v) in rg.iter() {
                                add_contrib(&mut contrib2, k, *v, EPS);
                            }
                            for (k, v) in rc.iter() {
                                add_contrib(&mut contrib2, k, -*v, EPS);
                            }
                            (got.clone() - c.clone(), pg.sub(&pc), "(lhs op rhs) - third")
                        }
                        _ => {
                            for (k1, c1) in &rg {
                                for (k2, c2) in &rc {
                                    let mut k = k1.clone();
                                    k.extend_from_slice(k2);
                                    add_contrib(&mut contrib2, &k, c1 * c2, EPS * (c1.abs() + c2.abs() + 1.0));
                                }
                            }
                            (got.clone() * c.clone(), pg.mul(&pc), "(lhs op rhs) * third")
                        }
                    };
                    ctx.label("depth-two-expression");
                    let what2 = || format!("{opname} with {}: lhs = {:?}, rhs = {:?}, third = {:?}, first result = {:?}", row.name, a, b, c, got);
                    compare(&format!("chain/row={}", row.name), &got2, &exact2, &contrib2, regime, &what2)?;
                }
            }
            1 => {
                // term iterator: sum of yielded (sorted ids, coefficient) pairs is the polynomial
                ctx.label("mode=iterator");
                let cfg = FuncCfg { regime, ..FuncCfg::default() };
                let f = gen_function(t, &ids, &cfg, ctx);
                ctx.fp_msg(&f);
                let raw = raw_terms(&f);
                if raw.len() >= 2 {
                    ctx.nontrivial();
                }
                ctx.sample_with(|| json!({"mode": "term iterator", "function": fn_json(&f)}));
                let mut p = Poly::zero();
                for (ids, c) in &f {
                    let v: Vec<u64> = ids.iter().copied().collect();
                    if v.windows(2).any(|w| w[0] > w[1]) {
                        return fail("C02/iterator/unsorted-ids", format!("iterator of {f:?} yielded unsorted ids {v:?}"));
                    }
                    if !c.is_finite() {
                        return fail("C02/iterator/non-finite", format!("iterator of {f:?} yielded {c}"));
                    }
                    p.add_term(v, q(c));
                }
                let exact = Poly::from_function(&f);
                if p != exact {
                    return fail(
                        "C02/iterator/sum-differs",
                        format!("sum of iterator items of {f:?} is {} but the message represents {}", p.describe(), exact.describe()),
                    );
                }
            }
            2 => {
                ctx.label("mode=sum-function");
                let n = t.choice(5);
                let mut fs = vec![];
                let mut exact = Poly::zero();
                let mut contrib = BTreeMap::new();
                for _ in 0..n {
                    let o = gen_operand(t, K::FN, &ids, regime, ctx);
                    let f = o.as_function();
                    exact = exact.add(&Poly::from_function(&f));
                    for (k, c) in raw_terms(&f) {
                        add_contrib(&mut contrib, &k, c, EPS);
                    }
                    ctx.fp_msg(&f);
                    fs.push(f);
                }
                ctx.fp_str("sum");
                if n >= 2 {
                    ctx.nontrivial();
                }
                ctx.sample_with(|| json!({"mode": "Sum<Function>", "items": format!("{:?}", fs)}));
                let got: Function = fs.iter().cloned().sum();
                let what = || format!("Sum<Function> of {:?}", fs);
                compare("sum-function", &got, &exact, &contrib, regime, &what)?;
            }
            3 => {
                ctx.label("mode=sum-linear");
                let n = t.choice(5);
                let mut fs = vec![];
                let mut exact = Poly::zero();
                let mut contrib = BTreeMap::new();
                for _ in 0..n {
                    let o = gen_operand(t, K::L, &ids, regime, ctx);
                    let f = o.as_function();
                    exact = exact.add(&Poly::from_function(&f));
                    for (k, c) in raw_terms(&f) {
                        add_contrib(&mut contrib, &k, c, EPS);
                    }
                    ctx.fp_msg(&f);
                    fs.push(o.L());
                }
                ctx.fp_str("sumlin");
                if n >= 2 {
                    ctx.nontrivial();
                }
                ctx.sample_with(|| json!({"mode": "Sum<Linear>", "items": format!("{:?}", fs)}));
                let got: Linear = fs.iter().cloned().sum();
                let what = || format!("Sum<Linear> of {:?}", fs);
                compare("sum-linear", &got.to_function(), &exact, &contrib, regime, &what)?;
            }
            _ => {
                ctx.label("mode=product");
                let n = t.choice(4);
                let mut fs: Vec<Function> = vec![];
                let mut exact = Poly::constant(qi(1));
                // contributions: expand raw products
                let mut raws: Vec<(Vec<u64>, f64, f64)> = vec![(vec![], 1.0, 0.0)];
                for _ in 0..n {
                    let base = FuncCfg { regime, allow_unset: false, allow_dup_quad_pos: false, max_terms: 4, max_degree: 2, ..FuncCfg::default() };
                    let f = gen_function(t, &ids, &base, ctx);
                    exact = exact.mul(&Poly::from_function(&f));
                    let r = raw_terms(&f);
                    let mut next = vec![];
                    for (k1, c1, d1) in &raws {
                        for (k2, c2) in &r {
                            let mut k = k1.clone();
                            k.extend_from_slice(k2);
                            next.push((k, c1 * c2, d1 * c2.abs() + c1.abs() * EPS + d1 * EPS + EPS));
                        }
                    }
                    raws = next;
                    ctx.fp_msg(&f);
                    fs.push(f);
                }
                ctx.fp_str("product");
                let mut contrib = BTreeMap::new();
                for (k, c, d) in &raws {
                    add_contrib(&mut contrib, k, *c, *d);
                }
                if n >= 2 {
                    ctx.nontrivial();
                }
                ctx.sample_with(|| json!({"mode": "Product<Function>", "items": format!("{:?}", fs)}));
                let got: Function = fs.iter().cloned().product();
                let what = || format!("Product<Function> of {:?}", fs);
                for v in contrib.values_mut() {
                    v.0 += 16; // several rounding steps per factor
                }
                compare("product", &got, &exact, &contrib, regime, &what)?;
            }
        }
        Ok(())
    }
}
