//! C03 Partial evaluation commutes with evaluation (functions, constraints, instances).

use crate::driver::{fail, Ctx, PResult, Property, Tier};
use crate::exact::*;
use crate::gen::func::*;
use crate::gen::inst::*;
use crate::model::{self, *};
use crate::props::c05::{describe_inst, fp_instance, sorted_state};
use crate::tape::Tape;
use num::{Signed, Zero};
use ommx::v1;
use ommx::Evaluate;
use serde_json::json;
use std::collections::{BTreeMap, BTreeSet};

pub struct C03;

const EPS: f64 = f64::EPSILON;

/// Compare the polynomial of `after` with the exact partial evaluation of `before` at `s1`.
pub fn check_partial(sig: &str, before: &v1::Function, after: &v1::Function, s1: &v1::State, regime: Regime) -> PResult {
    // no fixed id may be mentioned any more
    let left = syntactic_ids(after);
    if let Some(id) = left.iter().find(|i| s1.entries.contains_key(i)) {
        return fail(format!("{sig}/fixed-id-still-mentioned"), format!("after partial_evaluate the message still mentions fixed id {id}: {after:?} (before {before:?}, fixed {:?})", sorted_state(s1)));
    }
    let exact = Poly::from_function(before).partial_eval(&qstate(s1));
    let got = Poly::from_function(after);
    // exactness criterion: treat free variables as 1
    let raw = raw_terms(before);
    let mut st1 = s1.clone();
    for (ids, _) in &raw {
        for id in ids {
            st1.entries.entry(*id).or_insert(1.0);
        }
    }
    if regime == Regime::Dyadic && eval_is_provably_exact(&raw, &st1) {
        if got != exact {
            return fail(
                format!("{sig}/partial-not-exact"),
                format!("partial_evaluate of {before:?} at {:?}\n gives   {}\n exact   {}", sorted_state(s1), got.describe(), exact.describe()),
            );
        }
        return Ok(());
    }
    // per-coefficient bound
    let mut contrib: BTreeMap<Mono, (usize, f64, f64)> = BTreeMap::new();
    for (ids, c) in &raw {
        let mut mag = c.abs();
        let mut rest = vec![];
        let mut prod = 1.0f64;
        for id in ids {
            match s1.entries.get(id) {
                Some(v) => {
                    mag *= v.abs();
                    prod *= v.abs();
                }
                None => rest.push(*id),
            }
        }
        rest.sort_unstable();
        let e = contrib.entry(rest).or_insert((0, 0.0, 0.0));
        e.0 += 1;
        e.1 += mag;
        e.2 += EPS * prod.max(1.0) + EPS;
    }
    let keys: BTreeSet<&Mono> = got.terms.keys().chain(exact.terms.keys()).collect();
    for k in keys {
        let g = got.terms.get(k).cloned().unwrap_or_else(Q::zero);
        let e = exact.terms.get(k).cloned().unwrap_or_else(Q::zero);
        let (n, mag, drops) = contrib.get(k).copied().unwrap_or((0, 0.0, 0.0));
        let tol = gamma(4 * (n + 12)) * mag + (drops + 2.0 * EPS) * 1.0000001;
        if (g.clone() - e.clone()).abs() > q(tol) {
            return fail(
                format!("{sig}/partial-coefficient-outside-bound"),
                format!(
                    "partial_evaluate of {before:?} at {:?}: coefficient of {:?} is {:e}, exact {:e}, tolerance {:e}",
                    sorted_state(s1),
                    k,
                    q_to_f64(&g),
                    q_to_f64(&e),
                    tol
                ),
            );
        }
    }
    Ok(())
}

/// returned id set: subset of (fixed AND occurring), superset of (fixed AND occurring in a non-zero term)
pub fn check_returned_ids(sig: &str, before: &v1::Function, s1: &v1::State, got: &BTreeSet<u64>) -> PResult {
    let occurring = syntactic_ids(before);
    let upper: BTreeSet<u64> = occurring.iter().copied().filter(|i| s1.entries.contains_key(i)).collect();
    let mut lower = BTreeSet::new();
    for (ids, c) in raw_terms(before) {
        if c.abs() > EPS {
            for id in ids {
                if s1.entries.contains_key(&id) {
                    lower.insert(id);
                }
            }
        }
    }
    if !got.is_subset(&upper) {
        return fail(format!("{sig}/returned-ids-too-large"), format!("partial_evaluate returned ids {got:?}, but only {upper:?} are fixed and occur in {before:?}"));
    }
    if !lower.is_subset(got) {
        return fail(format!("{sig}/returned-ids-too-small"), format!("partial_evaluate returned ids {got:?}, but {lower:?} are fixed and occur with non-zero coefficient in {before:?}"));
    }
    Ok(())
}

/// split by a mask drawn early on the tape (so that short tapes still split)
/// f := f + c * x_id, whatever the representation of f
fn add_term(f: &mut Option<v1::Function>, id: u64, c: f64) {
    use v1::function::Function as F;
    let mut g = f.take().unwrap_or_else(|| crate::mk::fconst(0.0));
    match &mut g.function {
        Some(F::Linear(l)) => l.terms.push(crate::mk::term(id, c)),
        Some(F::Quadratic(q)) => match &mut q.linear {
            Some(l) => l.terms.push(crate::mk::term(id, c)),
            None => q.linear = Some(crate::mk::linear(vec![(id, c)], 0.0)),
        },
        Some(F::Polynomial(p)) => p.terms.push(crate::mk::monomial(vec![id], c)),
        Some(F::Constant(k)) => {
            let k = *k;
            g = crate::mk::flin(crate::mk::linear(vec![(id, c)], k));
        }
        _ => g = crate::mk::flin(crate::mk::linear(vec![(id, c)], 0.0)),
    }
    *f = Some(g);
}

fn split_state(mask: u16, s: &v1::State) -> (v1::State, v1::State) {
    let mut a = v1::State::default();
    let mut b = v1::State::default();
    for (i, (k, v)) in sorted_state(s).into_iter().enumerate() {
        if (mask >> (i % 16)) & 1 == 1 {
            a.entries.insert(k, v);
        } else {
            b.entries.insert(k, v);
        }
    }
    (a, b)
}

fn mixes(f: &v1::Function, s1: &v1::State) -> bool {
    raw_terms(f).iter().any(|(ids, _)| ids.iter().any(|i| s1.entries.contains_key(i)) && ids.iter().any(|i| !s1.entries.contains_key(i)))
}

fn unnormalised(ctx: &Ctx) -> bool {
    ["repeated-term", "lower-triangular", "explicit-zero", "symmetric-split", "unsorted-monomial", "multi-const", "dup-quad-position", "linear-present-zero"]
        .iter()
        .any(|l| ctx.labels.iter().any(|x| x == l))
}

impl Property for C03 {
    fn id(&self) -> &'static str {
        "C03"
    }
    fn rule(&self) -> &'static str {
        "case = (function | constraint | removed constraint | instance with removed constraints, dependencies, irrelevant variables; any representation) x in-bound state x split into fixed part s1 (possibly with non-occurring ids, possibly applied in two steps in either order) and remainder s2; also functions of 9..257 terms listed in ascending id order with repeated ids of which 1..3 variables are fixed, and instances in which a variable fixed earlier has re-entered the functions and is fixed again, instances with a crowd of 12..70 further unused variables in a scrambled list, and (dyadic regime) fixed sets that also name a dependent variable at the value its definition gives it, where the statement's relation evaluate(partial(I,s1),s2) = evaluate(I,s1 u s2) is checked directly; \
         oracle = exact partial evaluation of the raw polynomial + reference evaluator at s1 u s2; non-trivial = s1, s2 non-empty and a term mixing a fixed and a free variable; distinct = sha256(object, s1, s2, steps)"
    }
    fn required_labels(&self) -> Vec<String> {
        ["level=function", "level=constraint", "level=removed-constraint", "level=instance", "removed-constraint", "dependency", "non-normalised", "two-step", "fixed-id-not-occurring", "regime=general", "regime=dyadic", "mixed-term", "big-sorted-function", "big-sorted-function-repeats-an-id", "fixed-variable-mentioned-again-and-fixed-again", "crowd-of-unused-variables", "fixed-set-names-a-dependent-variable", "remainder-also-evaluated-as-sample-set"]
            .iter()
            .map(|s| s.to_string())
            .collect()
    }
    fn cases(&self, tier: Tier) -> usize {
        match tier {
            Tier::Quick => 300_000,
            Tier::Thorough => 6_000_000,
        }
    }
    fn tape_max(&self) -> usize {
        640
    }
    fn assumptions(&self) -> Vec<String> {
        vec!["states are in-bound and do not assign dependent variables".into(), "sub-epsilon coefficients may be dropped (documented); the allowance is part of the rounding bound".into()]
    }

    fn run(&self, t: &mut Tape, ctx: &mut Ctx) -> PResult {
        let regime = if t.p(80) { Regime::General } else { Regime::Dyadic };
        ctx.label(if regime == Regime::General { "regime=general" } else { "regime=dyadic" });
        let level = t.weighted(&[4, 1, 1, 6]);
        let two_step = t.p(100);
        let order = t.coin();
        let mask1 = t.u16();
        let mask2 = t.u16();
        if level <= 2 {
            let big = t.p(14);
            let (f, used, s1, s2) = if big {
                // a long function (sizes around the powers of two) whose terms are listed in ascending id order, some ids
                // twice in a row; only one to three variables are fixed
                ctx.label("big-sorted-function");
                let n = *t.pick(&SIZES[..13]);
                let seed = t.byte() as u64;
                let variant = t.choice(3) as u8;
                let base = *t.pick(&[0u64, 1, 40]);
                let mut terms: Vec<(Vec<u64>, f64)> = vec![];
                let mut id = base;
                for i in 0..n as u64 {
                    terms.push((vec![id], derived_coeff(seed, i)));
                    // repeat this id for the next term in about one case out of six (one function out of three is
                    // strictly ascending, no id twice)
                    if seed % 3 == 0 || (derived_coeff(seed ^ 0x33, i).abs() * 16.0) as u64 % 6 != 0 {
                        id += 1;
                    } else {
                        ctx.label("big-sorted-function-repeats-an-id");
                    }
                }
                terms.push((vec![], derived_coeff(seed, 9_999)));
                if variant == 1 {
                    terms.push((vec![base, base + 1], 1.5));
                }
                let fcfg = FuncCfg { regime, force_variant: variant + 2, unnormalised: true, ..FuncCfg::default() };
                // render keeps the order of the raw list
                let f = render(t, &terms, &fcfg, &mut Ctx::new(ctx.tier, false));
                let used = syntactic_ids(&f);
                let all: Vec<u64> = used.iter().copied().collect();
                let mut s1 = v1::State::default();
                let mut s2 = v1::State::default();
                let nfix = 1 + (mask2 % 3) as usize;
                let mut fixed: BTreeSet<u64> = BTreeSet::new();
                for k in 0..nfix {
                    // prefer ids that occur twice
                    let cand = all[((mask1 as usize).wrapping_mul(k + 1).wrapping_add(k * 7)) % all.len()];
                    let twice = terms.windows(2).find(|w| w[0].0 == w[1].0 && w[0].0.len() == 1 && w[0].0[0] >= cand).map(|w| w[0].0[0]);
                    fixed.insert(if order { twice.unwrap_or(cand) } else { cand });
                }
                for id in &all {
                    let v = derived_value(seed, *id);
                    if fixed.contains(id) {
                        s1.entries.insert(*id, v);
                    } else {
                        s2.entries.insert(*id, v);
                    }
                }
                (f, used, s1, s2)
            } else {
                let ids = gen_ids(t, 5);
                let cfg = FuncCfg { regime, ..FuncCfg::default() };
                let f = gen_function(t, &ids, &cfg, ctx);
                let used = syntactic_ids(&f);
                let mut pool: BTreeSet<u64> = used.clone();
                if t.p(100) {
                    pool.extend(ids.iter().copied());
                    pool.insert(424242);
                }
                let state = gen_state(t, pool.iter().copied(), regime);
                let (s1, s2) = split_state(mask1, &state);
                (f, used, s1, s2)
            };
            if s1.entries.keys().any(|k| !used.contains(k)) {
                ctx.label("fixed-id-not-occurring");
            }
            if unnormalised(ctx) {
                ctx.label("non-normalised");
            }
            let mixed = mixes(&f, &s1);
            if mixed {
                ctx.label("mixed-term");
            }
            if !s1.entries.is_empty() && !s2.entries.is_empty() && mixed {
                ctx.nontrivial();
            }
            ctx.fp_msg(&f);
            ctx.fp_state(&s1);
            ctx.fp_state(&s2);
            ctx.fp(&[level as u8, two_step as u8, order as u8]);
            ctx.sample_with(|| json!({"level": level, "function": fn_json(&f), "fixed": format!("{:?}", sorted_state(&s1)), "remaining": format!("{:?}", sorted_state(&s2)), "two_step": two_step}));

            // one-step
            let (after, got_ids): (v1::Function, BTreeSet<u64>) = match level {
                0 => {
                    ctx.label("level=function");
                    let mut g = f.clone();
                    let r = g.partial_evaluate(&s1).map_err(|e| crate::driver::Failure { signature: "C03/function/err".into(), message: format!("partial_evaluate failed: {e:#} for {f:?}") })?;
                    (g, r)
                }
                1 => {
                    ctx.label("level=constraint");
                    let mut c = gen_constraint(t, 5, &[], &InstCfg::new(regime), ctx);
                    c.function = Some(f.clone());
                    let c0 = c.clone();
                    let r = c.partial_evaluate(&s1).map_err(|e| crate::driver::Failure { signature: "C03/constraint/err".into(), message: format!("partial_evaluate failed: {e:#}") })?;
                    let mut c1 = c.clone();
                    c1.function = c0.function.clone();
                    if c1 != c0 {
                        return fail("C03/constraint/metadata-changed", format!("partial_evaluate changed more than the function: {c0:?} -> {c:?}"));
                    }
                    (c.function.clone().unwrap_or_else(|| crate::mk::fconst(0.0)), r)
                }
                _ => {
                    ctx.label("level=removed-constraint");
                    let mut c = gen_constraint(t, 5, &[], &InstCfg::new(regime), ctx);
                    c.function = Some(f.clone());
                    let mut rc = v1::RemovedConstraint::default();
                    rc.constraint = Some(c);
                    rc.removed_reason = "why".into();
                    let rc0 = rc.clone();
                    let r = rc.partial_evaluate(&s1).map_err(|e| crate::driver::Failure { signature: "C03/removed/err".into(), message: format!("partial_evaluate failed: {e:#}") })?;
                    let mut rc1 = rc.clone();
                    rc1.constraint.as_mut().unwrap().function = rc0.constraint.as_ref().unwrap().function.clone();
                    if rc1 != rc0 {
                        return fail("C03/removed/metadata-changed", format!("partial_evaluate changed more than the function: {rc0:?} -> {rc:?}"));
                    }
                    (rc.constraint.unwrap().function.unwrap_or_else(|| crate::mk::fconst(0.0)), r)
                }
            };
            check_partial("C03/function", &f, &after, &s1, regime)?;
            check_returned_ids("C03/function", &f, &s1, &got_ids)?;
            // value at the remainder
            {
                let mut full = s1.clone();
                full.entries.extend(s2.entries.iter().map(|(k, v)| (*k, *v)));
                if let Ok((exact, margin)) = model::eval_with_margin(&f, &full) {
                    // s2 must cover the remaining ids
                    match after.evaluate(&s2) {
                        Ok((v, _)) => {
                            let raw = raw_terms(&f);
                            let allowance: f64 = raw.iter().map(|(ids, _)| EPS * ids.iter().map(|i| full.entries[i].abs().max(1.0)).product::<f64>()).sum::<f64>();
                            let m = if regime == Regime::Dyadic && margin == 0.0 { 0.0 } else { 2.0 * margin + 2.0 * allowance + EPS };
                            if !value_matches(v, &exact, m) {
                                return fail(
                                    "C03/function/value-after-partial",
                                    format!("f partially evaluated at {:?} then evaluated at {:?} gives {v:e}; f at the combined assignment is {:e} (margin {m:e}); f = {f:?}", sorted_state(&s1), sorted_state(&s2), q_to_f64(&exact)),
                                );
                            }
                        }
                        Err(e) => return fail("C03/function/remainder-eval-err", format!("evaluating the partially evaluated function failed: {e:#}; f = {f:?}, fixed {:?}, rest {:?}", sorted_state(&s1), sorted_state(&s2))),
                    }
                }
            }
            if two_step && level == 0 {
                ctx.label("two-step");
                let (a, b) = split_state(mask2, &s1);
                let (first, second) = if order { (&a, &b) } else { (&b, &a) };
                let mut g = f.clone();
                let r1 = g.partial_evaluate(first);
                let mid = g.clone();
                let r2 = g.partial_evaluate(second);
                let (Ok(r1), Ok(r2)) = (r1, r2) else {
                    return fail("C03/function/two-step-err", format!("two-step partial_evaluate failed for {f:?}"));
                };
                check_partial("C03/function/two-step(first)", &f, &mid, first, regime)?;
                // the second step is checked against its own input (exact oracle on `mid`), and the
                // composition against the one-step oracle with a doubled bound
                check_partial("C03/function/two-step(second)", &mid, &g, second, regime)?;
                if regime == Regime::Dyadic {
                    check_partial("C03/function/two-step(total)", &f, &g, &s1, regime)?;
                }
                check_returned_ids("C03/function/two-step(first)", &f, first, &r1)?;
                check_returned_ids("C03/function/two-step(second)", &mid, second, &r2)?;
            }
            return Ok(());
        }

        // ---------------- instance level ----------------
        ctx.label("level=instance");
        let mut cfg = InstCfg::new(regime);
        cfg.kinds.extend([4, 5]);
        cfg.crowd = true;
        let reenter = t.p(48);
        let fixdep = t.p(40);
        let mut gi = gen_instance(t, &cfg, ctx);
        let include_irrelevant = t.coin();
        let state = gen_inst_state(t, &gi, regime, include_irrelevant);
        let (mut s1, s2) = split_state(mask1, &state);
        // a variable fixed earlier (value recorded) that has re-entered the functions since (as after substituting an
        // expression that mentions it) and is now fixed again at the same value
        if let (true, Some(fx)) = (reenter, gi.fixed.first().copied()) {
            let v = gi.inst.decision_variables.iter().find(|d| d.id == fx).and_then(|d| d.substituted_value).unwrap();
            let c = if regime == Regime::Dyadic { 1.5 } else { 0.3 };
            add_term(&mut gi.inst.objective, fx, c);
            if let Some(k) = gi.inst.constraints.first_mut() {
                add_term(&mut k.function, fx, -c);
            }
            s1.entries.insert(fx, v);
            ctx.label("fixed-variable-mentioned-again-and-fixed-again");
        }
        if fixdep && regime == Regime::Dyadic && !gi.dependent.is_empty() {
            // The fixed set also names a DEPENDENT variable, at the value its definition gives it (as when a whole
            // earlier solution is fixed). A value contradicting the definition is not a "combined assignment" of the
            // problem and is left out (a check over contradicting values was tried and fired on the unchanged tree
            // for x1 := 1, x2 := x1 with x1 fixed at 0; see DESIGN round 8). The statement's own relation is checked
            // directly: evaluate(partial_evaluate(I, s1), s2) == evaluate(I, s1 u s2), error for error.
            let d = gi.dependent[t.choice(gi.dependent.len())];
            let dv = gi.inst.decision_variables.iter().find(|v| v.id == d).unwrap().clone();
            let mut base = s2.clone();
            for (k, v) in &s1.entries {
                base.entries.insert(*k, *v);
            }
            let val = match model::evaluate(&gi.inst, &base) {
                Ok(m0) => match m0.state.get(&d) {
                    Some((qv, _)) => {
                        let f = q_to_f64(qv);
                        let (lo, hi) = effective_bound(&dv).unwrap_or((f64::NEG_INFINITY, f64::INFINITY));
                        if &q(f) == qv && f >= lo && f <= hi {
                            Some(f)
                        } else {
                            None
                        }
                    }
                    None => None,
                },
                Err(_) => None,
            };
            let Some(val) = val else {
                ctx.label("fixed-dependent/skipped");
                return Ok(());
            };
            s1.entries.insert(d, val);
            ctx.label("fixed-set-names-a-dependent-variable");
            ctx.nontrivial();
            let inst = &gi.inst;
            fp_instance(ctx, inst);
            ctx.fp_state(&s1);
            ctx.fp_state(&s2);
            ctx.fp(&[0xDE]);
            ctx.sample_with(|| json!({"level": "instance, fixed set names a dependent variable", "instance": describe_inst(inst), "fixed": format!("{:?}", sorted_state(&s1)), "remaining": format!("{:?}", sorted_state(&s2))}));
            let mut full = s2.clone();
            for (k, v) in &s1.entries {
                full.entries.insert(*k, *v);
            }
            let mut pe = inst.clone();
            let r_pe = pe.partial_evaluate(&s1).and_then(|_| pe.evaluate(&s2));
            let r0 = inst.evaluate(&full);
            let ctxmsg = |m: String| format!("{m}\n instance {}\n fixed {:?} remaining {:?}", describe_inst(inst), sorted_state(&s1), sorted_state(&s2));
            return match (r0, r_pe) {
                (Err(_), Err(_)) => {
                    ctx.label("fixed-dependent/both-rejected");
                    Ok(())
                }
                (Ok(_), Err(e)) => fail("C03/instance/fixed-dependent/remainder-rejected", ctxmsg(format!("evaluating the original at the combined assignment succeeds, evaluating the partially evaluated instance fails: {e:#}"))),
                (Err(e), Ok(_)) => fail("C03/instance/fixed-dependent/original-rejected", ctxmsg(format!("evaluating the partially evaluated instance succeeds, the original at the combined assignment fails: {e:#}"))),
                (Ok((a, _)), Ok((b, _))) => {
                    let close = |x: f64, y: f64| (x - y).abs() <= 1e-9 * (1.0 + x.abs().max(y.abs()));
                    if !close(a.objective, b.objective) {
                        return fail("C03/instance/fixed-dependent/objective", ctxmsg(format!("objective {} (original at the combined assignment) vs {} (remainder)", a.objective, b.objective)));
                    }
                    if a.feasible != b.feasible || a.feasible_relaxed != b.feasible_relaxed {
                        return fail("C03/instance/fixed-dependent/flags", ctxmsg(format!("feasibility flags ({}, {:?}) vs ({}, {:?})", a.feasible, a.feasible_relaxed, b.feasible, b.feasible_relaxed)));
                    }
                    let ca: BTreeMap<u64, f64> = a.evaluated_constraints.iter().map(|c| (c.id, c.evaluated_value)).collect();
                    let cb: BTreeMap<u64, f64> = b.evaluated_constraints.iter().map(|c| (c.id, c.evaluated_value)).collect();
                    if ca.len() != cb.len() || ca.iter().any(|(k, v)| cb.get(k).map(|w| !close(*v, *w)).unwrap_or(true)) {
                        return fail("C03/instance/fixed-dependent/constraint-values", ctxmsg(format!("constraint values {ca:?} vs {cb:?}")));
                    }
                    let sa: BTreeMap<u64, f64> = a.state.as_ref().map(|s| s.entries.iter().map(|(k, v)| (*k, *v)).collect()).unwrap_or_default();
                    let sb: BTreeMap<u64, f64> = b.state.as_ref().map(|s| s.entries.iter().map(|(k, v)| (*k, *v)).collect()).unwrap_or_default();
                    if sa.len() != sb.len() || sa.iter().any(|(k, v)| sb.get(k).map(|w| !close(*v, *w)).unwrap_or(true)) {
                        return fail("C03/instance/fixed-dependent/state", ctxmsg(format!("reported variable values {sa:?} (original at the combined assignment) vs {sb:?} (remainder)")));
                    }
                    Ok(())
                }
            };
        }
        if t.p(40) {
            // an id that is not a variable of the instance at all
            s1.entries.insert(987654321, 1.0);
            ctx.label("fixed-id-not-occurring");
        }
        if unnormalised(ctx) {
            ctx.label("non-normalised");
        }
        let inst = &gi.inst;
        let mut all_funcs: Vec<&v1::Function> = vec![];
        if let Some(f) = &inst.objective {
            all_funcs.push(f);
        }
        for c in &inst.constraints {
            if let Some(f) = &c.function {
                all_funcs.push(f);
            }
        }
        for c in &inst.removed_constraints {
            if let Some(f) = c.constraint.as_ref().and_then(|c| c.function.as_ref()) {
                all_funcs.push(f);
            }
        }
        let mixed = all_funcs.iter().any(|f| mixes(f, &s1));
        if mixed {
            ctx.label("mixed-term");
        }
        if !s1.entries.is_empty() && !s2.entries.is_empty() && mixed {
            ctx.nontrivial();
        }
        fp_instance(ctx, inst);
        ctx.fp_state(&s1);
        ctx.fp_state(&s2);
        ctx.fp(&[two_step as u8, order as u8]);
        ctx.sample_with(|| json!({"level": "instance", "instance": describe_inst(inst), "fixed": format!("{:?}", sorted_state(&s1)), "remaining": format!("{:?}", sorted_state(&s2)), "two_step": two_step}));

        let mut pe = inst.clone();
        let steps: Vec<v1::State> = if two_step {
            ctx.label("two-step");
            let (a, b) = split_state(mask2, &s1);
            if order {
                vec![a, b]
            } else {
                vec![b, a]
            }
        } else {
            vec![s1.clone()]
        };
        for st in &steps {
            if let Err(e) = pe.partial_evaluate(st) {
                return fail("C03/instance/err", format!("Instance::partial_evaluate failed: {e:#}\n instance {}", describe_inst(inst)));
            }
        }
        let ctxmsg = |m: String| format!("{m}\n instance {}\n fixed {:?} remaining {:?}", describe_inst(inst), sorted_state(&s1), sorted_state(&s2));
        // Fixed values recorded on the fixed variables; what a variable IS (id, kind, effective bound) unchanged. The
        // statement promises nothing about the other fields of a variable: an implementation may write an implied bound
        // out explicitly, or record the value of a dependent variable that has become a number; what is reported for
        // every variable is decided by the evaluation at the end.
        {
            let ids_a: Vec<u64> = inst.decision_variables.iter().map(|v| v.id).collect();
            let mut ids_b: Vec<u64> = pe.decision_variables.iter().map(|v| v.id).collect();
            let mut sorted_a = ids_a.clone();
            sorted_a.sort_unstable();
            ids_b.sort_unstable();
            if sorted_a != ids_b {
                return fail("C03/instance/variables-changed", ctxmsg("the set of decision variables changed".into()));
            }
        }
        for a in inst.decision_variables.iter() {
            let b = pe.decision_variables.iter().find(|v| v.id == a.id).unwrap();
            if let Some(v) = s1.entries.get(&a.id) {
                if b.substituted_value != Some(*v) {
                    return fail("C03/instance/substituted-value", ctxmsg(format!("decision variable {} was fixed at {v} but carries the recorded value {:?}", a.id, b.substituted_value)));
                }
            } else if a.substituted_value.is_some() && b.substituted_value != a.substituted_value {
                return fail("C03/instance/substituted-value", ctxmsg(format!("decision variable {} lost or changed its earlier recorded value {:?} -> {:?}", a.id, a.substituted_value, b.substituted_value)));
            }
            let eb = |v: &v1::DecisionVariable| effective_bound(v).ok().map(|(l, h)| (l.to_bits(), h.to_bits()));
            let fixed_now = s1.entries.contains_key(&a.id);
            if a.kind != b.kind || (!fixed_now && eb(a) != eb(b)) {
                return fail("C03/instance/variable-domain-changed", ctxmsg(format!("decision variable {} changed its kind or effective bound: {a:?} -> {b:?}", a.id)));
            }
            let mut b2 = b.clone();
            b2.substituted_value = a.substituted_value;
            b2.bound = a.bound.clone();
            if &b2 != a && !s1.entries.contains_key(&a.id) {
                ctx.label("variable-message-differs-beyond-the-promised-fields");
            }
        }
        // functions rewritten
        let one = steps.len() == 1;
        let chk = |sig: &str, before: &Option<v1::Function>, after: &Option<v1::Function>| -> PResult {
            let b = before.clone().unwrap_or_else(|| crate::mk::fconst(0.0));
            let a = after.clone().unwrap_or_else(|| crate::mk::fconst(0.0));
            if one || regime == Regime::Dyadic {
                check_partial(sig, &b, &a, &s1, regime).map_err(|mut f| {
                    f.message = ctxmsg(f.message);
                    f
                })
            } else {
                // two-step in the general regime: only the "no fixed id left" part is asserted here
                let left = syntactic_ids(&a);
                if let Some(id) = left.iter().find(|i| s1.entries.contains_key(i)) {
                    return fail(format!("{sig}/fixed-id-still-mentioned"), ctxmsg(format!("fixed id {id} still mentioned in {a:?}")));
                }
                Ok(())
            }
        };
        chk("C03/instance/objective", &inst.objective, &pe.objective)?;
        if pe.constraints.len() != inst.constraints.len() || pe.removed_constraints.len() != inst.removed_constraints.len() {
            return fail("C03/instance/constraint-count", ctxmsg("number of constraints changed".into()));
        }
        for (a, b) in inst.constraints.iter().zip(pe.constraints.iter()) {
            chk("C03/instance/constraint", &a.function, &b.function)?;
            let mut b2 = b.clone();
            b2.function = a.function.clone();
            if &b2 != a {
                return fail("C03/instance/constraint-metadata", ctxmsg(format!("constraint {} changed beyond its function", a.id)));
            }
        }
        for (a, b) in inst.removed_constraints.iter().zip(pe.removed_constraints.iter()) {
            let (ca, cb) = (a.constraint.as_ref().unwrap(), b.constraint.as_ref());
            let Some(cb) = cb else {
                return fail("C03/instance/removed-lost", ctxmsg("removed constraint lost its constraint".into()));
            };
            chk("C03/instance/removed-constraint", &ca.function, &cb.function)?;
            let mut b2 = b.clone();
            b2.constraint.as_mut().unwrap().function = ca.function.clone();
            if &b2 != a {
                return fail("C03/instance/removed-metadata", ctxmsg(format!("removed constraint {} changed beyond its function", ca.id)));
            }
        }
        let dk: BTreeSet<u64> = inst.decision_variable_dependency.keys().copied().collect();
        let dk2: BTreeSet<u64> = pe.decision_variable_dependency.keys().copied().collect();
        // a definition may disappear when it has become a number that is recorded on the variable instead (the
        // evaluation at the end decides whether the variable is still reported correctly); none may appear
        if !dk2.is_subset(&dk) {
            return fail("C03/instance/dependency-keys", ctxmsg(format!("dependency keys changed {dk:?} -> {dk2:?}")));
        }
        for k in &dk2 {
            chk("C03/instance/dependency", &Some(inst.decision_variable_dependency[k].clone()), &Some(pe.decision_variable_dependency[k].clone()))?;
        }
        if pe.sense != inst.sense || pe.description != inst.description || pe.constraint_hints != inst.constraint_hints || pe.parameters != inst.parameters {
            return fail("C03/instance/other-fields", ctxmsg("sense/description/hints/parameters changed".into()));
        }
        // evaluate the remainder and compare with the reference at the combined assignment
        let mut full = s2.clone();
        for (k, v) in &s1.entries {
            // only variables of the instance (foreign ids are not part of the problem)
            full.entries.insert(*k, *v);
        }
        let exact_ok = regime == Regime::Dyadic;
        let eo = if exact_ok { EvalOpts::default() } else { EvalOpts { drop_allowance: true, scale: 3.0, mag: None, mag1: None } };
        let m = model::evaluate_opts(inst, &full, &eo);
        let r = pe.evaluate(&s2);
        match (m, r) {
            (Err(MReject::Borderline(w)), _) => {
                ctx.exclude(format!("borderline: {w}"));
                Ok(())
            }
            (Err(rej), Ok(_)) => fail(format!("C03/instance/accepted-but-must-reject/{}", crate::props::c05::rej_class(&rej)), ctxmsg(format!("evaluate after partial evaluation accepted, reference rejects ({rej:?})"))),
            (Err(_), Err(_)) => {
                ctx.label("rejected");
                Ok(())
            }
            (Ok(_), Err(e)) => fail("C03/instance/remainder-rejected", ctxmsg(format!("evaluate of the partially evaluated instance failed: {e:#}"))),
            (Ok(mut m), Ok((sol, _))) => {
                // the foreign fixed id is not reported by the partially evaluated instance
                if s1.entries.contains_key(&987654321) {
                    m.state.remove(&987654321);
                }
                let o = CmpOpts {
                    decision_variables: Some(pe.decision_variables.clone()),
                    check_used_ids: false,
                    ..CmpOpts::default()
                };
                let m2 = m;
                compare_solution("C03/instance/solution", &sol, &m2, &o).map_err(|mut f| {
                    f.message = ctxmsg(f.message);
                    f
                })?;
                // "evaluating the remainder" through the other evaluation entry point: a sample set with the one sample s2
                let mut smp = v1::Samples::default();
                smp.entries.push(crate::mk::samples_entry(s2.clone(), vec![7]));
                match pe.evaluate_samples(&smp) {
                    Err(e) => fail("C03/instance/remainder-rejected-as-sample", ctxmsg(format!("evaluate_samples of the partially evaluated instance failed although evaluate succeeded: {e:#}"))),
                    Ok((ss, _)) => match ss.get(7) {
                        Err(e) => fail("C03/instance/remainder-sample-missing", ctxmsg(format!("SampleSet::get(7): {e:#}"))),
                        Ok(one) => {
                            ctx.label("remainder-also-evaluated-as-sample-set");
                            compare_solution("C03/instance/solution-as-sample", &one, &m2, &CmpOpts { decision_variables: None, check_used_ids: false, ..CmpOpts::default() }).map_err(|mut f| {
                                f.message = ctxmsg(f.message);
                                f
                            })
                        }
                    },
                }
            }
        }
    }
}
