//! C04 Substitution is function composition and dependent variables are recovered.

use crate::driver::{fail, Ctx, Failure, PResult, Property, Tier};
use crate::exact::*;
use crate::gen::func::*;
use crate::gen::inst::*;
use crate::model::{self, *};
use crate::props::c05::{describe_inst, fp_instance, sorted_state};
use crate::tape::Tape;
use num::{Signed, Zero};
use ommx::v1;
use ommx::Evaluate;
use serde_json::json;
use std::collections::{BTreeMap, BTreeSet, HashMap};

pub struct C04;

const EPS: f64 = f64::EPSILON;

/// tame dyadic coefficient k/4, |k| <= 16, never zero
fn tame(t: &mut Tape) -> f64 {
    let k = t.int_around(4, -16, 16);
    if k == 0 {
        0.25
    } else {
        k as f64 / 4.0
    }
}

/// replacement function: <= 3 terms, degree <= 2, oneof always set
fn gen_replacement(t: &mut Tape, ids: &[u64], regime: Regime, ctx: &mut Ctx) -> v1::Function {
    let n = 1 + t.choice(3);
    let mut terms: Vec<(Vec<u64>, f64)> = vec![];
    for _ in 0..n {
        let d = if ids.is_empty() { 0 } else { t.choice(3) };
        let m: Vec<u64> = (0..d).map(|_| *t.pick(ids)).collect();
        let c = match regime {
            Regime::Dyadic => tame(t),
            Regime::General => {
                let c = gen_coeff(t, regime, false);
                if c.abs() > 1e4 {
                    c.signum() * 1e4
                } else {
                    c
                }
            }
        };
        terms.push((m, c));
    }
    let cfg = FuncCfg { regime, allow_unset: false, allow_dup_quad_pos: false, ..FuncCfg::default() };
    render(t, &terms, &cfg, ctx)
}

fn abs_compose(f: &v1::Function, repl: &BTreeMap<u64, v1::Function>, floor1: bool) -> (AbsPoly, usize) {
    let mut out = AbsPoly::new();
    let mut expansions = 0usize;
    for (ids, c) in raw_terms(f) {
        let mut cur = AbsPoly::new();
        cur.insert(vec![], if floor1 { c.abs().max(1.0) } else { c.abs() });
        for id in &ids {
            let factor = match repl.get(id) {
                Some(r) => abs_of(r, floor1),
                None => abs_var(*id),
            };
            cur = abs_mul(&cur, &factor);
        }
        expansions += cur.len().max(1);
        for (k, v) in cur {
            *out.entry(k).or_default() += v;
        }
    }
    (out, expansions)
}

fn check_composition(sig: &str, f: &v1::Function, repl: &BTreeMap<u64, v1::Function>, got: &v1::Function, regime: Regime) -> PResult {
    let pm: BTreeMap<u64, Poly> = repl.iter().map(|(k, v)| (*k, Poly::from_function(v))).collect();
    let exact = Poly::from_function(f).substitute(&pm);
    let gp = Poly::from_function(got);
    if regime == Regime::Dyadic {
        if gp != exact {
            return fail(
                format!("{sig}/composition-not-exact"),
                format!("substitute of {f:?}\n with {repl:?}\n gives   {}\n exact   {}", gp.describe(), exact.describe()),
            );
        }
        return Ok(());
    }
    let (mag, n) = abs_compose(f, repl, false);
    let (mag1, _) = abs_compose(f, repl, true);
    let keys: BTreeSet<&Mono> = gp.terms.keys().chain(exact.terms.keys()).collect();
    for k in keys {
        let g = gp.terms.get(k).cloned().unwrap_or_else(Q::zero);
        let e = exact.terms.get(k).cloned().unwrap_or_else(Q::zero);
        let tol = gamma(16 * (n + 16)) * mag.get(k).copied().unwrap_or(0.0) + EPS * 8.0 * (n as f64 + 1.0) * mag1.get(k).copied().unwrap_or(1.0).max(1.0);
        if (g.clone() - e.clone()).abs() > q(tol) {
            return fail(
                format!("{sig}/composition-coefficient-outside-bound"),
                format!("substitute of {f:?} with {repl:?}: coefficient of {k:?} is {:e}, exact {:e}, tolerance {tol:e}", q_to_f64(&g), q_to_f64(&e)),
            );
        }
    }
    Ok(())
}

fn perm_index(order: &[u64]) -> usize {
    // rank of the permutation given by the order of the keys (keys sorted = identity)
    let mut sorted = order.to_vec();
    sorted.sort_unstable();
    let mut idx: Vec<usize> = order.iter().map(|k| sorted.iter().position(|x| x == k).unwrap()).collect();
    let n = idx.len();
    let mut rank = 0usize;
    for i in 0..n {
        let smaller = idx[i + 1..].iter().filter(|&&x| x < idx[i]).count();
        rank = rank * (n - i) + smaller;
        let _ = &mut idx;
    }
    rank
}

fn factorial(n: usize) -> usize {
    (1..=n).product::<usize>().max(1)
}

impl Property for C04 {
    fn id(&self) -> &'static str {
        "C04"
    }
    fn rule(&self) -> &'static str {
        "case = (a) function x simultaneous replacement map (1..4 entries, degree<=2, may mention replaced variables; also pure renaming maps whose targets are keys) | (b) instance x replacement map over remaining variables, optionally two successive substitute calls (chains) or log_encode->substitute, x in-bound state, then evaluate (a replaced variable may carry a value recorded earlier), optionally evaluated again after a history of other transformations (relax + restore, as_minimization_problem, penalty method + with_parameters) which must not change the reported values of replaced variables | (c) raw dependency graph on <=5 dependent variables (DAG, chain, diamond, cycle, self-loop, dangling) evaluated under every iteration order of the dependency HashMap (map rebuilt until all n! orders were observed), failing graphs also through evaluate_samples; \
         oracle = exact simultaneous composition; reference evaluator with topological dependency evaluation; non-trivial = >=2 replacements with one of degree>=1, or chain length>=2, or cyclic/dangling graph; distinct = sha256(case)"
    }
    fn required_labels(&self) -> Vec<String> {
        ["mode=function", "mode=instance", "mode=graph", "mode=log-encode", "simultaneous-overlap", "chain", "cycle", "dangling", "self-loop", "removed-constraint", "all-orders-seen", "two-substitute-calls", "n=5", "regime=general", "regime=dyadic", "renaming-map", "renaming-target-is-a-key", "replaced-variable-had-a-recorded-value", "history-after-substitute", "history=penalty-method", "empty-replacement-map"]
            .iter()
            .map(|s| s.to_string())
            .collect()
    }
    fn cases(&self, tier: Tier) -> usize {
        match tier {
            Tier::Quick => 30_000,
            Tier::Thorough => 1_000_000,
        }
    }
    fn tape_max(&self) -> usize {
        640
    }
    fn assumptions(&self) -> Vec<String> {
        vec![
            "replacement functions have their oneof set".into(),
            "instance-level replacements mention only remaining variables; states are in-bound over the remaining variables".into(),
            "the iteration order of the dependency map is driven from outside by rebuilding the HashMap (fresh RandomState) until every permutation has been observed; the verdict does not depend on which order came when".into(),
        ]
    }

    fn run(&self, t: &mut Tape, ctx: &mut Ctx) -> PResult {
        let regime = if t.p(80) { Regime::General } else { Regime::Dyadic };
        ctx.label(if regime == Regime::General { "regime=general" } else { "regime=dyadic" });
        let mode = t.weighted(&[5, 6, 5, 1]);
        match mode {
            0 => self.function_level(t, ctx, regime),
            1 => self.instance_level(t, ctx, regime, false),
            2 => self.graph_level(t, ctx, regime),
            _ => self.instance_level(t, ctx, regime, true),
        }
    }
}

impl C04 {
    fn function_level(&self, t: &mut Tape, ctx: &mut Ctx, regime: Regime) -> PResult {
        ctx.label("mode=function");
        let ids = gen_ids(t, 5);
        // 1..4 replaced variables; now and then none at all (the empty map is a set of variables too)
        let nrep = if t.p(8) {
            ctx.label("empty-replacement-map");
            0
        } else {
            1 + t.choice(4.min(ids.len()))
        };
        let cfg = match regime {
            Regime::Dyadic => FuncCfg { regime, allow_unset: true, max_terms: 6, max_degree: 3, ..FuncCfg::default() },
            Regime::General => FuncCfg { regime, allow_unset: true, max_terms: 6, max_degree: 3, ..FuncCfg::default() },
        };
        let f = gen_function(t, &ids, &cfg, ctx);
        let mut keys = ids.clone();
        t.shuffle(&mut keys);
        keys.truncate(nrep);
        let mut repl: BTreeMap<u64, v1::Function> = BTreeMap::new();
        let mut overlap = false;
        let mut deg1 = false;
        // a pure renaming: every replacement is a bare variable; targets may be keys themselves (swap, cyclic shift,
        // renumbering 1 -> 2, 2 -> 3, ...)
        let renaming = t.p(40);
        if renaming {
            ctx.label("renaming-map");
        }
        for (ki, k) in keys.iter().enumerate() {
            let r = if renaming {
                let target = match t.choice(3) {
                    0 => keys[(ki + 1) % keys.len()],
                    1 => *t.pick(&keys),
                    _ => *t.pick(&ids),
                };
                if keys.contains(&target) && target != *k {
                    ctx.label("renaming-target-is-a-key");
                }
                crate::mk::flin(crate::mk::linear(vec![(target, 1.0)], 0.0))
            } else {
                gen_replacement(t, &ids, regime, ctx)
            };
            let rids = syntactic_ids(&r);
            if rids.iter().any(|i| keys.contains(i)) {
                overlap = true;
            }
            if !rids.is_empty() {
                deg1 = true;
            }
            repl.insert(*k, r);
        }
        if overlap {
            ctx.label("simultaneous-overlap");
        }
        if repl.len() >= 2 && deg1 {
            ctx.nontrivial();
        }
        ctx.fp_msg(&f);
        for (k, r) in &repl {
            ctx.fp(&k.to_le_bytes());
            ctx.fp_msg(r);
        }
        ctx.sample_with(|| json!({"mode": "Function::substitute", "function": fn_json(&f), "replacements": format!("{:?}", repl)}));
        let hm: HashMap<u64, v1::Function> = repl.iter().map(|(k, v)| (*k, v.clone())).collect();
        let got = match f.substitute(&hm) {
            Ok(g) => g,
            Err(e) => return fail("C04/function/err", format!("substitute failed: {e:#} for {f:?} with {repl:?}")),
        };
        check_composition("C04/function", &f, &repl, &got, regime)?;
        // value agreement at a state (dyadic: coefficients are exact, so the value check is rigorous)
        if regime == Regime::Dyadic {
            let all: BTreeSet<u64> = ids.iter().copied().collect();
            let state = gen_state(t, all.iter().copied(), regime);
            let qs = qstate(&state);
            let mut ext = qs.clone();
            for (k, r) in &repl {
                ext.insert(*k, Poly::from_function(r).eval(&qs).unwrap());
            }
            let want = Poly::from_function(&f).eval(&ext).unwrap();
            match got.evaluate(&state) {
                Ok((v, _)) => {
                    let (_, margin) = model::eval_with_margin(&got, &state).unwrap();
                    if !value_matches(v, &want, margin) {
                        return fail("C04/function/value", format!("substituted function evaluates to {v:e} at {:?}, composition value is {:e}; f={f:?} repl={repl:?}", sorted_state(&state), q_to_f64(&want)));
                    }
                }
                Err(e) => return fail("C04/function/value-err", format!("evaluating the substituted function failed: {e:#}; f={f:?} repl={repl:?} state={:?}", sorted_state(&state))),
            }
        }
        Ok(())
    }

    fn instance_level(&self, t: &mut Tape, ctx: &mut Ctx, regime: Regime, log_encode: bool) -> PResult {
        let mut cfg = InstCfg::new(regime);
        cfg.func.max_degree = 3;
        cfg.func.max_terms = 5;
        let two_calls = t.p(90);
        let kmask = t.u16();
        // other API calls between substitute and evaluate (0 = none): the replaced variables must still be reported
        let history = if t.p(70) { 1 + t.choice(7) } else { 0 };
        let gi = gen_instance(t, &cfg, ctx);
        let mut inst = gi.inst.clone();
        let mut oracle_inst = gi.inst.clone();
        // keys to replace
        let pool = gi.used_pool.clone();
        let mut repl1: BTreeMap<u64, v1::Function> = BTreeMap::new();
        let mut repl2: BTreeMap<u64, v1::Function> = BTreeMap::new();
        let mut new_binaries: Vec<u64> = vec![];
        if log_encode {
            ctx.label("mode=log-encode");
            // make one used variable an integer with a small finite range, encode and substitute it
            let target = pool[0];
            for v in inst.decision_variables.iter_mut().chain(oracle_inst.decision_variables.iter_mut()) {
                if v.id == target {
                    v.kind = KIND_INTEGER;
                    let lo = (kmask % 7) as f64 - 3.0;
                    let w = 1.0 + ((kmask >> 4) % 9) as f64;
                    v.bound = Some(crate::mk::bound(lo, lo + w));
                }
            }
            // ids must not overflow: log_encode takes max id + 1
            if inst.decision_variables.iter().any(|v| v.id > u64::MAX - 16) {
                ctx.label("skipped-id-overflow");
                return Ok(());
            }
            let before_ids: BTreeSet<u64> = inst.decision_variables.iter().map(|v| v.id).collect();
            let lin = match inst.log_encode(target) {
                Ok(l) => l,
                Err(e) => return fail("C04/log-encode/err", format!("log_encode failed on an integer variable with a finite bound: {e:#}")),
            };
            for v in &inst.decision_variables {
                if !before_ids.contains(&v.id) {
                    new_binaries.push(v.id);
                }
            }
            oracle_inst.decision_variables = inst.decision_variables.clone();
            repl1.insert(target, crate::mk::flin(lin));
        } else {
            ctx.label("mode=instance");
            let mut keys: Vec<u64> = vec![];
            for (i, id) in pool.iter().enumerate() {
                if (kmask >> (i % 16)) & 1 == 1 && keys.len() < 4 {
                    keys.push(*id);
                }
            }
            if keys.is_empty() {
                keys.push(pool[0]);
            }
            let remaining: Vec<u64> = pool.iter().copied().filter(|i| !keys.contains(i)).collect();
            if two_calls && keys.len() >= 2 {
                ctx.label("two-substitute-calls");
                let (k1, k2) = keys.split_at(keys.len() / 2);
                // first call may mention the variables replaced later (chain)
                let mut avail1 = remaining.clone();
                avail1.extend_from_slice(k2);
                for k in k1 {
                    let r = gen_replacement(t, &avail1, regime, ctx);
                    if syntactic_ids(&r).iter().any(|i| k2.contains(i)) {
                        ctx.label("chain");
                        ctx.nontrivial();
                    }
                    repl1.insert(*k, r);
                }
                for k in k2 {
                    repl2.insert(*k, gen_replacement(t, &remaining, regime, ctx));
                }
            } else {
                for k in &keys {
                    repl1.insert(*k, gen_replacement(t, &remaining, regime, ctx));
                }
            }
            if repl1.len() + repl2.len() >= 2 && repl1.values().chain(repl2.values()).any(|r| !syntactic_ids(r).is_empty()) {
                ctx.nontrivial();
            }
        }
        // an existing dependency that mentions a replaced variable is a chain as well
        for f in gi.inst.decision_variable_dependency.values() {
            if syntactic_ids(f).iter().any(|i| repl1.contains_key(i) || repl2.contains_key(i)) {
                ctx.label("chain");
                ctx.nontrivial();
            }
        }
        // state over the remaining variables (+ new binaries)
        let replaced: BTreeSet<u64> = repl1.keys().chain(repl2.keys()).copied().collect();
        let include_irrelevant = t.coin();
        let mut state = gen_inst_state(t, &gi, regime, include_irrelevant);
        for k in &replaced {
            state.entries.remove(k);
        }
        for b in &new_binaries {
            state.entries.insert(*b, if t.coin() { 1.0 } else { 0.0 });
        }
        fp_instance(ctx, &inst);
        ctx.fp_state(&state);
        for (k, r) in repl1.iter().chain(repl2.iter()) {
            ctx.fp(&k.to_le_bytes());
            ctx.fp_msg(r);
        }
        ctx.sample_with(|| json!({"mode": if log_encode {"log_encode->substitute->evaluate"} else {"Instance::substitute->evaluate"}, "instance": describe_inst(&gi.inst), "first": format!("{:?}", repl1), "second": format!("{:?}", repl2), "state": format!("{:?}", sorted_state(&state))}));

        // one of the variables about to be replaced may carry a value recorded by an earlier partial evaluation: once it
        // is replaced, its reported value is that of its replacement
        if t.p(48) {
            if let Some(k) = replaced.iter().next().copied() {
                if let Some(dv) = inst.decision_variables.iter_mut().find(|v| v.id == k) {
                    if dv.substituted_value.is_none() {
                        let stale = in_bound_value(t, dv, regime);
                        dv.substituted_value = Some(stale);
                        ctx.label("replaced-variable-had-a-recorded-value");
                    }
                }
            }
        }
        // SDK
        let hm1: HashMap<u64, v1::Function> = repl1.iter().map(|(k, v)| (*k, v.clone())).collect();
        if let Err(e) = inst.substitute(hm1) {
            return fail("C04/instance/substitute-err", format!("Instance::substitute failed: {e:#}"));
        }
        if !repl2.is_empty() {
            let hm2: HashMap<u64, v1::Function> = repl2.iter().map(|(k, v)| (*k, v.clone())).collect();
            if let Err(e) = inst.substitute(hm2) {
                return fail("C04/instance/substitute-err", format!("second Instance::substitute failed: {e:#}"));
            }
        }
        // no replaced variable may be mentioned any more (objective, constraints, removed, dependencies)
        let mut funcs: Vec<(&str, &v1::Function)> = vec![];
        if let Some(f) = &inst.objective {
            funcs.push(("objective", f));
        }
        for c in &inst.constraints {
            if let Some(f) = &c.function {
                funcs.push(("constraint", f));
            }
        }
        for c in &inst.removed_constraints {
            if let Some(f) = c.constraint.as_ref().and_then(|c| c.function.as_ref()) {
                funcs.push(("removed-constraint", f));
            }
        }
        for f in inst.decision_variable_dependency.values() {
            funcs.push(("dependency", f));
        }
        for (what, f) in &funcs {
            if let Some(id) = syntactic_ids(f).iter().find(|i| replaced.contains(i)) {
                return fail(format!("C04/instance/replaced-id-still-mentioned/{what}"), format!("after substitute, {what} still mentions replaced id {id}: {f:?}\n instance {}", describe_inst(&gi.inst)));
            }
        }
        // oracle: original instance at the state extended by the replacement values
        let qs = qstate(&state);
        let mut ext = qs.clone();
        let mut mags: BTreeMap<u64, f64> = BTreeMap::new();
        let absval = |f: &v1::Function, ext: &QState, mags: &BTreeMap<u64, f64>| -> f64 {
            let mut s = 0.0;
            for (ids, c) in raw_terms(f) {
                let mut m = c.abs();
                for id in &ids {
                    let base = ext.get(id).map(|v| q_to_f64(v).abs()).unwrap_or(0.0);
                    m *= mags.get(id).copied().unwrap_or(base).max(base);
                }
                s += m;
            }
            s
        };
        let mut mags1: BTreeMap<u64, f64> = BTreeMap::new();
        let absval1 = |f: &v1::Function, ext: &QState, mags1: &BTreeMap<u64, f64>| -> f64 {
            let mut s = 0.0;
            for (ids, c) in raw_terms(f) {
                let mut m = c.abs().max(1.0);
                for id in &ids {
                    let base = ext.get(id).map(|v| q_to_f64(v).abs()).unwrap_or(0.0).max(1.0);
                    m *= mags1.get(id).copied().unwrap_or(base).max(base);
                }
                s += m;
            }
            s.max(1.0)
        };
        let mut missing = false;
        for (k, r) in repl2.iter().chain(repl1.iter()) {
            match Poly::from_function(r).eval(&ext) {
                Some(v) => {
                    let a = absval(r, &ext, &mags);
                    let a1 = absval1(r, &ext, &mags1);
                    mags.insert(*k, a);
                    mags1.insert(*k, a1);
                    ext.insert(*k, v);
                }
                None => missing = true,
            }
        }
        if missing {
            // replacement mentions a variable without value (cannot happen by construction)
            ctx.label("replacement-missing-var");
            return Ok(());
        }
        // relax the bounds of replaced variables in the oracle copy (their values are determined)
        for v in oracle_inst.decision_variables.iter_mut() {
            if replaced.contains(&v.id) {
                v.bound = Some(crate::mk::bound(f64::NEG_INFINITY, f64::INFINITY));
            }
        }
        let mut ext_state = v1::State::default();
        for (k, v) in &ext {
            ext_state.entries.insert(*k, q_to_f64(v));
        }
        // the extended state carries rounded values of the replaced variables; use exact arithmetic by
        // evaluating the oracle on a *composed exact* basis: margins account for the rounding of ext values
        for (k, m) in mags.iter_mut() {
            let v = ext_state.entries[k].abs();
            *m = m.max(v);
        }
        let eo = EvalOpts { drop_allowance: true, scale: 64.0, mag: Some(mags.clone()), mag1: Some(mags1.clone()) };
        let m = model::evaluate_opts(&oracle_inst, &ext_state, &eo);
        let r = inst.evaluate(&state);
        let ctxmsg = |msg: String| format!("{msg}\n original instance {}\n first {:?}\n second {:?}\n state {:?}", describe_inst(&gi.inst), repl1, repl2, sorted_state(&state));
        match (m, r) {
            (Err(MReject::Borderline(w)), _) => {
                ctx.exclude(format!("borderline: {w}"));
                Ok(())
            }
            (Err(rej), Ok(_)) => fail(format!("C04/instance/accepted-but-must-reject/{}", crate::props::c05::rej_class(&rej)), ctxmsg(format!("evaluate after substitute accepted, reference rejects ({rej:?})"))),
            (Err(_), Err(_)) => {
                ctx.label("rejected");
                Ok(())
            }
            (Ok(_), Err(e)) => fail("C04/instance/evaluate-err", ctxmsg(format!("evaluate after substitute failed: {e:#}"))),
            (Ok(mut m), Ok((sol, _))) => {
                // replaced variables: rounding of their own value (they are reported from the SDK's f64 evaluation)
                for k in &replaced {
                    let mg = gamma(64) * mags[k] + EPS * 64.0 * mags1[k];
                    let exact = ext[k].clone();
                    m.state.insert(*k, (exact, mg));
                }
                // every value that was computed from rounded replaced values inherits a first-order slack
                let slack: f64 = replaced.iter().map(|k| gamma(64) * mags[k]).sum::<f64>();
                let o = CmpOpts {
                    decision_variables: Some(inst.decision_variables.clone()),
                    check_used_ids: false,
                    margin_scale: 1.0 + slack.min(1.0),
                    margin_abs: 0.0,
                };
                compare_solution("C04/instance/solution", &sol, &m, &o).map_err(|mut f| {
                    f.message = ctxmsg(f.message);
                    f
                })?;
                if history == 0 {
                    return Ok(());
                }
                // A history of other transformations after substitute (bit 0: relax + restore of an active constraint,
                // bit 1: conversion to a minimisation problem, bit 2: penalty method + instantiation of the weights).
                // None of them touches what a replaced variable stands for: the reported values must stay the same.
                let mut h = inst.clone();
                let mut applied = false;
                if history & 1 != 0 {
                    if let Some(cid) = h.constraints.first().map(|c| c.id) {
                        if h.relax_constraint(cid, "history".into(), std::collections::HashMap::new()).is_ok() && h.restore_constraint(cid).is_ok() {
                            applied = true;
                        }
                    }
                }
                if history & 2 != 0 {
                    h.as_minimization_problem();
                    applied = true;
                }
                if history & 4 != 0 && !h.decision_variables.iter().any(|v| v.id > u64::MAX - 64) {
                    let uniform = kmask & 0x100 != 0;
                    let pi = if uniform { h.clone().uniform_penalty_method() } else { h.clone().penalty_method() };
                    if let Ok(pi) = pi {
                        let mut w = v1::Parameters::default();
                        for (i, p) in pi.parameters.iter().enumerate() {
                            w.entries.insert(p.id, [0.0, 1.0, 2.5][i % 3]);
                        }
                        if let Ok(back) = pi.with_parameters(w) {
                            h = back;
                            applied = true;
                            ctx.label("history=penalty-method");
                        }
                    }
                }
                if !applied {
                    return Ok(());
                }
                ctx.label("history-after-substitute");
                let (sol2, _) = match h.evaluate(&state) {
                    Ok(x) => x,
                    Err(e) => return fail("C04/instance/history/evaluate-err", ctxmsg(format!("evaluate failed after substitute followed by other transformations (history mask {history}): {e:#}"))),
                };
                let (s_a, s_b) = (sol.state.clone().unwrap_or_default(), sol2.state.clone().unwrap_or_default());
                for k in &replaced {
                    let (a, b) = (s_a.entries.get(k).copied(), s_b.entries.get(k).copied());
                    let same = match (a, b) {
                        (Some(x), Some(y)) => (x - y).abs() <= 1e-9 * (1.0 + x.abs().max(y.abs())),
                        _ => false,
                    };
                    if !same {
                        return fail("C04/instance/history/replaced-variable-value", ctxmsg(format!("replaced variable {k} is reported as {a:?} right after substitute but as {b:?} after the further transformations (history mask {history}: 1 relax+restore, 2 as_minimization_problem, 4 penalty method + with_parameters)")));
                    }
                }
                Ok(())
            }
        }
    }

    fn graph_level(&self, t: &mut Tape, ctx: &mut Ctx, regime: Regime) -> PResult {
        ctx.label("mode=graph");
        let n = 1 + t.weighted(&[1, 2, 3, 3, 3]); // 1..5 dependent variables
        ctx.label(format!("n={n}"));
        let shape = t.weighted(&[4, 2, 2, 3, 2, 2]);
        let base: Vec<u64> = vec![100, 101];
        let dep_ids: Vec<u64> = {
            let mut v: Vec<u64> = (0..n as u64).map(|i| i * 3 + 1).collect();
            t.shuffle(&mut v);
            v
        };
        let mut inst = v1::Instance::default();
        inst.sense = SENSE_MIN;
        for id in base.iter().chain(dep_ids.iter()) {
            let mut v = v1::DecisionVariable::default();
            v.id = *id;
            v.kind = KIND_CONTINUOUS;
            inst.decision_variables.push(v);
        }
        // an extra defined variable that never gets a value unless referenced (dangling target)
        let dangling_id = 777u64;
        let coef = |t: &mut Tape| match regime {
            Regime::Dyadic => tame(t),
            Regime::General => {
                let c = gen_coeff(t, regime, false);
                if c.abs() > 100.0 || c.abs() < 1e-3 {
                    1.5
                } else {
                    c
                }
            }
        };
        // edges: refs[i] = list of referenced ids
        let mut refs: Vec<Vec<u64>> = vec![vec![]; n];
        match shape {
            0 => {
                // random DAG on the shuffled order
                for i in 0..n {
                    for j in 0..i {
                        if t.p(110) {
                            refs[i].push(dep_ids[j]);
                        }
                    }
                    if t.coin() || refs[i].is_empty() {
                        refs[i].push(*t.pick(&base));
                    }
                }
            }
            1 => {
                // chain
                for i in 0..n {
                    refs[i].push(if i == 0 { base[0] } else { dep_ids[i - 1] });
                }
                if n >= 2 {
                    ctx.label("chain");
                }
            }
            2 => {
                // diamond-ish: first from base, middle from first, last from all middle
                for i in 0..n {
                    if i == 0 {
                        refs[i].push(base[0]);
                    } else if i == n - 1 && n >= 3 {
                        for j in 1..n - 1 {
                            refs[i].push(dep_ids[j]);
                        }
                    } else {
                        refs[i].push(dep_ids[0]);
                    }
                }
                if n >= 2 {
                    ctx.label("chain");
                }
            }
            3 => {
                // cycle through k >= 2 variables (or self loop when n == 1), others hanging off
                let k = if n == 1 { 1 } else { 2 + t.choice(n - 1) };
                for i in 0..k {
                    refs[i].push(dep_ids[(i + 1) % k]);
                }
                for i in k..n {
                    refs[i].push(if t.coin() { dep_ids[0] } else { base[0] });
                }
                ctx.label(if k == 1 { "self-loop" } else { "cycle" });
            }
            4 => {
                // self loop on one variable, rest a chain
                let s = t.choice(n);
                for i in 0..n {
                    if i == s {
                        refs[i].push(dep_ids[i]);
                        refs[i].push(base[0]);
                    } else {
                        refs[i].push(if i == 0 || i - 1 == s { base[1] } else { dep_ids[i - 1] });
                    }
                }
                ctx.label("self-loop");
            }
            _ => {
                // dangling: one variable refers to an id without value
                let s = t.choice(n);
                for i in 0..n {
                    if i == s {
                        refs[i].push(if t.coin() { dangling_id } else { 555_555 });
                    } else {
                        refs[i].push(if i == 0 || t.coin() { base[0] } else { dep_ids[i - 1] });
                    }
                }
                ctx.label("dangling");
                if t.coin() {
                    let mut v = v1::DecisionVariable::default();
                    v.id = dangling_id;
                    v.kind = KIND_CONTINUOUS;
                    inst.decision_variables.push(v);
                }
            }
        }
        let mut deps: BTreeMap<u64, v1::Function> = BTreeMap::new();
        for i in 0..n {
            let mut terms: Vec<(Vec<u64>, f64)> = vec![];
            for r in &refs[i] {
                if t.p(60) && refs[i].len() >= 2 {
                    // product with another referenced id
                    let o = *t.pick(&refs[i]);
                    terms.push((vec![*r, o], coef(t)));
                } else {
                    terms.push((vec![*r], coef(t)));
                }
            }
            if t.coin() {
                terms.push((vec![], coef(t)));
            }
            let cfg = FuncCfg { regime, allow_unset: false, allow_dup_quad_pos: false, ..FuncCfg::default() };
            deps.insert(dep_ids[i], render(t, &terms, &cfg, ctx));
        }
        let mut state = v1::State::default();
        for b in &base {
            state.entries.insert(*b, match regime {
                Regime::Dyadic => t.int_around(1, -8, 8) as f64 / 2.0,
                Regime::General => {
                    let v = gen_value(t, regime);
                    if v.abs() > 100.0 {
                        2.5
                    } else {
                        v
                    }
                }
            });
        }
        inst.decision_variable_dependency = deps.iter().map(|(k, v)| (*k, v.clone())).collect();
        for (k, f) in &deps {
            ctx.fp(&k.to_le_bytes());
            ctx.fp_msg(f);
        }
        ctx.fp_state(&state);
        ctx.fp(&[shape as u8, inst.decision_variables.len() as u8]);
        ctx.sample_with(|| json!({"mode": "dependency graph", "dependencies": format!("{:?}", deps), "state": format!("{:?}", sorted_state(&state))}));
        let eo = EvalOpts { drop_allowance: false, scale: 4.0, mag: None, mag1: None };
        let m = model::evaluate_opts(&inst, &state, &eo);
        let bad = matches!(m, Err(MReject::Dependency));
        if bad || shape == 1 || shape == 2 {
            ctx.nontrivial();
        }
        if let Err(ref e) = m {
            if !bad {
                return Err(Failure { signature: "C04/graph/oracle-unexpected".into(), message: format!("oracle rejected for another reason: {e:?}") });
            }
        }
        // drive every iteration order (on a helper thread: "no hang" is part of the statement)
        let total = factorial(n);
        let cap = 40_000usize;
        let (inst_t, state_t, m_t, deps_t) = (inst.clone(), state.clone(), m.clone(), deps.clone());
        let outcome = crate::driver::run_with_timeout(30, move || -> (PResult, usize) {
            let mut inst = inst_t;
            let state = state_t;
            let m = m_t;
            let deps = deps_t;
            let mut seen: BTreeSet<usize> = BTreeSet::new();
            let mut rebuilds = 0usize;
            while seen.len() < total && rebuilds < cap {
                rebuilds += 1;
                let old = std::mem::take(&mut inst.decision_variable_dependency);
                inst.decision_variable_dependency = old.into_iter().collect();
                let order: Vec<u64> = inst.decision_variable_dependency.keys().copied().collect();
                let rank = perm_index(&order);
                if !seen.insert(rank) {
                    continue;
                }
                // the sample-set entry point recovers dependent variables the same way: same verdict
                if m.is_err() && seen.len() <= 2 {
                    let mut ss = v1::Samples::default();
                    ss.entries.push(crate::mk::samples_entry(state.clone(), vec![0, 7]));
                    // ... also when an earlier sample of the same call does have a value (0.0) for every id
                    let mut first = state.clone();
                    for f in deps.values() {
                        for id in syntactic_ids(f) {
                            if !deps.contains_key(&id) {
                                first.entries.entry(id).or_insert(0.0);
                            }
                        }
                    }
                    let mut ss2 = v1::Samples::default();
                    ss2.entries.push(crate::mk::samples_entry(first, vec![1]));
                    ss2.entries.push(crate::mk::samples_entry(state.clone(), vec![2]));
                    if inst.evaluate_samples(&ss).is_ok() || inst.evaluate_samples(&ss2).is_ok() {
                        return (
                            fail(
                                "C04/graph/cyclic-or-dangling-accepted-by-evaluate-samples",
                                format!("evaluate_samples returned a sample set although dependencies are cyclic or refer to ids without value (iteration order {order:?}): deps {deps:?}, state {:?}", sorted_state(&state)),
                            ),
                            seen.len(),
                        );
                    }
                }
                let r = inst.evaluate(&state);
                match (&m, r) {
                    (Err(_), Ok((sol, _))) => {
                        return (
                            fail(
                                "C04/graph/cyclic-or-dangling-accepted",
                                format!("evaluate returned a solution although dependencies are cyclic or refer to ids without value (iteration order {order:?}): deps {deps:?}, state {:?}, reported state {:?}", sorted_state(&state), sol.state.map(|s| sorted_state(&s))),
                            ),
                            seen.len(),
                        );
                    }
                    (Err(_), Err(_)) => {}
                    (Ok(_), Err(e)) => {
                        return (fail("C04/graph/acyclic-rejected", format!("evaluate failed ({e:#}) for an acyclic, closed dependency graph under iteration order {order:?}: deps {deps:?}, state {:?}", sorted_state(&state))), seen.len());
                    }
                    (Ok(ms), Ok((sol, _))) => {
                        let o = CmpOpts { check_used_ids: false, ..CmpOpts::default() };
                        if let Err(mut f) = compare_solution("C04/graph/solution", &sol, ms, &o) {
                            f.message = format!("{} (iteration order {order:?})\n deps {deps:?}\n state {:?}", f.message, sorted_state(&state));
                            return (Err(f), seen.len());
                        }
                    }
                }
            }
            (Ok(()), seen.len())
        });
        let seen_len = match outcome {
            None => {
                return fail(
                    "C04/graph/hang",
                    format!("evaluate did not return within 30 s (normal cost: microseconds) for dependencies {deps:?} at state {:?}; cyclic or dangling dependencies must fail cleanly", sorted_state(&state)),
                );
            }
            Some((r, k)) => {
                r?;
                k
            }
        };
        if seen_len == total {
            ctx.label("all-orders-seen");
        } else {
            ctx.label("orders-incomplete");
        }
        Ok(())
    }
}
