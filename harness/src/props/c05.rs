//! C05 A Solution faithfully reports the evaluated problem.

use crate::driver::{fail, Ctx, PResult, Property, Tier};
use crate::exact::*;
use crate::gen::func::*;
use crate::gen::inst::*;
use crate::model::{self, *};
use crate::tape::Tape;
use ommx::v1;
use ommx::Evaluate;
use serde_json::json;

pub struct C05;

/// Shift the constant term of `c`'s function so that its exact value at `state` becomes
/// (the f64 nearest to) `target`. Returns false if the function mentions an id the state lacks.
pub fn place_constraint_value(c: &mut v1::Constraint, state: &v1::State, target: f64) -> bool {
    use v1::function::Function as F;
    let f = c.function.clone().unwrap_or_else(|| crate::mk::fconst(0.0));
    let qs = qstate(state);
    let Some(cur) = Poly::from_function(&f).eval(&qs) else {
        return false;
    };
    let delta = q_to_f64(&(q(target) - cur));
    if !delta.is_finite() {
        return false;
    }
    let mut f = f;
    match &mut f.function {
        None => f = crate::mk::fconst(delta),
        Some(F::Constant(k)) => *k += delta,
        Some(F::Linear(l)) => l.constant += delta,
        Some(F::Quadratic(x)) => match &mut x.linear {
            Some(l) => l.constant += delta,
            None => x.linear = Some(crate::mk::linear(vec![], delta)),
        },
        Some(F::Polynomial(p)) => p.terms.push(crate::mk::monomial(vec![], delta)),
        #[allow(unreachable_patterns)]
        _ => return false,
    }
    c.function = Some(f);
    true
}

/// Adds `n` continuous variables (ids 5000..) with bound [-16, 16], values for them, and a linear function over all of
/// them (coefficients derived from `seed`) as the objective, a new active constraint or a new removed constraint.
pub fn add_big_linear(inst: &mut v1::Instance, state: &mut v1::State, n: usize, seed: u64) {
    let base = 5000u64;
    let mut terms = vec![];
    for i in 0..n as u64 {
        let mut v = v1::DecisionVariable::default();
        v.id = base + i;
        v.kind = KIND_CONTINUOUS;
        v.bound = Some(crate::mk::bound(-16.0, 16.0));
        inst.decision_variables.push(v);
        state.entries.insert(base + i, derived_value(seed, i));
        terms.push((base + i, derived_coeff(seed, i)));
    }
    let f = crate::mk::flin(crate::mk::linear(terms, derived_coeff(seed, 100_000)));
    match seed % 3 {
        0 => inst.objective = Some(f),
        k => {
            let mut c = v1::Constraint::default();
            c.id = 777_777;
            c.equality = if seed % 2 == 0 { EQ_ZERO } else { LE_ZERO };
            c.function = Some(f);
            if k == 1 {
                inst.constraints.push(c);
            } else {
                let mut rc = v1::RemovedConstraint::default();
                rc.constraint = Some(c);
                rc.removed_reason = "big".into();
                inst.removed_constraints.push(rc);
            }
        }
    }
}

pub fn describe_inst(inst: &v1::Instance) -> String {
    let mut deps: Vec<_> = inst.decision_variable_dependency.iter().collect();
    deps.sort_by_key(|x| *x.0);
    format!(
        "sense={} vars={:?} objective={:?} constraints={:?} removed={:?} deps={:?}",
        inst.sense,
        inst.decision_variables.iter().map(|v| (v.id, v.kind, v.bound.as_ref().map(|b| (b.lower, b.upper)), v.substituted_value)).collect::<Vec<_>>(),
        inst.objective,
        inst.constraints.iter().map(|c| (c.id, c.equality, &c.function)).collect::<Vec<_>>(),
        inst.removed_constraints.iter().map(|c| c.constraint.as_ref().map(|c| (c.id, c.equality, &c.function))).collect::<Vec<_>>(),
        deps
    )
}

pub fn sorted_state(s: &v1::State) -> Vec<(u64, f64)> {
    let mut v: Vec<_> = s.entries.iter().map(|(k, v)| (*k, *v)).collect();
    v.sort_by_key(|x| x.0);
    v
}

/// fingerprint an instance deterministically (HashMap fields sorted)
pub fn fp_instance(ctx: &mut Ctx, inst: &v1::Instance) {
    let mut i2 = inst.clone();
    let mut deps: Vec<_> = i2.decision_variable_dependency.drain().collect();
    deps.sort_by_key(|x| x.0);
    for (k, f) in deps {
        ctx.fp(&k.to_le_bytes());
        ctx.fp_msg(&f);
    }
    // remaining maps are string maps inside metadata; strip them (they do not change the maths)
    for v in &mut i2.decision_variables {
        v.parameters.clear();
    }
    for c in &mut i2.constraints {
        c.parameters.clear();
    }
    for c in &mut i2.removed_constraints {
        c.removed_reason_parameters.clear();
        if let Some(c) = &mut c.constraint {
            c.parameters.clear();
        }
    }
    i2.parameters = None;
    ctx.fp_msg(&i2);
}

impl Property for C05 {
    fn id(&self) -> &'static str {
        "C05"
    }
    fn rule(&self) -> &'static str {
        "case = valid instance (all kinds, optional bounds, removed constraints, irrelevant/fixed/dependent variables, metadata) x state class (complete | omits irrelevant | lacks a used variable | out of bound by 2e-7 or 0.5e-7 | bound of magnitude 1e9..4e15 with the value 0, 5, 6, 7 or 40 representable steps outside | constraint values placed at 0, +-0.5e-6, +-2e-6); \
         oracle = reference evaluator of the statement over exact rationals; non-trivial = (>=1 active and >=1 removed constraint) or rejection case or state omitting an irrelevant variable; distinct = sha256(instance, state)"
    }
    fn required_labels(&self) -> Vec<String> {
        ["flag-relaxed!=flag-all", "tolerance-inside", "tolerance-outside", "bound-reject", "bound-tolerated", "missing-used", "irrelevant-filled", "dependency", "fixed-variable", "removed-constraint", "feasible=true", "feasible=false", "state-has-foreign-id", "state-repeats-fixed-variable", "dependency-on-fixed", "big-bound-on", "big-bound-steps-outside", "big-linear-function", "missing-variable-used-only-by-a-dependency", "bound-case-on-fixed-variable", "sweep=long-dependency-chain"]
            .iter()
            .map(|s| s.to_string())
            .collect()
    }
    fn cases(&self, tier: Tier) -> usize {
        match tier {
            Tier::Quick => 300_000,
            Tier::Thorough => 8_000_000,
        }
    }
    fn sweep_len(&self, _tier: Tier) -> usize {
        2
    }
    fn sweep_description(&self) -> Option<String> {
        Some("dependent variables defined through a chain of 1100 (ids decreasing along the chain) / 300 (increasing) definitions, each referring to the next, as that many successive substitutions leave them".into())
    }
    fn sweep_case(&self, _tier: Tier, i: usize, ctx: &mut Ctx) -> PResult {
        // r_t := u_t + r_{t+1} (t = 0 .. n-1), r_n := u_n: a backward recursion over many periods. The reported state
        // must contain every r_t = u_t + ... + u_n, whatever the ids and however long the chain.
        let decreasing = i == 0;
        let n: u64 = if decreasing { 1100 } else { 300 };
        ctx.label("sweep=long-dependency-chain");
        ctx.nontrivial();
        ctx.fp_dbg(&("long-chain", n, decreasing));
        ctx.sample_with(|| json!({"sweep": "long dependency chain", "length": n, "ids": if decreasing { "smaller id defined through larger" } else { "larger id defined through smaller" }}));
        let rid = |t: u64| if decreasing { 100_000 + t } else { 100_000 + (n - t) };
        let mut inst = v1::Instance::default();
        inst.sense = SENSE_MIN;
        let mut state = v1::State::default();
        for t in 0..=n {
            let mut u = v1::DecisionVariable::default();
            u.id = t;
            u.kind = KIND_CONTINUOUS;
            inst.decision_variables.push(u);
            state.entries.insert(t, ((t % 7) as f64) - 3.0);
            let mut r = v1::DecisionVariable::default();
            r.id = rid(t);
            r.kind = KIND_CONTINUOUS;
            inst.decision_variables.push(r);
            let def = if t == n { crate::mk::linear(vec![(t, 1.0)], 0.0) } else { crate::mk::linear(vec![(t, 1.0), (rid(t + 1), 1.0)], 0.0) };
            inst.decision_variable_dependency.insert(rid(t), crate::mk::flin(def));
        }
        inst.objective = Some(crate::mk::flin(crate::mk::linear(vec![(0, 1.0)], 0.0)));
        let (sol, _) = match inst.evaluate(&state) {
            Ok(x) => x,
            Err(e) => return fail("C05/long-chain/rejected-valid-state", format!("a chain of {n} dependent definitions (acyclic, every input has a value) was rejected: {e:#}")),
        };
        let st = sol.state.unwrap_or_default();
        let mut acc = 0.0f64;
        for t in (0..=n).rev() {
            acc += ((t % 7) as f64) - 3.0;
            if st.entries.get(&rid(t)) != Some(&acc) {
                return fail("C05/long-chain/state-value", format!("dependent variable r_{t} (id {}) is reported as {:?}, its definition gives {acc}", rid(t), st.entries.get(&rid(t))));
            }
        }
        Ok(())
    }
    fn tape_max(&self) -> usize {
        640
    }
    fn assumptions(&self) -> Vec<String> {
        vec![
            "states do not assign dependent variables (the property speaks of states over the problem's own variables)".into(),
            "flags are not asserted when an exact constraint value lies within the rounding margin of the 1e-6 threshold (counted as excluded: borderline)".into(),
        ]
    }

    fn run(&self, t: &mut Tape, ctx: &mut Ctx) -> PResult {
        let regime = if t.p(96) { Regime::General } else { Regime::Dyadic };
        let mut cfg = InstCfg::new(regime);
        cfg.kinds.extend([4, 5]); // semi-integer, semi-continuous: "all variable kinds"
        cfg.tolerance_candidates = true;
        cfg.fixed_out_of_bound = true;
        cfg.func.allow_unset = true; // a present function message whose oneof is unset evaluates to zero (C01)
        // drawn before the instance so that short tapes still vary the class
        let class = t.weighted(&[5, 4, 3, 3, 6]);
        let inc = t.coin();
        let imask = t.u16();
        let big = if t.p(8) { Some((*t.pick(&SIZES), t.byte() as u64)) } else { None };
        let mut gi = gen_instance(t, &cfg, ctx);
        let include_irrelevant = class != 1 && inc;
        let mut state = if include_irrelevant { gen_inst_state(t, &gi, regime, true) } else { gen_inst_state_partial(t, &gi, regime, imask) };
        // a value for an id that is no variable of the problem at all, and a stale value for a fixed variable
        if imask & 0x100 != 0 && class != 2 {
            state.entries.insert(999_999_999, 1.25);
            ctx.label("state-has-foreign-id");
        }
        if imask & 0x200 != 0 {
            if let Some(fx) = gi.fixed.first() {
                let v = gi.inst.decision_variables.iter().find(|v| v.id == *fx).unwrap();
                // stale but in-bound: the value nearest to zero
                let (lo, hi) = effective_bound(v).unwrap();
                state.entries.insert(*fx, crate::model::nearest_to_zero(lo, hi));
                ctx.label("state-repeats-fixed-variable");
            }
        }
        if let Some((n, seed)) = big {
            // a linear function over many more variables than usual (a knapsack row): sizes around the powers of two
            add_big_linear(&mut gi.inst, &mut state, n, seed);
            ctx.label("big-linear-function");
        }
        if gi.irrelevant.iter().any(|i| !state.entries.contains_key(i)) {
            ctx.label("irrelevant-filled");
            ctx.nontrivial();
        }
        match class {
            2 => {
                // lacks a variable the problem uses (objective / active / removed)
                let mut used = std::collections::BTreeSet::new();
                if let Some(f) = &gi.inst.objective {
                    used.extend(syntactic_ids(f));
                }
                for c in &gi.inst.constraints {
                    if let Some(f) = &c.function {
                        used.extend(syntactic_ids(f));
                    }
                }
                for c in &gi.inst.removed_constraints {
                    if let Some(f) = c.constraint.as_ref().and_then(|c| c.function.as_ref()) {
                        used.extend(syntactic_ids(f));
                    }
                }
                // ... or that only a dependency function refers to (its own keys excepted)
                if imask & 0x400 != 0 {
                    let mut dep_only = std::collections::BTreeSet::new();
                    for f in gi.inst.decision_variable_dependency.values() {
                        for id in syntactic_ids(f) {
                            if !gi.inst.decision_variable_dependency.contains_key(&id) && !gi.fixed.contains(&id) && !used.contains(&id) {
                                dep_only.insert(id);
                            }
                        }
                    }
                    if !dep_only.is_empty() {
                        used = dep_only;
                        ctx.label("missing-variable-used-only-by-a-dependency");
                    }
                }
                let used: Vec<u64> = used.into_iter().collect();
                if !used.is_empty() {
                    let victim = *t.pick(&used);
                    state.entries.remove(&victim);
                    ctx.label("missing-used");
                    ctx.nontrivial();
                }
            }
            3 => {
                // out of bound by a placed distance on some variable with a finite end
                let cands: Vec<&v1::DecisionVariable> = gi
                    .inst
                    .decision_variables
                    .iter()
                    .filter(|v| {
                        let (lo, hi) = effective_bound(v).unwrap();
                        // (a variable fixed earlier is a variable too: a given value outside its bound is outside its bound)
                        (lo.is_finite() || hi.is_finite()) && !gi.dependent.contains(&v.id) && (!gi.fixed.contains(&v.id) || imask & 0x800 != 0)
                    })
                    .collect();
                let big = t.p(72);
                if big && !cands.is_empty() {
                    // a bound of large magnitude (where 1e-7 is below the spacing of the doubles) and a value a few
                    // representable steps outside: far beyond any rounding of `bound +- 1e-7`, hence rejected;
                    // zero steps outside: accepted
                    let vid = t.pick(&cands).id;
                    let m = *t.pick(&[1.0e9f64, 2.0e9, 1.0e12, 4.0e15]);
                    let j = *t.pick(&[0u64, 5, 6, 7, 40]);
                    let upper = t.coin();
                    let v = gi.inst.decision_variables.iter_mut().find(|v| v.id == vid).unwrap();
                    if v.kind == KIND_CONTINUOUS || v.kind == KIND_INTEGER {
                        let (lo, hi) = effective_bound(v).unwrap();
                        let x = f64::from_bits(m.to_bits() + j);
                        if upper {
                            v.bound = Some(crate::mk::bound(lo.min(0.0), m));
                            state.entries.insert(vid, x);
                        } else {
                            v.bound = Some(crate::mk::bound(-m, hi.max(0.0)));
                            state.entries.insert(vid, -x);
                        }
                        ctx.label(if j == 0 { "big-bound-on" } else { "big-bound-steps-outside" });
                        ctx.nontrivial();
                    }
                } else if !cands.is_empty() {
                    let v = *t.pick(&cands);
                    let (lo, hi) = effective_bound(v).unwrap();
                    let far = t.coin();
                    let dist = if far { 2e-7 } else { 0.5e-7 };
                    let x = if lo.is_finite() && (!hi.is_finite() || t.coin()) { lo - dist } else { hi + dist };
                    state.entries.insert(v.id, x);
                    if gi.fixed.contains(&v.id) {
                        ctx.label("bound-case-on-fixed-variable");
                    }
                    ctx.label(if far { "bound-reject" } else { "bound-tolerated" });
                    if gi.irrelevant.contains(&v.id) {
                        ctx.label("bound-case-on-irrelevant");
                    }
                    ctx.nontrivial();
                }
            }
            4 => {
                // place constraint values around the feasibility tolerance
                let targets = [0.0, 0.5e-6, -0.5e-6, 2e-6, -2e-6, -1.0, 0.999e-6, 1.001e-6];
                let na = gi.inst.constraints.len();
                for i in 0..(na + gi.inst.removed_constraints.len()) {
                    if t.p(160) {
                        let target = *t.pick(&targets);
                        let c = if i < na { &mut gi.inst.constraints[i] } else { gi.inst.removed_constraints[i - na].constraint.as_mut().unwrap() };
                        if place_constraint_value(c, &state, target) {
                            if target.abs() < 1e-6 && target != 0.0 {
                                ctx.label("tolerance-inside");
                            }
                            if target.abs() > 1e-6 && target.abs() < 1e-5 {
                                ctx.label("tolerance-outside");
                            }
                        }
                    }
                }
            }
            _ => {}
        }
        if !gi.inst.constraints.is_empty() && !gi.inst.removed_constraints.is_empty() {
            ctx.nontrivial();
        }
        fp_instance(ctx, &gi.inst);
        ctx.fp_state(&state);
        ctx.sample_with(|| json!({"instance": describe_inst(&gi.inst), "state": format!("{:?}", sorted_state(&state)), "class": class}));

        let m = model::evaluate(&gi.inst, &state);
        let r = gi.inst.evaluate(&state);
        match (m, r) {
            (Err(MReject::Borderline(w)), _) => {
                ctx.exclude(format!("borderline: {w}"));
                Ok(())
            }
            (Err(rej), Ok(_)) => fail(
                format!("C05/accepted-but-must-reject/{}", rej_class(&rej)),
                format!("evaluate accepted a state the statement rejects ({rej:?}): instance {} state {:?}", describe_inst(&gi.inst), sorted_state(&state)),
            ),
            (Err(rej), Err(_)) => {
                ctx.label(format!("rejected={}", rej_class(&rej)));
                Ok(())
            }
            (Ok(_), Err(e)) => fail(
                "C05/rejected-valid-state",
                format!("evaluate failed ({e:#}) although the reference accepts: instance {} state {:?}", describe_inst(&gi.inst), sorted_state(&state)),
            ),
            (Ok(m), Ok((sol, _used))) => {
                if let (Some(a), Some(b)) = (m.feasible_relaxed, m.feasible) {
                    if a != b {
                        ctx.label("flag-relaxed!=flag-all");
                    }
                    ctx.label(if b { "feasible=true" } else { "feasible=false" });
                }
                if m.feasible.is_none() || m.feasible_relaxed.is_none() {
                    ctx.exclude("borderline: feasibility flag");
                }
                let o = CmpOpts {
                    decision_variables: Some(gi.inst.decision_variables.clone()),
                    ..CmpOpts::default()
                };
                compare_solution("C05", &sol, &m, &o).map_err(|mut f| {
                    f.message = format!("{}\n instance {}\n state {:?}", f.message, describe_inst(&gi.inst), sorted_state(&state));
                    f
                })
            }
        }
    }
}

pub fn rej_class(r: &MReject) -> &'static str {
    match r {
        MReject::OutOfBound(_) => "out-of-bound",
        MReject::MissingVar(_) => "missing-variable",
        MReject::Dependency => "dependency",
        MReject::InvalidBound(_) => "invalid-bound",
        MReject::UnsupportedEquality(_) => "unsupported-equality",
        MReject::Borderline(_) => "borderline",
    }
}
