//! C06 Sample-set evaluation agrees with evaluating each sample alone.

use crate::driver::{fail, Ctx, PResult, Property, Tier};
use crate::gen::func::*;
use crate::gen::inst::*;
use crate::props::c05::{add_big_linear, describe_inst, fp_instance, place_constraint_value, sorted_state};
use crate::tape::Tape;
use ommx::v1;
use ommx::Evaluate;
use serde_json::json;
use std::collections::{BTreeMap, BTreeSet};

pub struct C06;

fn sampled_table(sv: &v1::SampledValues) -> Result<BTreeMap<u64, f64>, String> {
    let mut m = BTreeMap::new();
    for e in &sv.entries {
        for id in &e.ids {
            if m.insert(*id, e.value).is_some() {
                return Err(format!("sample id {id} occurs twice in {sv:?}"));
            }
        }
    }
    Ok(m)
}

/// Build a Samples message from (id, state) pairs with a tape-chosen grouping.
fn group(t: &mut Tape, pairs: &[(u64, v1::State)], ctx: &mut Ctx, use_add_sample: bool) -> v1::Samples {
    let mut s = v1::Samples::default();
    if use_add_sample {
        for (id, st) in pairs {
            s.add_sample(*id, st.clone());
        }
        return s;
    }
    for (id, st) in pairs {
        let mut joined = false;
        if t.p(150) {
            for e in s.entries.iter_mut() {
                if e.state.as_ref() == Some(st) {
                    e.ids.push(*id);
                    joined = true;
                    ctx.label("multi-id-entry");
                    break;
                }
            }
        }
        if !joined {
            if s.entries.iter().any(|e| e.state.as_ref() == Some(st)) {
                ctx.label("dup-state-separate-entries");
            }
            s.entries.push(crate::mk::samples_entry(st.clone(), vec![*id]));
        }
    }
    if t.coin() {
        let n = s.entries.len();
        if n >= 2 {
            let i = t.choice(n);
            s.entries.swap(0, i);
        }
    }
    s
}

pub fn compare_solutions(sig: &str, a: &v1::Solution, b: &v1::Solution) -> PResult {
    // a: from the sample set, b: single evaluation
    if a.objective.to_bits() != b.objective.to_bits() && !(a.objective == b.objective) {
        return fail(format!("{sig}/objective"), format!("objective {} vs single evaluation {}", a.objective, b.objective));
    }
    if a.feasible != b.feasible {
        return fail(format!("{sig}/feasible"), format!("feasible {} vs single evaluation {}", a.feasible, b.feasible));
    }
    if a.feasible_relaxed != b.feasible_relaxed {
        return fail(format!("{sig}/feasible-relaxed"), format!("feasible_relaxed {:?} vs single evaluation {:?}", a.feasible_relaxed, b.feasible_relaxed));
    }
    let ids_a: Vec<u64> = a.evaluated_constraints.iter().map(|c| c.id).collect();
    let ids_b: Vec<u64> = b.evaluated_constraints.iter().map(|c| c.id).collect();
    let sa: BTreeSet<u64> = ids_a.iter().copied().collect();
    let sb: BTreeSet<u64> = ids_b.iter().copied().collect();
    if sa != sb || ids_a.len() != ids_b.len() {
        return fail(format!("{sig}/constraint-set"), format!("constraints {ids_a:?} vs single evaluation {ids_b:?}"));
    }
    for cb in &b.evaluated_constraints {
        let ca = a.evaluated_constraints.iter().find(|c| c.id == cb.id).unwrap();
        let mut ca2 = ca.clone();
        let mut cb2 = cb.clone();
        // used ids: compare as sets
        let ua: BTreeSet<u64> = ca2.used_decision_variable_ids.drain(..).collect();
        let ub: BTreeSet<u64> = cb2.used_decision_variable_ids.drain(..).collect();
        if ca2 != cb2 {
            return fail(format!("{sig}/constraint"), format!("constraint {}: {ca:?} vs single evaluation {cb:?}", cb.id));
        }
        // derived information the statement does not list
        let _ = (ua, ub);
    }
    let (Some(sa), Some(sb)) = (&a.state, &b.state) else {
        return fail(format!("{sig}/state-missing"), "solution without state".to_string());
    };
    let ma: BTreeMap<u64, u64> = sa.entries.iter().map(|(k, v)| (*k, if *v == 0.0 { 0 } else { v.to_bits() })).collect();
    let mb: BTreeMap<u64, u64> = sb.entries.iter().map(|(k, v)| (*k, if *v == 0.0 { 0 } else { v.to_bits() })).collect();
    if ma != mb {
        return fail(format!("{sig}/state"), format!("state {:?} vs single evaluation {:?}", sorted_state(sa), sorted_state(sb)));
    }
    // the copies of the variable list: the same variables (id, kind, effective bound, recorded value)
    let key = |v: &v1::DecisionVariable| (v.id, v.kind, crate::model::effective_bound(v).ok().map(|(l, h)| (l.to_bits(), h.to_bits())), v.substituted_value.map(|x| x.to_bits()));
    let mut ka: Vec<_> = a.decision_variables.iter().map(key).collect();
    let mut kb: Vec<_> = b.decision_variables.iter().map(key).collect();
    ka.sort();
    kb.sort();
    if ka != kb {
        return fail(format!("{sig}/decision-variables"), format!("decision variables differ: {ka:?} vs {kb:?}"));
    }
    Ok(())
}

impl Property for C06 {
    fn id(&self) -> &'static str {
        "C06"
    }
    fn rule(&self) -> &'static str {
        "case = valid instance x 1..8 (sample id, in-bound state) pairs (arbitrary u64 ids, equal states shared or in separate entries or via add_sample, states built to collide in objective/constraint values, states omitting irrelevant variables, states still carrying a stale value for a fixed variable, states carrying values for ids that are no variables at all, variables fixed earlier at a value outside their bound) x grouping; \
         oracle = Instance::evaluate of each state alone (tied to the reference model by C05) + key-set and re-grouping invariance; non-trivial = >=2 ids and (shared entry or duplicate state across entries or equal values from different states); distinct = sha256(instance, pairs, grouping)"
    }
    fn required_labels(&self) -> Vec<String> {
        ["multi-id-entry", "on-threshold-table-entry-compared-with-single-evaluation", "dup-state-separate-entries", "value-collision", "omits-irrelevant", "omits-different-subsets", "add_sample", "n>=4", "dependency", "removed-constraint", "fixed-variable", "state-has-stale-value-of-fixed-variable", "unset-oneof", "big-linear-function", "state-has-foreign-id", "fixed-value-outside-its-bound"].iter().map(|s| s.to_string()).collect()
    }
    fn cases(&self, tier: Tier) -> usize {
        match tier {
            Tier::Quick => 200_000,
            Tier::Thorough => 5_000_000,
        }
    }
    fn tape_max(&self) -> usize {
        768
    }
    fn assumptions(&self) -> Vec<String> {
        vec!["sample states are in-bound and total over the variables the problem uses; sample ids are pairwise distinct".into()]
    }

    fn run(&self, t: &mut Tape, ctx: &mut Ctx) -> PResult {
        let regime = if t.p(64) { Regime::General } else { Regime::Dyadic };
        let n = 1 + t.choice(8);
        let use_add = t.p(48);
        let omit_irrelevant = t.p(140);
        let collide = t.p(100);
        // which irrelevant variables each state assigns (different subsets per state)
        let masks: Vec<u16> = (0..8).map(|_| t.u16()).collect();
        // which states still carry an (in-bound, stale) value for a variable that an earlier partial evaluation fixed
        let stale_mask = if t.p(96) { t.byte() } else { 0 };
        // which states carry values for ids that are no variables of the instance at all (one or two of them), as a state
        // produced for a reformulated copy of the model does; single evaluation accepts and reports them
        let foreign_mask = if t.p(80) { t.byte() } else { 0 };
        let foreign_two = t.coin();
        let big = if t.p(8) { Some((*t.pick(&SIZES), t.byte() as u64)) } else { None };
        let mut cfg = InstCfg::new(regime);
        cfg.tolerance_candidates = true;
        cfg.fixed_out_of_bound = true;
        cfg.kinds.extend([4, 5]); // semi-integer, semi-continuous: every kind of the schema
        // a present function message whose oneof is unset evaluates to zero (C01) -- for every sample alike
        cfg.func.allow_unset = true;
        let mut gi = gen_instance(t, &cfg, ctx);
        // sample ids
        let mut ids: Vec<u64> = vec![];
        let mut next = *t.pick(&[0u64, 1, 5, 1 << 40, u64::MAX - 40]);
        for _ in 0..n {
            ids.push(next);
            next = next.wrapping_add(1 + t.choice(4) as u64);
        }
        t.shuffle(&mut ids);
        let mut pairs: Vec<(u64, v1::State)> = vec![];
        for i in 0..n {
            let st = if i > 0 && t.p(90) {
                pairs[t.choice(pairs.len())].1.clone()
            } else {
                if omit_irrelevant {
                    gen_inst_state_partial(t, &gi, regime, masks[i])
                } else {
                    gen_inst_state(t, &gi, regime, true)
                }
            };
            let mut st = st;
            if (stale_mask >> i) & 1 == 1 {
                for fx in gi.fixed.clone() {
                    let v = gi.inst.decision_variables.iter().find(|v| v.id == fx).unwrap();
                    let x = in_bound_value(t, v, regime);
                    if v.substituted_value != Some(x) {
                        ctx.label("state-has-stale-value-of-fixed-variable");
                    }
                    st.entries.insert(fx, x);
                }
            }
            if (foreign_mask >> i) & 1 == 1 {
                st.entries.insert(987_654_321, 1.0);
                if foreign_two {
                    st.entries.insert(987_654_322, -2.0);
                }
                ctx.label("state-has-foreign-id");
            }
            pairs.push((ids[i], st));
        }
        if let Some((bn, seed)) = big {
            // a linear function over many variables; every state gets its own values for them
            let mut scratch = v1::State::default();
            add_big_linear(&mut gi.inst, &mut scratch, bn, seed);
            for (k, p) in pairs.iter_mut().enumerate() {
                for i in 0..bn as u64 {
                    p.1.entries.insert(5000 + i, derived_value(seed.wrapping_add(k as u64 % 3), i));
                }
            }
            ctx.label("big-linear-function");
        }
        if omit_irrelevant && !gi.irrelevant.is_empty() {
            ctx.label("omits-irrelevant");
            let keysets: BTreeSet<Vec<u64>> = pairs.iter().map(|p| { let mut k: Vec<u64> = p.1.entries.keys().copied().collect(); k.sort_unstable(); k }).collect();
            if keysets.len() >= 2 {
                ctx.label("omits-different-subsets");
            }
        }
        if collide && n >= 2 {
            // force equal values from different states: make the first constraint constant at both states
            if let Some(c) = gi.inst.constraints.first_mut() {
                if place_constraint_value(c, &pairs[0].1, 0.25) {
                    // value is 0.25 at state 0; others generally differ — instead make the objective constant
                }
            }
            gi.inst.objective = Some(crate::mk::fconst(1.5));
            if pairs.iter().any(|p| p.1 != pairs[0].1) {
                ctx.label("value-collision");
            }
        }
        if use_add {
            ctx.label("add_sample");
        }
        if n >= 4 {
            ctx.label("n>=4");
        }
        let samples = group(t, &pairs, ctx, use_add);
        if use_add && samples.entries.iter().any(|e| e.ids.len() >= 2) {
            ctx.label("multi-id-entry");
        }
        let interesting = ["multi-id-entry", "dup-state-separate-entries", "value-collision"].iter().any(|l| ctx.labels.iter().any(|x| x == l));
        if n >= 2 && interesting {
            ctx.nontrivial();
        }
        fp_instance(ctx, &gi.inst);
        for e in &samples.entries {
            ctx.fp_state(e.state.as_ref().unwrap());
            ctx.fp_dbg(&e.ids);
        }
        ctx.sample_with(|| json!({"instance": describe_inst(&gi.inst), "samples": samples.entries.iter().map(|e| format!("{:?} -> {:?}", e.ids, sorted_state(e.state.as_ref().unwrap()))).collect::<Vec<_>>()}));
        let inst = &gi.inst;
        let ctxmsg = |m: String| format!("{m}\n instance {}\n samples {:?}", describe_inst(inst), samples.entries.iter().map(|e| (e.ids.clone(), sorted_state(e.state.as_ref().unwrap()))).collect::<Vec<_>>());

        // single evaluations first
        let mut singles: Vec<(u64, v1::Solution)> = vec![];
        for (id, st) in &pairs {
            match inst.evaluate(st) {
                Ok((mut sol, _)) => {
                    // A value given for an id that is no variable of the instance is echoed by the single evaluation;
                    // a sample set has no place to keep it (its tables are per decision variable). The statement
                    // compares "variable values": the foreign ids are left out of the comparison.
                    if let Some(st) = sol.state.as_mut() {
                        st.entries.remove(&987_654_321);
                        st.entries.remove(&987_654_322);
                    }
                    singles.push((*id, sol))
                }
                Err(e) => {
                    // generator produced a state the single path rejects (should not happen)
                    ctx.label("single-evaluate-rejected");
                    ctx.exclude(format!("single evaluate rejected: {e}"));
                    return Ok(());
                }
            }
        }
        let (ss, _) = match inst.evaluate_samples(&samples) {
            Ok(x) => x,
            Err(e) => return fail("C06/evaluate-samples-err", ctxmsg(format!("evaluate_samples failed although every state evaluates alone: {e:#}"))),
        };
        let want: BTreeSet<u64> = pairs.iter().map(|p| p.0).collect();
        // key sets
        let chk_keys = |what: &str, got: BTreeSet<u64>| -> PResult {
            if got != want {
                return fail(format!("C06/keys/{what}"), ctxmsg(format!("{what} keyed by {got:?}, submitted ids {want:?}")));
            }
            Ok(())
        };
        match &ss.objectives {
            Some(o) => match sampled_table(o) {
                Ok(tb) => chk_keys("objectives", tb.keys().copied().collect())?,
                Err(e) => return fail("C06/keys/objectives-dup", ctxmsg(e)),
            },
            None => return fail("C06/objectives-missing", ctxmsg("sample set has no objectives".into())),
        }
        chk_keys("feasible", ss.feasible.keys().copied().collect())?;
        chk_keys("feasible_relaxed", ss.feasible_relaxed.keys().copied().collect())?;
        // the set-level accessors speak of the same ids
        chk_keys("sample_ids()", ss.sample_ids())?;
        chk_keys("feasible_relaxed() accessor", ss.feasible_relaxed().keys().copied().collect())?;
        chk_keys("feasible_unrelaxed() accessor", ss.feasible_unrelaxed().keys().copied().collect())?;
        match ss.num_samples() {
            Ok(n) if n == want.len() => {}
            other => return fail("C06/num-samples", ctxmsg(format!("num_samples() gives {other:?} for {} submitted sample ids", want.len()))),
        }
        for c in &ss.constraints {
            match c.evaluated_values.as_ref().map(sampled_table) {
                Some(Ok(tb)) => chk_keys("constraint.evaluated_values", tb.keys().copied().collect())?,
                Some(Err(e)) => return fail("C06/keys/constraint-dup", ctxmsg(e)),
                None => return fail("C06/constraint-values-missing", ctxmsg(format!("constraint {} has no evaluated values", c.id))),
            }
            chk_keys("constraint.feasible", c.feasible.keys().copied().collect())?;
        }
        // per sample agreement
        for (id, single) in &singles {
            let got = match ss.get(*id) {
                Ok(s) => s,
                Err(e) => return fail("C06/get-err", ctxmsg(format!("SampleSet::get({id}) failed: {e:#}"))),
            };
            compare_solutions("C06/sample", &got, single).map_err(|mut f| {
                f.message = ctxmsg(format!("sample {id}: {}", f.message));
                f
            })?;
        }
        // per-constraint feasibility tables: entry of sample i says whether that constraint holds at sample i
        // (|f| < 1e-6 for equalities, f < 1e-6 for inequalities, applied to the value of the single evaluation)
        for c in &ss.constraints {
            for (id, single) in &singles {
                let Some(ec) = single.evaluated_constraints.iter().find(|e| e.id == c.id) else { continue };
                // a value exactly on the threshold: C06's statement does not fix the strictness of the comparison (C05's does)
                if ec.evaluated_value.abs() == 1e-6 {
                    // ... but the statement does demand agreement with the evaluation of that sample alone. When every
                    // OTHER constraint entering the same flag clearly holds there, the single evaluation's flag IS its
                    // verdict on this constraint, and the table must say the same (whichever comparison both use).
                    let removed = c.removed_reason.is_some();
                    let clearly_holds = |e: &v1::EvaluatedConstraint| e.evaluated_value.abs() != 1e-6 && match e.equality {
                        1 => e.evaluated_value.abs() < 1e-6,
                        2 => e.evaluated_value < 1e-6,
                        _ => false,
                    };
                    let others_hold = single.evaluated_constraints.iter().filter(|e| e.id != c.id).filter(|e| removed || e.removed_reason.is_none()).all(clearly_holds);
                    let verdict = if removed { Some(single.feasible) } else { single.feasible_relaxed };
                    if let (true, Some(v)) = (others_hold, verdict) {
                        ctx.label("on-threshold-table-entry-compared-with-single-evaluation");
                        if c.feasible.get(id) != Some(&v) {
                            return fail(
                                "C06/constraint-feasible-table/on-threshold-disagrees-with-single",
                                ctxmsg(format!("constraint {} (equality {}) has value {:e} at sample {id}, exactly on the tolerance, and every other constraint holds there: the evaluation of that sample alone decides {v} but the sample set's table says {:?}", c.id, ec.equality, ec.evaluated_value, c.feasible.get(id))),
                            );
                        }
                    }
                    continue;
                }
                let holds = match ec.equality {
                    1 => ec.evaluated_value.abs() < 1e-6,
                    2 => ec.evaluated_value < 1e-6,
                    _ => continue,
                };
                if c.feasible.get(id) != Some(&holds) {
                    return fail(
                        "C06/constraint-feasible-table",
                        ctxmsg(format!("constraint {} (equality {}): per-sample feasibility table says {:?} for sample {id}, but the value there is {:e}", c.id, ec.equality, c.feasible.get(id), ec.evaluated_value)),
                    );
                }
            }
        }
        // re-grouping invariance: every pair in its own entry, reversed order
        let mut regroup = v1::Samples::default();
        for (id, st) in pairs.iter().rev() {
            regroup.entries.push(crate::mk::samples_entry(st.clone(), vec![*id]));
        }
        let (ss2, _) = match inst.evaluate_samples(&regroup) {
            Ok(x) => x,
            Err(e) => return fail("C06/regroup-err", ctxmsg(format!("evaluate_samples failed after re-grouping: {e:#}"))),
        };
        for (id, _) in &pairs {
            let (a, b) = (ss.get(*id), ss2.get(*id));
            match (a, b) {
                (Ok(a), Ok(b)) => compare_solutions("C06/regroup", &a, &b).map_err(|mut f| {
                    f.message = ctxmsg(format!("sample {id} differs between groupings: {}", f.message));
                    f
                })?,
                _ => return fail("C06/regroup-get-err", ctxmsg(format!("get({id}) failed after re-grouping"))),
            }
        }
        Ok(())
    }
}
