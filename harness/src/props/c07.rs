//! C07 The wire format matches the published schema and round-trips.

use crate::driver::{fail, inconclusive, Ctx, PResult, Property, Tier};
use crate::tape::Tape;
use crate::wire::*;
use ommx::v1;
use prost::Message;
use serde_json::json;
use std::collections::{BTreeMap, BTreeSet};
use std::sync::OnceLock;

pub struct C07;

const PROTO_DIR: &str = "/repo/proto/ommx/v1";
const PY_DIR: &str = "/repo/python/ommx/ommx/v1";
const RUST_FILE: &str = "/repo/rust/ommx/src/ommx.v1.rs";
const OLD_ARTIFACT: &str = "/repo/data/random_lp_instance.ommx";

// ---------------------------------------------------------------------------------------
// by-name projection of the Rust types
// ---------------------------------------------------------------------------------------

pub trait ToDyn {
    fn to_dyn(&self) -> DynMsg;
    fn names() -> Vec<&'static str>;
}

macro_rules! put {
    ($m:ident, $s:ident, $f:ident, u64) => { if $s.$f != 0 { $m.f.insert(stringify!($f).into(), DV::U64($s.$f)); } };
    ($m:ident, $s:ident, $f:ident, f64) => { if $s.$f != 0.0 { $m.f.insert(stringify!($f).into(), DV::F64($s.$f.to_bits())); } };
    ($m:ident, $s:ident, $f:ident, bool) => { if $s.$f { $m.f.insert(stringify!($f).into(), DV::Bool(true)); } };
    ($m:ident, $s:ident, $f:ident, str) => { if !$s.$f.is_empty() { $m.f.insert(stringify!($f).into(), DV::Str($s.$f.clone())); } };
    ($m:ident, $s:ident, $f:ident, en) => { if $s.$f != 0 { $m.f.insert(stringify!($f).into(), DV::Enum($s.$f)); } };
    ($m:ident, $s:ident, $f:ident, opt_f64) => { if let Some(x) = $s.$f { $m.f.insert(stringify!($f).into(), DV::F64(x.to_bits())); } };
    ($m:ident, $s:ident, $f:ident, opt_bool) => { if let Some(x) = $s.$f { $m.f.insert(stringify!($f).into(), DV::Bool(x)); } };
    ($m:ident, $s:ident, $f:ident, opt_str) => { if let Some(x) = &$s.$f { $m.f.insert(stringify!($f).into(), DV::Str(x.clone())); } };
    ($m:ident, $s:ident, $f:ident, msg) => { if let Some(x) = &$s.$f { $m.f.insert(stringify!($f).into(), DV::Msg(x.to_dyn())); } };
    ($m:ident, $s:ident, $f:ident, rep_u64) => { if !$s.$f.is_empty() { $m.f.insert(stringify!($f).into(), DV::List($s.$f.iter().map(|x| DV::U64(*x)).collect())); } };
    ($m:ident, $s:ident, $f:ident, rep_i64) => { if !$s.$f.is_empty() { $m.f.insert(stringify!($f).into(), DV::List($s.$f.iter().map(|x| DV::I64(*x)).collect())); } };
    ($m:ident, $s:ident, $f:ident, rep_f64) => { if !$s.$f.is_empty() { $m.f.insert(stringify!($f).into(), DV::List($s.$f.iter().map(|x| DV::F64(x.to_bits())).collect())); } };
    ($m:ident, $s:ident, $f:ident, rep_str) => { if !$s.$f.is_empty() { $m.f.insert(stringify!($f).into(), DV::List($s.$f.iter().map(|x| DV::Str(x.clone())).collect())); } };
    ($m:ident, $s:ident, $f:ident, rep_msg) => { if !$s.$f.is_empty() { $m.f.insert(stringify!($f).into(), DV::List($s.$f.iter().map(|x| DV::Msg(x.to_dyn())).collect())); } };
    ($m:ident, $s:ident, $f:ident, map_ss) => { if !$s.$f.is_empty() { $m.f.insert(stringify!($f).into(), DV::Map($s.$f.iter().map(|(k, v)| (DKey::Str(k.clone()), DV::Str(v.clone()))).collect())); } };
    ($m:ident, $s:ident, $f:ident, map_u64_f64) => { if !$s.$f.is_empty() { $m.f.insert(stringify!($f).into(), DV::Map($s.$f.iter().map(|(k, v)| (DKey::U64(*k), DV::F64(v.to_bits()))).collect())); } };
    ($m:ident, $s:ident, $f:ident, map_u64_bool) => { if !$s.$f.is_empty() { $m.f.insert(stringify!($f).into(), DV::Map($s.$f.iter().map(|(k, v)| (DKey::U64(*k), DV::Bool(*v))).collect())); } };
    ($m:ident, $s:ident, $f:ident, map_u64_msg) => { if !$s.$f.is_empty() { $m.f.insert(stringify!($f).into(), DV::Map($s.$f.iter().map(|(k, v)| (DKey::U64(*k), DV::Msg(v.to_dyn()))).collect())); } };
}

macro_rules! proj {
    ($ty:ty, $full:expr, { $( $f:ident : $k:ident ),* $(,)? }) => {
        impl ToDyn for $ty {
            #[allow(deprecated)]
            fn to_dyn(&self) -> DynMsg {
                #[allow(unused_mut)]
                let mut m = DynMsg::new($full);
                let s = self;
                let _ = s;
                $( put!(m, s, $f, $k); )*
                m
            }
            fn names() -> Vec<&'static str> { vec![ $( stringify!($f) ),* ] }
        }
    };
}

proj!(v1::linear::Term, "ommx.v1.Linear.Term", { id: u64, coefficient: f64 });
proj!(v1::Linear, "ommx.v1.Linear", { terms: rep_msg, constant: f64 });
proj!(v1::Monomial, "ommx.v1.Monomial", { ids: rep_u64, coefficient: f64 });
proj!(v1::Polynomial, "ommx.v1.Polynomial", { terms: rep_msg });
proj!(v1::Quadratic, "ommx.v1.Quadratic", { rows: rep_u64, columns: rep_u64, values: rep_f64, linear: msg });
proj!(v1::Constraint, "ommx.v1.Constraint", { id: u64, equality: en, function: msg, subscripts: rep_i64, parameters: map_ss, name: opt_str, description: opt_str });
proj!(v1::EvaluatedConstraint, "ommx.v1.EvaluatedConstraint", { id: u64, equality: en, evaluated_value: f64, used_decision_variable_ids: rep_u64, subscripts: rep_i64, parameters: map_ss, name: opt_str, description: opt_str, dual_variable: opt_f64, removed_reason: opt_str, removed_reason_parameters: map_ss });
proj!(v1::RemovedConstraint, "ommx.v1.RemovedConstraint", { constraint: msg, removed_reason: str, removed_reason_parameters: map_ss });
proj!(v1::OneHot, "ommx.v1.OneHot", { constraint_id: u64, decision_variables: rep_u64 });
proj!(v1::Sos1, "ommx.v1.SOS1", { binary_constraint_id: u64, big_m_constraint_ids: rep_u64, decision_variables: rep_u64 });
proj!(v1::ConstraintHints, "ommx.v1.ConstraintHints", { one_hot_constraints: rep_msg, sos1_constraints: rep_msg });
proj!(v1::Bound, "ommx.v1.Bound", { lower: f64, upper: f64 });
proj!(v1::DecisionVariable, "ommx.v1.DecisionVariable", { id: u64, kind: en, bound: msg, name: opt_str, subscripts: rep_i64, parameters: map_ss, description: opt_str, substituted_value: opt_f64 });
proj!(v1::Parameters, "ommx.v1.Parameters", { entries: map_u64_f64 });
proj!(v1::instance::Description, "ommx.v1.Instance.Description", { name: opt_str, description: opt_str, authors: rep_str, created_by: opt_str });
proj!(v1::Instance, "ommx.v1.Instance", { description: msg, decision_variables: rep_msg, objective: msg, constraints: rep_msg, sense: en, parameters: msg, constraint_hints: msg, removed_constraints: rep_msg, decision_variable_dependency: map_u64_msg });
proj!(v1::Parameter, "ommx.v1.Parameter", { id: u64, name: opt_str, subscripts: rep_i64, parameters: map_ss, description: opt_str });
proj!(v1::ParametricInstance, "ommx.v1.ParametricInstance", { description: msg, decision_variables: rep_msg, parameters: rep_msg, objective: msg, constraints: rep_msg, sense: en, constraint_hints: msg, removed_constraints: rep_msg, decision_variable_dependency: map_u64_msg });
proj!(v1::State, "ommx.v1.State", { entries: map_u64_f64 });
proj!(v1::Solution, "ommx.v1.Solution", { state: msg, objective: f64, decision_variables: rep_msg, evaluated_constraints: rep_msg, feasible: bool, feasible_relaxed: opt_bool, feasible_unrelaxed: bool, optimality: en, relaxation: en });
proj!(v1::Infeasible, "ommx.v1.Infeasible", {});
proj!(v1::Unbounded, "ommx.v1.Unbounded", {});
proj!(v1::samples::SamplesEntry, "ommx.v1.Samples.SamplesEntry", { state: msg, ids: rep_u64 });
proj!(v1::Samples, "ommx.v1.Samples", { entries: rep_msg });
proj!(v1::sampled_values::SampledValuesEntry, "ommx.v1.SampledValues.SampledValuesEntry", { value: f64, ids: rep_u64 });
proj!(v1::SampledValues, "ommx.v1.SampledValues", { entries: rep_msg });
proj!(v1::SampledDecisionVariable, "ommx.v1.SampledDecisionVariable", { decision_variable: msg, samples: msg });
proj!(v1::SampledConstraint, "ommx.v1.SampledConstraint", { id: u64, equality: en, name: opt_str, subscripts: rep_i64, parameters: map_ss, description: opt_str, removed_reason: opt_str, removed_reason_parameters: map_ss, evaluated_values: msg, used_decision_variable_ids: rep_u64, feasible: map_u64_bool });
proj!(v1::SampleSet, "ommx.v1.SampleSet", { objectives: msg, decision_variables: rep_msg, constraints: rep_msg, feasible: map_u64_bool, feasible_unrelaxed: map_u64_bool, feasible_relaxed: map_u64_bool, sense: en });

impl ToDyn for v1::Function {
    fn to_dyn(&self) -> DynMsg {
        use v1::function::Function as F;
        let mut m = DynMsg::new("ommx.v1.Function");
        match &self.function {
            None => {}
            Some(F::Constant(c)) => {
                m.f.insert("constant".into(), DV::F64(c.to_bits()));
            }
            Some(F::Linear(x)) => {
                m.f.insert("linear".into(), DV::Msg(x.to_dyn()));
            }
            Some(F::Quadratic(x)) => {
                m.f.insert("quadratic".into(), DV::Msg(x.to_dyn()));
            }
            Some(F::Polynomial(x)) => {
                m.f.insert("polynomial".into(), DV::Msg(x.to_dyn()));
            }
            #[allow(unreachable_patterns)]
            _ => inconclusive("Function oneof variant unknown to the C07 projection"),
        }
        m
    }
    fn names() -> Vec<&'static str> {
        vec!["constant", "linear", "quadratic", "polynomial"]
    }
}

impl ToDyn for v1::Result {
    fn to_dyn(&self) -> DynMsg {
        use v1::result::Result as R;
        let mut m = DynMsg::new("ommx.v1.Result");
        match &self.result {
            None => {}
            Some(R::Error(e)) => {
                m.f.insert("error".into(), DV::Str(e.clone()));
            }
            Some(R::Solution(x)) => {
                m.f.insert("solution".into(), DV::Msg(x.to_dyn()));
            }
            Some(R::Infeasible(x)) => {
                m.f.insert("infeasible".into(), DV::Msg(x.to_dyn()));
            }
            Some(R::Unbounded(x)) => {
                m.f.insert("unbounded".into(), DV::Msg(x.to_dyn()));
            }
            #[allow(unreachable_patterns)]
            _ => inconclusive("Result oneof variant unknown to the C07 projection"),
        }
        m
    }
    fn names() -> Vec<&'static str> {
        vec!["error", "solution", "infeasible", "unbounded"]
    }
}

struct Entry {
    full: &'static str,
    names: fn() -> Vec<&'static str>,
    /// decode with the Rust binding -> (projection, re-encoded bytes, decode(encode(t)) == t)
    run: fn(&[u8]) -> Result<(DynMsg, Vec<u8>, bool), String>,
}

fn entry<T: Message + Default + PartialEq + ToDyn>(full: &'static str) -> Entry {
    fn run<T: Message + Default + PartialEq + ToDyn>(b: &[u8]) -> Result<(DynMsg, Vec<u8>, bool), String> {
        let t = T::decode(b).map_err(|e| format!("{e}"))?;
        let d = t.to_dyn();
        let re = t.encode_to_vec();
        let ok = T::decode(re.as_slice()).map(|t2| t2 == t).unwrap_or(false);
        Ok((d, re, ok))
    }
    Entry { full, names: T::names, run: run::<T> }
}

fn registry() -> Vec<Entry> {
    vec![
        entry::<v1::linear::Term>("ommx.v1.Linear.Term"),
        entry::<v1::Linear>("ommx.v1.Linear"),
        entry::<v1::Monomial>("ommx.v1.Monomial"),
        entry::<v1::Polynomial>("ommx.v1.Polynomial"),
        entry::<v1::Quadratic>("ommx.v1.Quadratic"),
        entry::<v1::Function>("ommx.v1.Function"),
        entry::<v1::Constraint>("ommx.v1.Constraint"),
        entry::<v1::EvaluatedConstraint>("ommx.v1.EvaluatedConstraint"),
        entry::<v1::RemovedConstraint>("ommx.v1.RemovedConstraint"),
        entry::<v1::OneHot>("ommx.v1.OneHot"),
        entry::<v1::Sos1>("ommx.v1.SOS1"),
        entry::<v1::ConstraintHints>("ommx.v1.ConstraintHints"),
        entry::<v1::Bound>("ommx.v1.Bound"),
        entry::<v1::DecisionVariable>("ommx.v1.DecisionVariable"),
        entry::<v1::Parameters>("ommx.v1.Parameters"),
        entry::<v1::instance::Description>("ommx.v1.Instance.Description"),
        entry::<v1::Instance>("ommx.v1.Instance"),
        entry::<v1::Parameter>("ommx.v1.Parameter"),
        entry::<v1::ParametricInstance>("ommx.v1.ParametricInstance"),
        entry::<v1::State>("ommx.v1.State"),
        entry::<v1::Solution>("ommx.v1.Solution"),
        entry::<v1::Infeasible>("ommx.v1.Infeasible"),
        entry::<v1::Unbounded>("ommx.v1.Unbounded"),
        entry::<v1::Result>("ommx.v1.Result"),
        entry::<v1::samples::SamplesEntry>("ommx.v1.Samples.SamplesEntry"),
        entry::<v1::Samples>("ommx.v1.Samples"),
        entry::<v1::sampled_values::SampledValuesEntry>("ommx.v1.SampledValues.SampledValuesEntry"),
        entry::<v1::SampledValues>("ommx.v1.SampledValues"),
        entry::<v1::SampledDecisionVariable>("ommx.v1.SampledDecisionVariable"),
        entry::<v1::SampledConstraint>("ommx.v1.SampledConstraint"),
        entry::<v1::SampleSet>("ommx.v1.SampleSet"),
    ]
}

type EnumFns = (&'static str, fn(i32) -> Option<&'static str>, fn(&str) -> Option<i32>);

fn enum_registry() -> Vec<EnumFns> {
    vec![
        ("ommx.v1.Equality", |i| v1::Equality::try_from(i).ok().map(|e| e.as_str_name()), |s| v1::Equality::from_str_name(s).map(|e| e as i32)),
        ("ommx.v1.DecisionVariable.Kind", |i| v1::decision_variable::Kind::try_from(i).ok().map(|e| e.as_str_name()), |s| v1::decision_variable::Kind::from_str_name(s).map(|e| e as i32)),
        ("ommx.v1.Instance.Sense", |i| v1::instance::Sense::try_from(i).ok().map(|e| e.as_str_name()), |s| v1::instance::Sense::from_str_name(s).map(|e| e as i32)),
        ("ommx.v1.Optimality", |i| v1::Optimality::try_from(i).ok().map(|e| e.as_str_name()), |s| v1::Optimality::from_str_name(s).map(|e| e as i32)),
        ("ommx.v1.Relaxation", |i| v1::Relaxation::try_from(i).ok().map(|e| e.as_str_name()), |s| v1::Relaxation::from_str_name(s).map(|e| e as i32)),
    ]
}

struct Schemas {
    proto: Result<Schema, String>,
    py: Result<Schema, String>,
}

fn schemas() -> &'static Schemas {
    static S: OnceLock<Schemas> = OnceLock::new();
    S.get_or_init(|| Schemas { proto: schema_from_proto_dir(PROTO_DIR), py: schema_from_python_dir(PY_DIR) })
}

fn first_schema_difference(a: &Schema, b: &Schema, an: &str, bn: &str) -> Option<String> {
    let names: BTreeSet<&String> = a.msgs.keys().chain(b.msgs.keys()).collect();
    for n in names {
        match (a.msgs.get(n), b.msgs.get(n)) {
            (Some(x), Some(y)) => {
                let fx: BTreeMap<&String, &Field> = x.fields.iter().map(|f| (&f.name, f)).collect();
                let fy: BTreeMap<&String, &Field> = y.fields.iter().map(|f| (&f.name, f)).collect();
                let fnm: BTreeSet<&&String> = fx.keys().chain(fy.keys()).collect();
                for k in fnm {
                    match (fx.get(*k), fy.get(*k)) {
                        (Some(p), Some(q)) if p == q => {}
                        (p, q) => return Some(format!("message {n}, field {k}: {an} has {p:?}, {bn} has {q:?}")),
                    }
                }
            }
            (x, y) => return Some(format!("message {n}: present in {an}: {}, in {bn}: {}", x.is_some(), y.is_some())),
        }
    }
    let names: BTreeSet<&String> = a.enums.keys().chain(b.enums.keys()).collect();
    for n in names {
        let (x, y) = (a.enums.get(n), b.enums.get(n));
        let norm = |v: Option<&Vec<(String, i32)>>| v.map(|v| v.iter().cloned().collect::<BTreeSet<_>>());
        if norm(x) != norm(y) {
            return Some(format!("enum {n}: {an} has {x:?}, {bn} has {y:?}"));
        }
    }
    None
}

fn camel(s: &str) -> String {
    // heck-style UpperCamelCase as prost applies to message names (SOS1 -> Sos1)
    let mut out = String::new();
    let chars: Vec<char> = s.chars().collect();
    let mut i = 0;
    while i < chars.len() {
        if chars[i] == '_' {
            i += 1;
            continue;
        }
        // start of a word
        out.push(chars[i].to_ascii_uppercase());
        i += 1;
        while i < chars.len() && chars[i] != '_' {
            let prev_upper = chars[i - 1].is_ascii_uppercase();
            let next_lower = chars.get(i + 1).map(|c| c.is_ascii_lowercase()).unwrap_or(false);
            if chars[i].is_ascii_uppercase() && (!prev_upper || next_lower) && !chars[i - 1].is_ascii_digit() {
                break; // new word
            }
            out.push(chars[i].to_ascii_lowercase());
            i += 1;
        }
    }
    out
}

fn snake(s: &str) -> String {
    let mut out = String::new();
    let chars: Vec<char> = s.chars().collect();
    for (i, c) in chars.iter().enumerate() {
        if c.is_ascii_uppercase() {
            let prev_lower = i > 0 && (chars[i - 1].is_ascii_lowercase() || chars[i - 1].is_ascii_digit());
            let next_lower = chars.get(i + 1).map(|c| c.is_ascii_lowercase()).unwrap_or(false);
            if i > 0 && (prev_lower || (chars[i - 1].is_ascii_uppercase() && next_lower)) {
                out.push('_');
            }
            out.push(c.to_ascii_lowercase());
        } else {
            out.push(*c);
        }
    }
    out
}

fn rust_path(full: &str) -> String {
    let parts: Vec<&str> = full.trim_start_matches("ommx.v1.").split('.').collect();
    let mut p: Vec<String> = parts[..parts.len() - 1].iter().map(|x| snake(x)).collect();
    p.push(camel(parts[parts.len() - 1]));
    p.join("::")
}

fn check_rust_attrs(s: &Schema) -> PResult {
    check_rust_attrs_ex(s, &mut vec![])
}

fn check_rust_attrs_ex(s: &Schema, skipped: &mut Vec<String>) -> PResult {
    let attrs = match rust_attrs(RUST_FILE) {
        Ok(a) => a,
        Err(e) => inconclusive(&format!("cannot read {RUST_FILE}: {e}")),
    };
    for (full, m) in &s.msgs {
        let rp = rust_path(full);
        let Some(rf) = attrs.get(&rp) else {
            return fail("C07/rust-binding-missing", format!("schema message {full} has no struct {rp} in ommx.v1.rs"));
        };
        if rf.is_empty() && !m.fields.is_empty() {
            // The struct exists but carries no #[prost] attribute at all: its Message impl is hand-written rather than
            // derived. The textual comparison has nothing to read there; conformance of that message is decided by the
            // dynamic checks (independent encoder -> T::decode -> by-name projection, and back), which do not care how
            // the impl was produced. (A derived struct cannot lack a single attribute: it would not compile.)
            skipped.push(full.clone());
            continue;
        }
        let mut oneofs: BTreeSet<&String> = BTreeSet::new();
        for f in &m.fields {
            if let Some(o) = &f.oneof {
                oneofs.insert(o);
                // variant of the oneof enum
                let ep = format!("{}::{}", rp.split("::").map(|x| x.to_string()).collect::<Vec<_>>().iter().take(rp.matches("::").count()).cloned().chain(std::iter::once(snake(full.rsplit('.').next().unwrap()))).collect::<Vec<_>>().join("::"), camel(o));
                let Some(vars) = attrs.get(&ep) else {
                    return fail("C07/rust-oneof-missing", format!("oneof {o} of {full}: no enum {ep} in ommx.v1.rs"));
                };
                let vn = camel(&f.name);
                let Some(v) = vars.iter().find(|v| v.name == vn) else {
                    return fail("C07/rust-oneof-variant-missing", format!("oneof member {}.{} has no variant {vn} in {ep}", full, f.name));
                };
                let want_kind = scalar_kw(&f.ty);
                if v.number != f.number || !v.kind.starts_with(want_kind) {
                    return fail("C07/rust-attribute-mismatch", format!("oneof member {}.{}: schema says number {} type {:?}, ommx.v1.rs says tag {} kind {}", full, f.name, f.number, f.ty, v.number, v.kind));
                }
                continue;
            }
            let Some(r) = rf.iter().find(|r| r.name == f.name) else {
                return fail("C07/rust-field-missing", format!("field {}.{} has no field of that name in struct {rp}", full, f.name));
            };
            let (want_kind, want_label): (String, &str) = match &f.label {
                Label::Map(k, v) => (format!("map={},{}", scalar_kw(k), scalar_kw(v)), ""),
                Label::Repeated => (scalar_kw(&f.ty).to_string(), "repeated"),
                Label::Optional => (scalar_kw(&f.ty).to_string(), "optional"),
                Label::Singular => (scalar_kw(&f.ty).to_string(), if matches!(f.ty, Ty::Msg(_)) { "optional" } else { "" }),
            };
            let kind_ok = if let Ty::Enum(e) = &f.ty {
                if matches!(f.label, Label::Map(..)) {
                    r.kind.starts_with("map=")
                } else {
                    r.kind.starts_with("enumeration=") && r.kind.trim_start_matches("enumeration=").split(';').next().unwrap_or("").rsplit("::").next() == Some(camel(e.rsplit('.').next().unwrap()).as_str())
                }
            } else {
                r.kind.split(';').next() == Some(want_kind.as_str())
            };
            if r.number != f.number || !kind_ok || r.label != want_label || r.kind.contains("unpacked") {
                return fail(
                    "C07/rust-attribute-mismatch",
                    format!("field {}.{}: schema says number {} type {:?} label {:?}; ommx.v1.rs says tag {} kind {:?} label {:?}", full, f.name, f.number, f.ty, f.label, r.number, r.kind, r.label),
                );
            }
        }
        // no extra Rust fields
        for r in rf {
            let is_oneof_holder = r.kind.starts_with("oneof=");
            if is_oneof_holder {
                if !oneofs.iter().any(|o| **o == r.name) {
                    return fail("C07/rust-extra-field", format!("struct {rp} has a oneof field {} unknown to the schema", r.name));
                }
                // the tags list on the holder decides which numbers are routed into the oneof when decoding
                let tags: BTreeSet<u32> = r.kind.split("tags=").nth(1).unwrap_or("").split(',').filter_map(|x| x.trim().parse().ok()).collect();
                let want: BTreeSet<u32> = m.fields.iter().filter(|f| f.oneof.as_deref() == Some(r.name.as_str())).map(|f| f.number).collect();
                if tags != want {
                    return fail("C07/rust-attribute-mismatch", format!("oneof {}.{}: schema members have numbers {want:?}, ommx.v1.rs routes tags {tags:?}", full, r.name));
                }
                continue;
            }
            if !m.fields.iter().any(|f| f.name == r.name) {
                return fail("C07/rust-extra-field", format!("struct {rp} has field {} (tag {}) unknown to the schema message {full}", r.name, r.number));
            }
        }
    }
    Ok(())
}

fn scalar_kw(t: &Ty) -> &'static str {
    match t {
        Ty::U64 => "uint64",
        Ty::I64 => "int64",
        Ty::F64 => "double",
        Ty::Bool => "bool",
        Ty::Str => "string",
        Ty::Enum(_) => "enumeration",
        Ty::Msg(_) => "message",
    }
}

fn fix_map_zero(m: &mut DynMsg, s: &Schema) {
    // prost omits a map value equal to the default (-0.0 == 0.0), so -0.0 cannot survive as a map value:
    // a quirk of the codec library, not of the schema; the generator keeps it out of map values
    let desc = &s.msgs[&m.ty];
    for (k, v) in m.f.iter_mut() {
        let fd = desc.fields.iter().find(|f| &f.name == k).unwrap();
        match v {
            DV::Map(mm) => {
                for x in mm.values_mut() {
                    match x {
                        DV::F64(b) if f64::from_bits(*b) == 0.0 => *b = 0,
                        DV::Msg(y) => fix_map_zero(y, s),
                        _ => {}
                    }
                }
                let _ = fd;
            }
            DV::Msg(y) => fix_map_zero(y, s),
            DV::List(xs) => {
                for x in xs {
                    if let DV::Msg(y) = x {
                        fix_map_zero(y, s);
                    }
                }
            }
            _ => {}
        }
    }
}

impl Property for C07 {
    fn id(&self) -> &'static str {
        "C07"
    }
    fn rule(&self) -> &'static str {
        "sweep = (1) schema from the .proto text == schema from protoc's serialized descriptors embedded in the Python bindings, field by field; (2) both == the #[prost] attributes of ommx.v1.rs read textually (name, tag, type, label, oneof membership); (3) every enum x every number in [-1, max+2]: Rust name <-> number mapping equals the schema's; (4) data/random_lp_instance.ommx decodes, validates, decodes identically under the independent decoder with zero unknown fields and re-encodes; \
         random = message type (all 31, chosen by the tape) x schema source {proto text, python descriptors} x random dynamic message (every field set/unset, nesting depth<=4, maps, each oneof arm and none, enum values incl. 0 and an undeclared number, extreme integers, UTF-8 strings, -0.0, subnormals, infinities) encoded by the independent encoder in a random legal layout (field order shuffled, packed/unpacked/split repeated scalars, map entry order and key/value order, omitted default key/value, explicit default scalars, unknown fields of all wire types incl. field number 2^29-1) -> Rust decode -> by-name projection == message -> Rust encode -> independent decode == message, no unknown fields, decode(encode(t)) == t; instances, parametric instances, states and sample sets additionally stored as a raw artifact layer (next to a foreign layer) and read back through the typed getters; \
         non-trivial = >=3 populated fields incl. a nested / map / oneof field, or a layout perturbation; distinct = sha256(bytes)"
    }
    fn required_labels(&self) -> Vec<String> {
        let mut v: Vec<String> = registry().iter().map(|e| format!("type={}", e.full)).collect();
        v.extend(["schema=proto", "schema=python", "unknown-field", "unpacked", "map", "deprecated-field", "oneof-unset", "oneof-set", "shuffled", "explicit-default", "enum-undeclared-number", "read-through-artifact-layer", "same-layer-stored-twice", "sweep=big-payloads", "payload>=16KiB", "big-payload-nested", "sweep=pre-1.6-sample-set", "sweep=typed-layer-blobs", "typed-layer-blob>=1MiB"].iter().map(|s| s.to_string()));
        v
    }
    fn cases(&self, tier: Tier) -> usize {
        match tier {
            Tier::Quick => 300_000,
            Tier::Thorough => 8_000_000,
        }
    }
    fn tape_max(&self) -> usize {
        768
    }
    fn assumptions(&self) -> Vec<String> {
        vec![
            "the Python runtime (google.protobuf) is not installed in this sandbox: the Python bindings are checked through their embedded serialized descriptors, which fully determine their wire behaviour".into(),
            "NaN is excluded from equality checks; -0.0 is kept out of implicit-presence doubles and map values (prost treats it as the default there, a quirk of the codec library)".into(),
            "byte-identical output is not required by protobuf and not asserted".into(),
        ]
    }
    fn sweep_len(&self, _tier: Tier) -> usize {
        5 + enum_registry().len() + 2
    }
    fn sweep_description(&self) -> Option<String> {
        Some("descriptor agreement (.proto text vs Python serialized descriptors vs #[prost] attributes), harness registry completeness, every enum value, the bundled old artifact, 1.6 and pre-1.6 sample sets, and every repeated / map field of every message type with 300 and 3000 elements (payloads up to tens of KiB), alone and nested in every message that can hold it".into())
    }
    fn sweep_case(&self, _tier: Tier, i: usize, ctx: &mut Ctx) -> PResult {
        let sc = schemas();
        let proto = match &sc.proto {
            Ok(s) => s,
            Err(e) => return fail("C07/proto-unreadable", format!("cannot parse the published schema {PROTO_DIR}: {e}")),
        };
        ctx.fp(&[i as u8]);
        ctx.nontrivial();
        match i {
            0 => {
                ctx.label("sweep=proto-vs-python");
                let py = match &sc.py {
                    Ok(s) => s,
                    Err(e) => return fail("C07/python-descriptor-unreadable", format!("cannot read the serialized descriptors in {PY_DIR}: {e}")),
                };
                ctx.sample_with(|| json!({"sweep": "descriptor agreement", "messages": proto.msgs.len(), "enums": proto.enums.len()}));
                if let Some(d) = first_schema_difference(proto, py, ".proto", "python descriptors") {
                    return fail("C07/schema-vs-python", format!("the Python bindings do not match the published schema: {d}"));
                }
                Ok(())
            }
            1 => {
                ctx.label("sweep=proto-vs-rust-attributes");
                let mut skipped = vec![];
                let r = check_rust_attrs_ex(proto, &mut skipped);
                for m in &skipped {
                    ctx.label(format!("static-comparison-skipped(hand-written impl):{m}"));
                }
                r
            }
            2 => {
                ctx.label("sweep=registry");
                // the harness must know every message of the schema and every field of it
                let reg = registry();
                for full in proto.msgs.keys() {
                    let Some(e) = reg.iter().find(|e| e.full == full) else {
                        inconclusive(&format!("C07: schema message {full} has no projection in the harness (harness out of date)"));
                    };
                    let have: BTreeSet<String> = (e.names)().iter().map(|s| s.to_string()).collect();
                    let want: BTreeSet<String> = proto.msgs[full].fields.iter().map(|f| f.name.clone()).collect();
                    if have != want {
                        // schema and Rust attributes agree (sweep 1), so this is the harness lagging behind, unless sweep 1 fails
                        if check_rust_attrs(proto).is_ok() {
                            inconclusive(&format!("C07: projection of {full} lists {have:?}, schema has {want:?} (harness out of date)"));
                        }
                        return fail("C07/rust-binding-vs-schema", format!("message {full}: schema fields {want:?}, Rust binding fields {have:?}"));
                    }
                }
                for e in &reg {
                    if !proto.msgs.contains_key(e.full) {
                        return fail("C07/schema-message-missing", format!("Rust binding {} has no message in the published schema", e.full));
                    }
                }
                Ok(())
            }
            3 => {
                ctx.label("sweep=old-artifact");
                let mut art = match ommx::artifact::Artifact::from_oci_archive(std::path::Path::new(OLD_ARTIFACT)) {
                    Ok(a) => a,
                    Err(e) => return fail("C07/old-artifact-unreadable", format!("{OLD_ARTIFACT}: {e:#}")),
                };
                let instances = match art.get_instances() {
                    Ok(v) => v,
                    Err(e) => return fail("C07/old-artifact-unreadable", format!("{OLD_ARTIFACT}: get_instances failed: {e:#}")),
                };
                if instances.is_empty() {
                    return fail("C07/old-artifact-empty", format!("{OLD_ARTIFACT} contains no instance layer"));
                }
                for (desc, inst) in instances {
                    if let Err(e) = inst.validate() {
                        return fail("C07/old-artifact-invalid", format!("instance in {OLD_ARTIFACT} does not validate: {e:#}"));
                    }
                    let digest = ommx::ocipkg::Digest::new(desc.digest()).map_err(|e| crate::driver::Failure { signature: "C07/old-artifact-digest".into(), message: format!("{e:#}") })?;
                    let (_d, blob) = art.get_layer(&digest).map_err(|e| crate::driver::Failure { signature: "C07/old-artifact-layer".into(), message: format!("{e:#}") })?;
                    let (dm, unknown) = match decode(proto, "ommx.v1.Instance", &blob) {
                        Ok(x) => x,
                        Err(e) => return fail("C07/old-artifact-independent-decode", format!("independent decoder rejects the stored instance: {e}")),
                    };
                    if unknown != 0 {
                        return fail("C07/old-artifact-unknown-fields", format!("{unknown} fields of the stored instance are unknown to the published schema"));
                    }
                    if dm != inst.to_dyn() {
                        return fail("C07/old-artifact-content", "stored instance decodes differently under the schema and under the Rust binding".to_string());
                    }
                    let re = inst.encode_to_vec();
                    match v1::Instance::decode(re.as_slice()) {
                        Ok(i2) if i2 == inst => {}
                        _ => return fail("C07/old-artifact-reencode", "re-encoding the stored instance does not round-trip".to_string()),
                    }
                    ctx.sample_with(|| json!({"sweep": "old artifact", "variables": inst.decision_variables.len(), "constraints": inst.constraints.len()}));
                }
                Ok(())
            }
            4 => {
                ctx.label("sweep=legacy-sample-set");
                // a SampleSet as release 1.6 wrote it (field 4 = feasibility for the remaining constraints,
                // deprecated field 6 = feasibility for all constraints, field 7 absent), produced by the
                // independent encoder, must be read with that meaning: set-level accessors and extracted solutions
                let mk_map = |v: &[(u64, bool)]| DV::Map(v.iter().map(|(k, b)| (DKey::U64(*k), DV::Bool(*b))).collect());
                let remaining = [(1u64, true), (2, true), (3, false)];
                let all = [(1u64, true), (2, false), (3, false)];
                let mut entry = |value: f64, ids: &[u64]| {
                    let mut e = DynMsg::new("ommx.v1.SampledValues.SampledValuesEntry");
                    e.f.insert("value".into(), DV::F64(value.to_bits()));
                    e.f.insert("ids".into(), DV::List(ids.iter().map(|i| DV::U64(*i)).collect()));
                    DV::Msg(e)
                };
                let mut objectives = DynMsg::new("ommx.v1.SampledValues");
                objectives.f.insert("entries".into(), DV::List(vec![entry(1.0, &[1]), entry(0.5, &[2]), entry(0.25, &[3])]));
                let mut d = DynMsg::new("ommx.v1.SampleSet");
                d.f.insert("objectives".into(), DV::Msg(objectives));
                d.f.insert("feasible".into(), mk_map(&remaining));
                d.f.insert("feasible_unrelaxed".into(), mk_map(&all));
                d.f.insert("sense".into(), DV::Enum(1));
                let bytes = encode(proto, &d, &EncLayout::default(), 0);
                let ss = match v1::SampleSet::decode(bytes.as_slice()) {
                    Ok(s) => s,
                    Err(e) => return fail("C07/legacy-sample-set/decode", format!("1.6-layout SampleSet rejected: {e}")),
                };
                ctx.sample_with(|| json!({"sweep": "1.6-layout SampleSet", "bytes_hex": crate::tape::to_hex(&bytes)}));
                for (id, fr) in remaining {
                    let fa = all.iter().find(|x| x.0 == id).unwrap().1;
                    if ss.feasible_relaxed().get(&id) != Some(&fr) || ss.feasible_unrelaxed().get(&id) != Some(&fa) {
                        return fail("C07/legacy-sample-set/accessors", format!("1.6-layout SampleSet: sample {id} should read remaining={fr} all={fa}, accessors give {:?} / {:?}", ss.feasible_relaxed().get(&id), ss.feasible_unrelaxed().get(&id)));
                    }
                    match ss.get(id) {
                        Ok(sol) => {
                            if sol.feasible_relaxed != Some(fr) || sol.feasible != fa {
                                return fail("C07/legacy-sample-set/extracted-solution", format!("1.6-layout SampleSet: sample {id} should read remaining={fr} all={fa}, the extracted solution says feasible_relaxed={:?} feasible={}", sol.feasible_relaxed, sol.feasible));
                            }
                        }
                        Err(e) => return fail("C07/legacy-sample-set/get", format!("get({id}) failed on a 1.6-layout SampleSet: {e:#}")),
                    }
                }
                // best feasible for all constraints is sample 1 (the only one), for the remaining ones sample 2 (0.5 < 1.0, minimise)
                if ss.best_feasible_unrelaxed_id().ok() != Some(1) || ss.best_feasible_id().ok() != Some(2) {
                    return fail("C07/legacy-sample-set/best", format!("1.6-layout SampleSet: best ids {:?} / {:?}, expected 2 / 1", ss.best_feasible_id().ok(), ss.best_feasible_unrelaxed_id().ok()));
                }
                // A SampleSet as releases BEFORE 1.6 wrote it: only field 4 (there were no removed constraints, so
                // `feasible` is the feasibility for the remaining = all constraints). Asserted narrowly: the
                // remaining-constraints view (accessor, feasible ids, best id) is that map. Nothing is asserted about the
                // all-constraints accessors, get() or num_samples() on this layout (sample_set.proto documents 1.6 and
                // 1.7 only).
                ctx.label("sweep=pre-1.6-sample-set");
                let mut objectives = DynMsg::new("ommx.v1.SampledValues");
                objectives.f.insert("entries".into(), DV::List(vec![entry(1.0, &[1]), entry(0.5, &[2]), entry(0.25, &[3])]));
                let mut d = DynMsg::new("ommx.v1.SampleSet");
                d.f.insert("objectives".into(), DV::Msg(objectives));
                d.f.insert("feasible".into(), mk_map(&remaining));
                d.f.insert("sense".into(), DV::Enum(1));
                let bytes = encode(proto, &d, &EncLayout::default(), 0);
                let ss = match v1::SampleSet::decode(bytes.as_slice()) {
                    Ok(s) => s,
                    Err(e) => return fail("C07/pre-1.6-sample-set/decode", format!("pre-1.6 SampleSet rejected: {e}")),
                };
                let want: std::collections::HashMap<u64, bool> = remaining.iter().copied().collect();
                if ss.feasible_relaxed() != &want {
                    return fail("C07/pre-1.6-sample-set/feasibility-lost", format!("pre-1.6 SampleSet (only `feasible` = {want:?}): feasibility for the remaining constraints reads {:?}", ss.feasible_relaxed()));
                }
                let ids: Vec<u64> = ss.feasible_ids().into_iter().collect();
                if ids != vec![1, 2] || ss.best_feasible_id().ok() != Some(2) {
                    return fail("C07/pre-1.6-sample-set/best", format!("pre-1.6 SampleSet: feasible ids {ids:?} (expected [1, 2]), best feasible id {:?} (expected 2)", ss.best_feasible_id().ok()));
                }
                Ok(())
            }
            k if k == 5 + enum_registry().len() => {
                ctx.nontrivial();
                big_payload_sweep(proto, ctx)
            }
            k if k == 6 + enum_registry().len() => {
                ctx.nontrivial();
                ctx.label("sweep=typed-layer-blobs");
                for nvars in [3usize, 60_000] {
                    if let Err(m) = typed_layer_blob_is_the_message(proto, nvars, ctx) {
                        if m.starts_with("infra:") {
                            inconclusive(&format!("C07 typed-layer sweep: {m}"));
                        }
                        return fail("C07/typed-layer-blob", format!("instance with {nvars} variables stored with add_instance: {m}"));
                    }
                }
                Ok(())
            }
            k => {
                let (name, to_name, from_name) = enum_registry()[k - 5];
                ctx.label(format!("sweep=enum:{name}"));
                let Some(vals) = proto.enums.get(name) else {
                    return fail("C07/enum-missing-in-schema", format!("Rust enum {name} is not in the published schema"));
                };
                let max = vals.iter().map(|v| v.1).max().unwrap_or(0);
                for i in -1..=(max + 2) {
                    let want = vals.iter().find(|v| v.1 == i).map(|v| v.0.as_str());
                    let got = to_name(i);
                    if got != want {
                        return fail("C07/enum-value", format!("enum {name}: number {i} is {want:?} in the schema but {got:?} in the Rust binding"));
                    }
                    if let Some(w) = want {
                        if from_name(w) != Some(i) {
                            return fail("C07/enum-name", format!("enum {name}: name {w} maps to {:?} in the Rust binding, schema says {i}", from_name(w)));
                        }
                    }
                }
                // the python descriptors carry the same values (also covered by sweep 0)
                ctx.sample_with(|| json!({"sweep": "enum", "enum": name, "values": format!("{:?}", vals)}));
                Ok(())
            }
        }
    }

    fn run(&self, t: &mut Tape, ctx: &mut Ctx) -> PResult {
        let reg = registry();
        let ti = t.choice(reg.len());
        let use_py = t.coin();
        let lbits = t.byte();
        let via_artifact = t.p(40);
        let shuffle: Vec<u8> = if lbits & 1 == 1 { (0..12).map(|_| t.byte()).collect() } else { vec![] };
        let layout = EncLayout { shuffle, unpacked: lbits & 2 != 0, split_runs: lbits & 4 != 0, explicit_defaults: lbits & 8 != 0, unknown_fields: lbits & 16 != 0, map_entry_swapped: lbits & 32 != 0 };
        let sc = schemas();
        let s = match if use_py { &sc.py } else { &sc.proto } {
            Ok(s) => s,
            Err(e) => return fail(if use_py { "C07/python-descriptor-unreadable" } else { "C07/proto-unreadable" }, e.to_string()),
        };
        ctx.label(if use_py { "schema=python" } else { "schema=proto" });
        let e = &reg[ti];
        ctx.label(format!("type={}", e.full));
        if !s.msgs.contains_key(e.full) {
            return fail("C07/schema-message-missing", format!("{} is not in the {} schema", e.full, if use_py { "python" } else { "proto" }));
        }
        let mut d = gen_msg(t, s, e.full, 0);
        fix_map_zero(&mut d, s);
        let bytes = encode(s, &d, &layout, 0);
        ctx.fp(&bytes);
        ctx.fp_str(e.full);
        let (nf, rich) = msg_stats(s, &d);
        if layout.unknown_fields {
            ctx.label("unknown-field");
        }
        if layout.unpacked {
            ctx.label("unpacked");
        }
        if !layout.shuffle.is_empty() {
            ctx.label("shuffled");
        }
        if layout.explicit_defaults {
            ctx.label("explicit-default");
        }
        label_features(s, &d, ctx);
        if (nf >= 3 && rich) || layout.unknown_fields || layout.unpacked || !layout.shuffle.is_empty() {
            ctx.nontrivial();
        }
        ctx.sample_with(|| json!({"type": e.full, "schema": if use_py {"python descriptors"} else {".proto text"}, "message": format!("{:?}", d), "bytes_hex": crate::tape::to_hex(&bytes), "layout": format!("{:?}", layout)}));
        let what = || format!("type {} (schema from {}), message {:?}, layout {:?}, bytes {}", e.full, if use_py { "python descriptors" } else { ".proto" }, d, layout, crate::tape::to_hex(&bytes));
        let (proj, re, rt_ok) = match (e.run)(&bytes) {
            Ok(x) => x,
            Err(err) => return fail(format!("C07/rust-decode-rejects/{}", e.full), format!("the Rust binding rejects bytes of a conforming encoder ({err}): {}", what())),
        };
        if proj != d {
            let diff = first_diff(&d, &proj);
            return fail(format!("C07/decoded-content/{}", e.full), format!("decoded content differs by name: {diff}\n {}", what()));
        }
        let (d2, unknown) = match decode(s, e.full, &re) {
            Ok(x) => x,
            Err(err) => return fail(format!("C07/rust-encoding-unreadable/{}", e.full), format!("bytes produced by the Rust binding are rejected by a schema-driven decoder ({err}): {}", what())),
        };
        if unknown != 0 {
            return fail(format!("C07/rust-encoding-unknown-fields/{}", e.full), format!("the Rust encoding contains {unknown} fields unknown to the schema: {}", what()));
        }
        if d2 != d {
            let diff = first_diff(&d, &d2);
            return fail(format!("C07/reencoded-content/{}", e.full), format!("content after Rust decode+encode differs: {diff}\n {}", what()));
        }
        if !rt_ok {
            return fail(format!("C07/prost-roundtrip/{}", e.full), format!("decode(encode(t)) != t: {}", what()));
        }
        // an artifact layer holding these bytes (written by another implementation or a newer release) is read by the
        // artifact getters with the same content as by a plain decode
        if via_artifact {
            if let Some(r) = layer_via_artifact(e.full, &bytes) {
                ctx.label("read-through-artifact-layer");
                if bytes.len() % 3 == 0 && (e.full == "ommx.v1.Instance" || e.full == "ommx.v1.State") {
                    ctx.label("same-layer-stored-twice");
                }
                if let Err(m) = r {
                    return fail(format!("C07/artifact-layer/{}", e.full), format!("{m}: {}", what()));
                }
            }
        }
        Ok(())
    }
}

/// The conformance check of one dynamic message of type `e.full`: independent encoder -> Rust binding -> by-name
/// projection; Rust encoder -> independent decoder; decode(encode(t)) == t.
fn roundtrip_check(s: &Schema, e: &Entry, d: &DynMsg, layout: &EncLayout, what: &dyn Fn() -> String) -> Result<Vec<u8>, crate::driver::Failure> {
    let bytes = encode(s, d, layout, 0);
    let mk = |sig: String, msg: String| crate::driver::Failure { signature: sig, message: msg };
    let (proj, re, rt_ok) = match (e.run)(&bytes) {
        Ok(x) => x,
        Err(err) => return Err(mk(format!("C07/rust-decode-rejects/{}", e.full), format!("the Rust binding rejects bytes of a conforming encoder ({err}): {}", what()))),
    };
    if &proj != d {
        let diff = first_diff(d, &proj);
        return Err(mk(format!("C07/decoded-content/{}", e.full), format!("decoded content differs by name: {diff}\n {}", what())));
    }
    let (d2, unknown) = match decode(s, e.full, &re) {
        Ok(x) => x,
        Err(err) => return Err(mk(format!("C07/rust-encoding-unreadable/{}", e.full), format!("bytes produced by the Rust binding are rejected by a schema-driven decoder ({err}): {}", what()))),
    };
    if unknown != 0 {
        return Err(mk(format!("C07/rust-encoding-unknown-fields/{}", e.full), format!("the Rust encoding contains {unknown} fields unknown to the schema: {}", what())));
    }
    if &d2 != d {
        let diff = first_diff(d, &d2);
        return Err(mk(format!("C07/reencoded-content/{}", e.full), format!("content after Rust decode+encode differs: {diff}\n {}", what())));
    }
    if !rt_ok {
        return Err(mk(format!("C07/prost-roundtrip/{}", e.full), format!("decode(encode(t)) != t: {}", what())));
    }
    Ok(bytes)
}

/// One element of a big repeated / map field, a pure function of its index.
fn big_scalar(s: &Schema, ty: &Ty, i: usize) -> DV {
    match ty {
        Ty::U64 => DV::U64([1u64, 127, 128, 300, 1 << 32, u64::MAX][i % 6] ^ ((i as u64) << 3)),
        Ty::I64 => DV::I64([1i64, -1, 63, -64, i64::MAX, i64::MIN][i % 6].wrapping_add(i as i64)),
        Ty::F64 => DV::F64((([1.0f64, -2.5, 0.1, 1e300, -1e-300][i % 5]) * (1.0 + (i % 7) as f64)).to_bits()),
        Ty::Bool => DV::Bool(i % 3 != 0),
        Ty::Str => DV::Str(format!("s{i}")),
        Ty::Enum(n) => DV::Enum(s.enums[n][i % s.enums[n].len()].1),
        Ty::Msg(_) => unreachable!(),
    }
}

/// Messages whose encoding runs to kilobytes / tens of kilobytes (a repeated or map field with `n` elements), alone and
/// inside every message that can hold them (so that their length prefix is written and read by the enclosing message).
fn big_payload_sweep(s: &Schema, ctx: &mut Ctx) -> PResult {
    let reg = registry();
    let layout = EncLayout::default();
    let mut cases = 0usize;
    for e in &reg {
        let desc = &s.msgs[e.full];
        for fd in &desc.fields {
            if fd.oneof.is_some() || !matches!(fd.label, Label::Repeated | Label::Map(..)) {
                continue;
            }
            for n in [300usize, 3000] {
                let mut d = DynMsg::new(e.full);
                match &fd.label {
                    Label::Repeated => {
                        let items: Vec<DV> = (0..n)
                            .map(|i| match &fd.ty {
                                Ty::Msg(mn) => DV::Msg(gen_msg(&mut Tape::new(&[(i % 251) as u8 + 1, (i / 251) as u8, 200, 7, (i % 13) as u8]), s, mn, 3)),
                                ty => big_scalar(s, ty, i),
                            })
                            .collect();
                        d.f.insert(fd.name.clone(), DV::List(items));
                    }
                    Label::Map(kt, vt) => {
                        let mut mm = BTreeMap::new();
                        for i in 0..n {
                            let k = match &**kt {
                                Ty::U64 => DV::U64(i as u64 + 1),
                                Ty::I64 => DV::I64(i as i64 + 1),
                                _ => DV::Str(format!("k{i}")),
                            };
                            let v = match &**vt {
                                Ty::Msg(mn) => DV::Msg(gen_msg(&mut Tape::new(&[(i % 251) as u8 + 1, 200, 9, (i % 11) as u8]), s, mn, 3)),
                                ty => big_scalar(s, ty, i + 1),
                            };
                            mm.insert(dkey(k).unwrap(), v);
                        }
                        d.f.insert(fd.name.clone(), DV::Map(mm));
                    }
                    _ => unreachable!(),
                }
                fix_map_zero(&mut d, s);
                let what = || format!("type {} with {n} elements in field {}", e.full, fd.name);
                let bytes = roundtrip_check(s, e, &d, &layout, &what)?;
                cases += 1;
                if bytes.len() >= 16 * 1024 {
                    ctx.label("payload>=16KiB");
                }
                // ... and inside every message that has a field of this type
                for pe in &reg {
                    for pf in &s.msgs[pe.full].fields {
                        if pf.ty != Ty::Msg(e.full.to_string()) || matches!(pf.label, Label::Map(..)) {
                            continue;
                        }
                        let mut pd = DynMsg::new(pe.full);
                        let v = if matches!(pf.label, Label::Repeated) { DV::List(vec![DV::Msg(d.clone()), DV::Msg(d.clone())]) } else { DV::Msg(d.clone()) };
                        pd.f.insert(pf.name.clone(), v);
                        let whatp = || format!("type {} holding in field {} a {} with {n} elements in field {}", pe.full, pf.name, e.full, fd.name);
                        roundtrip_check(s, pe, &pd, &layout, &whatp)?;
                        cases += 1;
                        ctx.label("big-payload-nested");
                    }
                }
            }
        }
    }
    ctx.label("sweep=big-payloads");
    ctx.sample_with(|| json!({"sweep": "big payloads", "messages_checked": cases}));
    Ok(())
}

/// What `Builder::add_instance` stores IS the protobuf message: another implementation reading the raw blob of the layer
/// (media type application/org.ommx.v1.instance) must find the schema's encoding there, whatever the size of the message;
/// the descriptor's size and digest are those of that blob.
fn typed_layer_blob_is_the_message(s: &Schema, nvars: usize, ctx: &mut Ctx) -> Result<(), String> {
    use ommx::artifact::{Artifact, Builder, InstanceAnnotations};
    use ommx::ocipkg::Digest;
    use sha2::Digest as _;
    let mut inst = v1::Instance::default();
    inst.sense = 1;
    let mut terms = vec![];
    for i in 0..nvars as u64 {
        let mut v = v1::DecisionVariable::default();
        v.id = i;
        v.kind = 1 + (i % 3) as i32;
        v.bound = Some(crate::mk::bound(-(i as f64) - 0.5, i as f64 + 1.25));
        v.name = Some(format!("x{i}"));
        inst.decision_variables.push(v);
        terms.push((i, 1.0 + (i % 7) as f64 * 0.5));
    }
    inst.objective = Some(crate::mk::flin(crate::mk::linear(terms, 2.5)));
    let dir = std::path::Path::new("/verif/target/tmp");
    let _ = std::fs::create_dir_all(dir);
    let path = dir.join(format!("c07-typed-{}-{nvars}.ommx", std::process::id()));
    let _ = std::fs::remove_file(&path);
    let r = (|| -> Result<(), String> {
        let mut b = Builder::new_archive_unnamed(path.clone()).map_err(|e| format!("infra: {e:#}"))?;
        b.add_instance(inst.clone(), InstanceAnnotations::default()).map_err(|e| format!("add_instance failed: {e:#}"))?;
        b.build().map_err(|e| format!("build failed: {e:#}"))?;
        let mut a = Artifact::from_oci_archive(&path).map_err(|e| format!("the archive cannot be re-opened: {e:#}"))?;
        let manifest = a.get_manifest().map_err(|e| format!("get_manifest failed: {e:#}"))?;
        let desc = manifest.layers().first().cloned().ok_or("no layer in the manifest")?;
        let digest = Digest::new(desc.digest()).map_err(|e| format!("infra: {e:#}"))?;
        let (d2, blob) = a.get_layer(&digest).map_err(|e| format!("get_layer failed: {e:#}"))?;
        if blob.len() >= 1 << 20 {
            ctx.label("typed-layer-blob>=1MiB");
        }
        if d2.size() as usize != blob.len() {
            return Err(format!("descriptor says {} bytes, the blob has {}", d2.size(), blob.len()));
        }
        let hex: String = sha2::Sha256::digest(&blob).iter().map(|b| format!("{b:02x}")).collect();
        if desc.digest() != &format!("sha256:{hex}") {
            return Err(format!("the layer is addressed as {} but its blob hashes to sha256:{hex}", desc.digest()));
        }
        // the blob under the schema, read by the independent decoder
        let (dm, unknown) = decode(s, "ommx.v1.Instance", &blob).map_err(|e| format!("the raw blob of the layer is not an ommx.v1.Instance message under the published schema ({e}); first bytes {:02x?}", &blob[..blob.len().min(8)]))?;
        if unknown != 0 {
            return Err(format!("the raw blob carries {unknown} fields unknown to the schema"));
        }
        let want = inst.to_dyn();
        if dm != want {
            return Err(format!("the raw blob decodes to other content than the stored instance: {}", first_diff(&want, &dm)));
        }
        let (got, _) = a.get_instance(&digest).map_err(|e| format!("get_instance failed: {e:#}"))?;
        if got != inst {
            return Err("get_instance returns other content than was stored".into());
        }
        Ok(())
    })();
    let _ = std::fs::remove_file(&path);
    r
}

/// Store `bytes` as a raw layer of the matching media type in a local archive, read it back through the typed
/// getters and compare with the plain decode. None = not a layer kind.
fn layer_via_artifact(full: &str, bytes: &[u8]) -> Option<Result<(), String>> {
    use ommx::artifact::{media_types, Artifact, Builder};
    use ommx::ocipkg::Digest;
    static N: std::sync::atomic::AtomicU64 = std::sync::atomic::AtomicU64::new(0);
    let mt = match full {
        "ommx.v1.Instance" => media_types::v1_instance(),
        "ommx.v1.ParametricInstance" => media_types::v1_parametric_instance(),
        "ommx.v1.State" => media_types::v1_solution(),
        "ommx.v1.SampleSet" => media_types::v1_sample_set(),
        _ => return None,
    };
    let dir = std::path::Path::new("/verif/target/tmp");
    let _ = std::fs::create_dir_all(dir);
    let path = dir.join(format!("c07-{}-{}.ommx", std::process::id(), N.fetch_add(1, std::sync::atomic::Ordering::SeqCst)));
    let _ = std::fs::remove_file(&path);
    let r = (|| -> Result<(), String> {
        let mut b = Builder::new_archive_unnamed(path.clone()).map_err(|e| format!("infra: {e:#}"))?;
        // (other implementations also put layers of their own media types into the same artifact)
        if bytes.len() % 2 == 0 {
            b.add_layer(ommx::ocipkg::oci_spec::image::MediaType::Other("application/json".to_string()), b"{}", std::collections::HashMap::new()).map_err(|e| format!("infra: {e:#}"))?;
        }
        let desc = b.add_layer(mt.clone(), bytes, std::collections::HashMap::new()).map_err(|e| format!("infra: {e:#}"))?;
        let digest = Digest::new(desc.digest()).map_err(|e| format!("infra: {e:#}"))?;
        // the same message stored a second time (two runs with the same result): every layer is read, also through the listing getters
        let copies = if bytes.len() % 3 == 0 { 2 } else { 1 };
        if copies == 2 {
            let mut ann = std::collections::HashMap::new();
            ann.insert("org.ommx.user.run".to_string(), "second".to_string());
            b.add_layer(mt, bytes, ann).map_err(|e| format!("infra: {e:#}"))?;
        }
        b.build().map_err(|e| format!("infra: {e:#}"))?;
        let mut a = Artifact::from_oci_archive(&path).map_err(|e| format!("infra: {e:#}"))?;
        macro_rules! cmp {
            ($ty:ty, $get:ident, $list:ident) => {{
                let want = <$ty>::decode(bytes).map_err(|e| format!("plain decode failed: {e}"))?;
                let (got, _) = a.$get(&digest).map_err(|e| format!("{} fails on a layer that a plain decode reads: {e:#}", stringify!($get)))?;
                if got != want {
                    return Err(format!("{} returns other content than a plain decode", stringify!($get)));
                }
                let all = a.$list().map_err(|e| format!("{} fails on a layer that a plain decode reads: {e:#}", stringify!($list)))?;
                if all.len() != copies || all.iter().any(|e| e.1 != want) {
                    return Err(format!("{} returns other content than a plain decode", stringify!($list)));
                }
            }};
        }
        match full {
            "ommx.v1.Instance" => cmp!(v1::Instance, get_instance, get_instances),
            "ommx.v1.State" => cmp!(v1::State, get_solution, get_solutions),
            "ommx.v1.ParametricInstance" => {
                let want = v1::ParametricInstance::decode(bytes).map_err(|e| format!("plain decode failed: {e}"))?;
                let (got, _) = a.get_parametric_instance(&digest).map_err(|e| format!("get_parametric_instance fails on a layer that a plain decode reads: {e:#}"))?;
                if got != want {
                    return Err("get_parametric_instance returns other content than a plain decode".into());
                }
            }
            _ => {
                let want = v1::SampleSet::decode(bytes).map_err(|e| format!("plain decode failed: {e}"))?;
                let (got, _) = a.get_sample_set(&digest).map_err(|e| format!("get_sample_set fails on a layer that a plain decode reads: {e:#}"))?;
                if got != want {
                    return Err("get_sample_set returns other content than a plain decode".into());
                }
            }
        }
        Ok(())
    })();
    let _ = std::fs::remove_file(&path);
    Some(match r {
        Err(m) if m.starts_with("infra:") => Ok(()), // could not build the archive: not this property's business
        other => other,
    })
}

fn label_features(s: &Schema, m: &DynMsg, ctx: &mut Ctx) {
    let desc = &s.msgs[&m.ty];
    let oneofs: BTreeSet<&String> = desc.fields.iter().filter_map(|f| f.oneof.as_ref()).collect();
    for o in oneofs {
        let set = desc.fields.iter().any(|f| f.oneof.as_ref() == Some(o) && m.f.contains_key(&f.name));
        ctx.label(if set { "oneof-set" } else { "oneof-unset" });
    }
    for (k, v) in &m.f {
        if k == "feasible_unrelaxed" {
            ctx.label("deprecated-field");
        }
        match v {
            DV::Map(mm) => {
                ctx.label("map");
                for x in mm.values() {
                    if let DV::Msg(y) = x {
                        label_features(s, y, ctx);
                    }
                }
            }
            DV::Msg(y) => label_features(s, y, ctx),
            DV::List(xs) => {
                for x in xs {
                    if let DV::Msg(y) = x {
                        label_features(s, y, ctx);
                    }
                }
            }
            DV::Enum(77) => ctx.label("enum-undeclared-number"),
            _ => {}
        }
    }
}

fn first_diff(a: &DynMsg, b: &DynMsg) -> String {
    let keys: BTreeSet<&String> = a.f.keys().chain(b.f.keys()).collect();
    for k in keys {
        match (a.f.get(k), b.f.get(k)) {
            (Some(x), Some(y)) if x == y => {}
            (Some(DV::Msg(x)), Some(DV::Msg(y))) => return format!("{}.{k} -> {}", a.ty, first_diff(x, y)),
            (x, y) => {
                let sx = format!("{x:?}");
                let sy = format!("{y:?}");
                return format!("{}.{k}: sent {} , read {}", a.ty, &sx[..sx.len().min(300)], &sy[..sy.len().min(300)]);
            }
        }
    }
    "no difference found".into()
}

/// Byte-level fuzz entry (libFuzzer target `wire_bytes`): arbitrary bytes against every message type.
/// If the Rust binding accepts them, its re-encoding must be readable under the published schema,
/// contain no field unknown to the schema, and carry exactly the content the binding holds by name.
pub fn fuzz_bytes(data: &[u8]) {
    let sc = schemas();
    let Ok(s) = &sc.proto else {
        eprintln!("FUZZ-FAILURE signature=C07/proto-unreadable");
        std::process::abort();
    };
    for e in registry() {
        let Ok((mut proj, re, _rt)) = (e.run)(data) else { continue };
        fix_map_zero(&mut proj, s);
        match decode(s, e.full, &re) {
            Ok((mut d, unknown)) => {
                fix_map_zero(&mut d, s);
                if unknown != 0 || d != proj {
                    eprintln!("FUZZ-FAILURE signature=C07/bytes/reencoded-content/{}\ninput {}\nre-encoded {}\nby name {:?}\nunder schema {:?} ({unknown} unknown fields)", e.full, crate::tape::to_hex(data), crate::tape::to_hex(&re), proj, d);
                    std::process::abort();
                }
            }
            Err(err) => {
                eprintln!("FUZZ-FAILURE signature=C07/bytes/rust-encoding-unreadable/{}\ninput {}\nre-encoded {}\n{err}", e.full, crate::tape::to_hex(data), crate::tape::to_hex(&re));
                std::process::abort();
            }
        }
    }
}
