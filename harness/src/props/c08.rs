//! C08 Validation accepts exactly the well-formed instances; typed view keeps content.

use crate::driver::{fail, Ctx, PResult, Property, Tier};
use crate::gen::func::*;
use crate::gen::inst::*;
use crate::exact::{q, Poly};
use crate::model::*;
use crate::props::c05::{describe_inst, fp_instance};
use crate::tape::Tape;
use ommx::parse::{Parse, ParseError, RawParseError};
use ommx::v1;
use serde_json::json;
use std::collections::{BTreeMap, BTreeSet, HashMap};

pub struct C08;

#[derive(Clone)]
struct Fault {
    name: String,
    kind: &'static str,
    /// one of validate()'s three rules
    validate_fails: bool,
    /// expected typed-conversion outcome: Some((error class, top-level field)) or None = not asserted
    typed: Option<(&'static str, &'static str)>,
    apply: std::sync::Arc<dyn Fn(&mut v1::Instance) + Send + Sync>,
}

fn fault(name: String, kind: &'static str, validate_fails: bool, typed: Option<(&'static str, &'static str)>, f: impl Fn(&mut v1::Instance) + Send + Sync + 'static) -> Fault {
    Fault { name, kind, validate_fails, typed, apply: std::sync::Arc::new(f) }
}

fn err_class(e: &RawParseError) -> &'static str {
    match e {
        RawParseError::UnsupportedV1Function => "UnsupportedV1Function",
        RawParseError::MissingField { .. } => "MissingField",
        RawParseError::UnspecifiedEnum { .. } => "UnspecifiedEnum",
        RawParseError::DuplicatedVariableID { .. } => "DuplicatedVariableID",
        RawParseError::DuplicatedConstraintID { .. } => "DuplicatedConstraintID",
        RawParseError::UndefinedVariableID { .. } => "UndefinedVariableID",
        RawParseError::UndefinedConstraintID { .. } => "UndefinedConstraintID",
        RawParseError::NonUniqueVariableID { .. } => "NonUniqueVariableID",
        RawParseError::NonUniqueConstraintID { .. } => "NonUniqueConstraintID",
        RawParseError::InvalidBound(_) => "InvalidBound",
        RawParseError::DecodeError(_) => "DecodeError",
    }
}

/// reported path, outermost first: contexts (stored innermost first) + the MissingField's own location
fn reported_path(e: &ParseError) -> Vec<(String, String)> {
    let mut p: Vec<(String, String)> = e.context.iter().rev().map(|c| (c.message.to_string(), c.field.to_string())).collect();
    if let RawParseError::MissingField { message, field } = &e.error {
        p.push((message.to_string(), field.to_string()));
    }
    p
}

/// `t % 3` selects the syntactic place; `t / 3` the coefficient: non-zero, explicit 0.0, explicit -0.0 (a term
/// with a zero coefficient still occurs in the message, so its id is used by the function: C01's id-set clause)
fn add_undefined(f: &mut Option<v1::Function>, id: u64, t: u8) {
    use v1::function::Function as F;
    let cur = f.take();
    let mut g = cur.unwrap_or_else(|| crate::mk::fconst(0.0));
    let (c1, c2) = match t / 3 {
        0 => (1.0, 2.0),
        1 => (0.0, 0.0),
        _ => (-0.0, -0.0),
    };
    match (&mut g.function, t % 3) {
        (Some(F::Linear(l)), _) => l.terms.push(crate::mk::term(id, c1)),
        (Some(F::Quadratic(q)), 0) => {
            q.rows.push(id);
            q.columns.push(id);
            q.values.push(c2);
        }
        (Some(F::Quadratic(q)), _) => match &mut q.linear {
            Some(l) => l.terms.push(crate::mk::term(id, c1)),
            None => q.linear = Some(crate::mk::linear(vec![(id, c1)], 0.0)),
        },
        (Some(F::Polynomial(p)), _) => p.terms.push(crate::mk::monomial(vec![id, id, id], c1)),
        (Some(F::Constant(c)), _) => {
            let c = *c;
            g = crate::mk::flin(crate::mk::linear(vec![(id, c1)], c));
        }
        _ => g = crate::mk::flin(crate::mk::linear(vec![(id, c1)], 0.0)),
    }
    *f = Some(g);
}

const UNDEF: u64 = 4_000_000_007;

fn enumerate_faults(base: &v1::Instance) -> Vec<Fault> {
    let mut v: Vec<Fault> = vec![];
    let nv = base.decision_variables.len();
    let na = base.constraints.len();
    let nr = base.removed_constraints.len();
    // duplicate variable id, every ordered pair position
    for i in 0..nv {
        for j in 0..nv {
            if i != j {
                v.push(fault(format!("dup-variable-id[{i}<-{j}]"), "dup-variable-id", true, Some(("DuplicatedVariableID", "decision_variables")), move |m| {
                    m.decision_variables[i].id = m.decision_variables[j].id;
                }));
            }
        }
    }
    for i in 0..na {
        for j in 0..na {
            if i != j {
                v.push(fault(format!("dup-constraint-id active[{i}]<-active[{j}]"), "dup-constraint-id@active", true, Some(("DuplicatedConstraintID", "constraints")), move |m| {
                    m.constraints[i].id = m.constraints[j].id;
                }));
            }
        }
        for j in 0..nr {
            v.push(fault(format!("dup-constraint-id removed[{j}]<-active[{i}]"), "dup-constraint-id@active/removed", true, Some(("DuplicatedConstraintID", "removed_constraints")), move |m| {
                let id = m.constraints[i].id;
                m.removed_constraints[j].constraint.as_mut().unwrap().id = id;
            }));
        }
    }
    for i in 0..nr {
        for j in 0..nr {
            if i != j {
                v.push(fault(format!("dup-constraint-id removed[{i}]<-removed[{j}]"), "dup-constraint-id@removed", true, Some(("DuplicatedConstraintID", "removed_constraints")), move |m| {
                    let id = m.removed_constraints[j].constraint.as_ref().unwrap().id;
                    m.removed_constraints[i].constraint.as_mut().unwrap().id = id;
                }));
            }
        }
    }
    // undefined ids at each position, three syntactic places
    for tpl in 0..9u8 {
        v.push(fault(format!("undefined-id objective/{tpl}"), if tpl < 3 { "undefined-id@objective" } else { "undefined-id@objective/zero-coefficient" }, true, None, move |m| add_undefined(&mut m.objective, UNDEF, tpl)));
        for i in 0..na {
            v.push(fault(format!("undefined-id constraint[{i}]/{tpl}"), "undefined-id@constraint", true, None, move |m| add_undefined(&mut m.constraints[i].function, UNDEF, tpl)));
        }
        for i in 0..nr {
            v.push(fault(format!("undefined-id removed[{i}]/{tpl}"), "undefined-id@removed", true, None, move |m| add_undefined(&mut m.removed_constraints[i].constraint.as_mut().unwrap().function, UNDEF, tpl)));
        }
    }
    // an undefined id that agrees with a defined one in its low 32 bits (block << 32 | index numbering)
    if let Some(r) = base.decision_variables.iter().map(|v| v.id).find(|id| *id < 64) {
        let alias = (1u64 << 32) + r;
        if !base.decision_variables.iter().any(|v| v.id == alias) {
            v.push(fault("undefined-id objective/alias".into(), "undefined-id@objective/aliases-defined-id-mod-2^32", true, None, move |m| add_undefined(&mut m.objective, alias, 1)));
            for i in 0..na {
                v.push(fault(format!("undefined-id constraint[{i}]/alias"), "undefined-id@constraint/aliases-defined-id-mod-2^32", true, None, move |m| add_undefined(&mut m.constraints[i].function, alias, 1)));
            }
        }
    }
    // an id that is used, not defined as a variable, but present as a key of the dependency map (as left behind when a
    // substituted variable is dropped from the variable list): still undefined
    v.push(fault("undefined-id objective + dependency key of the same id".into(), "undefined-id@objective/also-a-dependency-key", true, None, |m| {
        add_undefined(&mut m.objective, UNDEF, 1);
        m.decision_variable_dependency.insert(UNDEF, crate::mk::fconst(1.0));
    }));
    for i in 0..na {
        v.push(fault(format!("undefined-id constraint[{i}] + dependency key of the same id"), "undefined-id@constraint/also-a-dependency-key", true, None, move |m| {
            add_undefined(&mut m.constraints[i].function, UNDEF, 1);
            m.decision_variable_dependency.insert(UNDEF, crate::mk::fconst(1.0));
        }));
    }
    // an id that is used, not defined as a variable, but recorded as a key of `Instance.parameters` (the values an
    // earlier with_parameters call instantiated): parameters of an Instance are history, not definitions
    let with_param = |m: &mut v1::Instance| {
        let mut p = m.parameters.clone().unwrap_or_default();
        p.entries.insert(UNDEF, 2.0);
        m.parameters = Some(p);
    };
    v.push(fault("undefined-id objective + recorded parameter of the same id".into(), "undefined-id@objective/also-a-recorded-parameter", true, None, move |m| {
        add_undefined(&mut m.objective, UNDEF, 1);
        with_param(m);
    }));
    for i in 0..na {
        v.push(fault(format!("undefined-id constraint[{i}] + recorded parameter of the same id"), "undefined-id@constraint/also-a-recorded-parameter", true, None, move |m| {
            add_undefined(&mut m.constraints[i].function, UNDEF, 1);
            with_param(m);
        }));
    }
    for i in 0..nr {
        v.push(fault(format!("undefined-id removed[{i}] + recorded parameter of the same id"), "undefined-id@removed/also-a-recorded-parameter", true, None, move |m| {
            add_undefined(&mut m.removed_constraints[i].constraint.as_mut().unwrap().function, UNDEF, 1);
            with_param(m);
        }));
    }
    // required fields
    v.push(fault("sense-unspecified".into(), "unset-sense", false, Some(("UnspecifiedEnum", "sense")), |m| m.sense = 0));
    v.push(fault("objective-absent".into(), "unset-objective", false, Some(("MissingField", "objective")), |m| m.objective = None));
    v.push(fault("objective-oneof-unset".into(), "unset-objective-oneof", false, Some(("UnsupportedV1Function", "objective")), |m| m.objective = Some(crate::mk::func(None))));
    for i in 0..na {
        v.push(fault(format!("constraint[{i}].function-absent"), "unset-constraint-function", false, Some(("MissingField", "constraints")), move |m| m.constraints[i].function = None));
        v.push(fault(format!("constraint[{i}].function-oneof-unset"), "unset-constraint-function-oneof", false, Some(("UnsupportedV1Function", "constraints")), move |m| m.constraints[i].function = Some(crate::mk::func(None))));
        v.push(fault(format!("constraint[{i}].equality-unspecified"), "unset-equality", false, Some(("UnspecifiedEnum", "constraints")), move |m| m.constraints[i].equality = 0));
    }
    for i in 0..nr {
        v.push(fault(format!("removed[{i}].constraint-absent"), "unset-removed-constraint", false, Some(("MissingField", "removed_constraints")), move |m| m.removed_constraints[i].constraint = None));
        v.push(fault(format!("removed[{i}].function-absent"), "unset-removed-function", false, Some(("MissingField", "removed_constraints")), move |m| m.removed_constraints[i].constraint.as_mut().unwrap().function = None));
        v.push(fault(format!("removed[{i}].function-oneof-unset"), "unset-removed-function-oneof", false, Some(("UnsupportedV1Function", "removed_constraints")), move |m| m.removed_constraints[i].constraint.as_mut().unwrap().function = Some(crate::mk::func(None))));
        v.push(fault(format!("removed[{i}].equality-unspecified"), "unset-removed-equality", false, Some(("UnspecifiedEnum", "removed_constraints")), move |m| m.removed_constraints[i].constraint.as_mut().unwrap().equality = 0));
    }
    for i in 0..nv {
        v.push(fault(format!("variable[{i}].kind-unspecified"), "unset-kind", false, Some(("UnspecifiedEnum", "decision_variables")), move |m| m.decision_variables[i].kind = 0));
        let shapes: [(&'static str, f64, f64); 9] = [
            ("bound-nan-lower", f64::NAN, 1.0),
            ("bound-nan-upper", 0.0, f64::NAN),
            ("bound-lower=+inf", f64::INFINITY, f64::INFINITY),
            ("bound-upper=-inf", f64::NEG_INFINITY, f64::NEG_INFINITY),
            ("bound-lower>upper", 2.0, 1.0),
            // inverted by the smallest representable amounts
            ("bound-lower>upper-by-one-ulp", 1.0000000000000002, 1.0),
            ("bound-lower>upper-by-one-ulp", 0.30000000000000004, 0.3),
            ("bound-lower>upper-by-one-ulp", 5e-324, 0.0),
            ("bound-lower>upper-by-one-ulp", -1.0, -1.0000000000000002),
        ];
        for (nm, lo, hi) in shapes {
            v.push(fault(format!("variable[{i}].{nm}"), nm, false, Some(("InvalidBound", "decision_variables")), move |m| m.decision_variables[i].bound = Some(crate::mk::bound(lo, hi))));
        }
    }
    // hints
    if let Some(h) = &base.constraint_hints {
        for i in 0..h.one_hot_constraints.len() {
            v.push(fault(format!("one_hot[{i}].constraint-undefined"), "hint-undefined-constraint", false, Some(("UndefinedConstraintID", "constraint_hints")), move |m| m.constraint_hints.as_mut().unwrap().one_hot_constraints[i].constraint_id = 77_777_777));
            v.push(fault(format!("one_hot[{i}].variable-undefined"), "hint-undefined-variable", false, Some(("UndefinedVariableID", "constraint_hints")), move |m| m.constraint_hints.as_mut().unwrap().one_hot_constraints[i].decision_variables.push(UNDEF)));
            if !h.one_hot_constraints[i].decision_variables.is_empty() {
                v.push(fault(format!("one_hot[{i}].variable-repeated"), "hint-repeated-variable", false, Some(("NonUniqueVariableID", "constraint_hints")), move |m| {
                    let x = m.constraint_hints.as_ref().unwrap().one_hot_constraints[i].decision_variables[0];
                    m.constraint_hints.as_mut().unwrap().one_hot_constraints[i].decision_variables.push(x);
                }));
            }
        }
        for i in 0..h.sos1_constraints.len() {
            v.push(fault(format!("sos1[{i}].binary-constraint-undefined"), "hint-undefined-constraint", false, Some(("UndefinedConstraintID", "constraint_hints")), move |m| m.constraint_hints.as_mut().unwrap().sos1_constraints[i].binary_constraint_id = 77_777_777));
            v.push(fault(format!("sos1[{i}].big-m-undefined"), "hint-undefined-constraint", false, Some(("UndefinedConstraintID", "constraint_hints")), move |m| m.constraint_hints.as_mut().unwrap().sos1_constraints[i].big_m_constraint_ids.push(77_777_778)));
            if !h.sos1_constraints[i].big_m_constraint_ids.is_empty() {
                v.push(fault(format!("sos1[{i}].big-m-repeated"), "hint-repeated-big-m", false, Some(("NonUniqueConstraintID", "constraint_hints")), move |m| {
                    let x = m.constraint_hints.as_ref().unwrap().sos1_constraints[i].big_m_constraint_ids[0];
                    m.constraint_hints.as_mut().unwrap().sos1_constraints[i].big_m_constraint_ids.push(x);
                }));
            }
            v.push(fault(format!("sos1[{i}].variable-undefined"), "hint-undefined-variable", false, Some(("UndefinedVariableID", "constraint_hints")), move |m| m.constraint_hints.as_mut().unwrap().sos1_constraints[i].decision_variables.push(UNDEF)));
            if !h.sos1_constraints[i].decision_variables.is_empty() {
                v.push(fault(format!("sos1[{i}].variable-repeated"), "hint-repeated-variable", false, Some(("NonUniqueVariableID", "constraint_hints")), move |m| {
                    let x = m.constraint_hints.as_ref().unwrap().sos1_constraints[i].decision_variables[0];
                    m.constraint_hints.as_mut().unwrap().sos1_constraints[i].decision_variables.push(x);
                }));
            }
        }
    }
    // a hint added to any base (also one without hints, also one without active constraints) that names a
    // constraint / variable defined nowhere
    {
        let kind: &'static str = if na == 0 { "hint-added-undefined-constraint@no-active-constraints" } else { "hint-added-undefined-constraint" };
        let first_var = base.decision_variables.first().map(|v| v.id);
        v.push(fault("one_hot-added.constraint-undefined".into(), kind, false, Some(("UndefinedConstraintID", "constraint_hints")), move |m| {
            let mut oh = v1::OneHot::default();
            oh.constraint_id = 77_777_779;
            oh.decision_variables = first_var.into_iter().collect();
            m.constraint_hints.get_or_insert_with(Default::default).one_hot_constraints.push(oh);
        }));
        v.push(fault("sos1-added.constraint-undefined".into(), kind, false, Some(("UndefinedConstraintID", "constraint_hints")), move |m| {
            let mut sos = v1::Sos1::default();
            sos.binary_constraint_id = 77_777_780;
            sos.big_m_constraint_ids = vec![77_777_781];
            sos.decision_variables = first_var.into_iter().collect();
            m.constraint_hints.get_or_insert_with(Default::default).sos1_constraints.push(sos);
        }));
    }
    // dependencies
    v.push(fault("dependency-key-undefined".into(), "dependency-key-undefined", false, Some(("UndefinedVariableID", "decision_variable_dependency")), |m| {
        m.decision_variable_dependency.insert(UNDEF + 1, crate::mk::fconst(1.0));
    }));
    let mut dkeys: Vec<u64> = base.decision_variable_dependency.keys().copied().collect();
    dkeys.sort_unstable();
    for k in dkeys {
        v.push(fault(format!("dependency[{k}].function-oneof-unset"), "dependency-function-unset", false, Some(("UnsupportedV1Function", "decision_variable_dependency")), move |m| {
            m.decision_variable_dependency.insert(k, crate::mk::func(None));
        }));
    }
    v
}

fn smap(m: &HashMap<String, String>) -> BTreeMap<String, String> {
    m.iter().map(|(k, v)| (k.clone(), v.clone())).collect()
}

/// "the typed view carries the same content": the same polynomial, coefficient for coefficient (exact). Which container
/// holds it, and whether terms with coefficient 0 are kept, is representation, not content.
fn typed_function_matches(t: &ommx::Function, f: &v1::Function) -> bool {
    let tp = match t {
        ommx::Function::Constant(a) => Poly::constant(q(*a)),
        ommx::Function::Linear(a) => Poly::from_linear(a),
        ommx::Function::Quadratic(a) => Poly::from_quadratic(a),
        ommx::Function::Polynomial(a) => Poly::from_polynomial(a),
    };
    tp == Poly::from_function(f)
}

fn check_typed_constraint(sig: &str, t: &ommx::Constraint, c: &v1::Constraint) -> PResult {
    let eq_ok = matches!((t.equality, c.equality), (ommx::Equality::EqualToZero, EQ_ZERO) | (ommx::Equality::LessThanOrEqualToZero, LE_ZERO));
    let ok = *t.id == c.id && eq_ok && c.function.as_ref().map(|f| typed_function_matches(&t.function, f)).unwrap_or(false) && t.name == c.name && t.subscripts == c.subscripts && smap(&t.parameters) == smap(&c.parameters) && t.description == c.description;
    if !ok {
        return fail(format!("{sig}/constraint-content"), format!("typed constraint {t:?} does not carry the content of {c:?}"));
    }
    Ok(())
}

/// typed view of a valid message carries the same content
fn check_typed_content(inst: &v1::Instance) -> PResult {
    let dvs = match inst.decision_variables.clone().parse(&()) {
        Ok(x) => x,
        Err(e) => return fail("C08/valid/variables-rejected", format!("typed parse of decision variables failed: {e}")),
    };
    if dvs.len() != inst.decision_variables.len() {
        return fail("C08/valid/variable-count", "typed variable map has a different size".to_string());
    }
    for v in &inst.decision_variables {
        let Some(tv) = dvs.get(&ommx::VariableID::from(v.id)) else {
            return fail("C08/valid/variable-missing", format!("variable {} missing in the typed view", v.id));
        };
        let kind_ok = matches!(
            (tv.kind, v.kind),
            (ommx::Kind::Binary, 1) | (ommx::Kind::Integer, 2) | (ommx::Kind::Continuous, 3) | (ommx::Kind::SemiInteger, 4) | (ommx::Kind::SemiContinuous, 5)
        );
        let (lo, hi) = match &v.bound {
            Some(b) => (b.lower, b.upper),
            None => {
                if v.kind == KIND_BINARY {
                    (0.0, 1.0)
                } else {
                    (f64::NEG_INFINITY, f64::INFINITY)
                }
            }
        };
        if tv.bound.lower() != lo || tv.bound.upper() != hi {
            let what = if v.bound.is_none() { "absent-bound" } else { "bound" };
            return fail(
                format!("C08/valid/typed-{what}"),
                format!("variable {} (kind {}) has bound {:?} in the message but the typed view says [{}, {}]; an unspecified bound means unbounded ([0,1] for binaries)", v.id, v.kind, v.bound.as_ref().map(|b| (b.lower, b.upper)), tv.bound.lower(), tv.bound.upper()),
            );
        }
        let ok = kind_ok && *tv.id == v.id && tv.substituted_value == v.substituted_value && tv.name == v.name && tv.subscripts == v.subscripts && smap(&tv.parameters) == smap(&v.parameters) && tv.description == v.description;
        if !ok {
            return fail("C08/valid/variable-content", format!("typed variable {tv:?} does not carry the content of {v:?}"));
        }
    }
    let cons = match inst.constraints.clone().parse(&()) {
        Ok(x) => x,
        Err(e) => return fail("C08/valid/constraints-rejected", format!("typed parse of constraints failed: {e}")),
    };
    if cons.len() != inst.constraints.len() {
        return fail("C08/valid/constraint-count", "typed constraint map has a different size".to_string());
    }
    for c in &inst.constraints {
        let Some(tc) = cons.get(&ommx::ConstraintID::from(c.id)) else {
            return fail("C08/valid/constraint-missing", format!("constraint {} missing in the typed view", c.id));
        };
        check_typed_constraint("C08/valid", tc, c)?;
    }
    let rem = match inst.removed_constraints.clone().parse(&cons) {
        Ok(x) => x,
        Err(e) => return fail("C08/valid/removed-rejected", format!("typed parse of removed constraints failed: {e}")),
    };
    if rem.len() != inst.removed_constraints.len() {
        return fail("C08/valid/removed-count", "typed removed-constraint map has a different size".to_string());
    }
    for rc in &inst.removed_constraints {
        let c = rc.constraint.as_ref().unwrap();
        let Some(tr) = rem.get(&ommx::ConstraintID::from(c.id)) else {
            return fail("C08/valid/removed-missing", format!("removed constraint {} missing in the typed view", c.id));
        };
        check_typed_constraint("C08/valid/removed", &tr.constraint, c)?;
        if tr.removed_reason != rc.removed_reason || smap(&tr.removed_reason_parameters) != smap(&rc.removed_reason_parameters) {
            return fail("C08/valid/removed-reason", format!("typed removed constraint {} lost its reason", c.id));
        }
    }
    if let Some(h) = &inst.constraint_hints {
        let ctxp = (dvs, cons);
        match h.clone().parse(&ctxp) {
            Ok(th) => {
                if th.one_hot_constraints.len() != h.one_hot_constraints.len() || th.sos1_constraints.len() != h.sos1_constraints.len() {
                    return fail("C08/valid/hints-count", "typed hints have a different size".to_string());
                }
                for (a, b) in th.one_hot_constraints.iter().zip(h.one_hot_constraints.iter()) {
                    let vs: BTreeSet<u64> = a.variables.iter().map(|x| **x).collect();
                    if *a.id != b.constraint_id || vs != b.decision_variables.iter().copied().collect() {
                        return fail("C08/valid/hints-content", format!("typed one-hot {a:?} vs {b:?}"));
                    }
                }
                for (a, b) in th.sos1_constraints.iter().zip(h.sos1_constraints.iter()) {
                    let vs: BTreeSet<u64> = a.variables.iter().map(|x| **x).collect();
                    let ms: BTreeSet<u64> = a.big_m_constraint_ids.iter().map(|x| **x).collect();
                    if *a.binary_constraint_id != b.binary_constraint_id || vs != b.decision_variables.iter().copied().collect() || ms != b.big_m_constraint_ids.iter().copied().collect() {
                        return fail("C08/valid/hints-content", format!("typed sos1 {a:?} vs {b:?}"));
                    }
                }
            }
            Err(e) => return fail("C08/valid/hints-rejected", format!("typed parse of hints failed: {e}")),
        }
    }
    Ok(())
}

fn check_faulted(base: &v1::Instance, faults: &[&Fault], ctx: &mut Ctx) -> PResult {
    let mut m = base.clone();
    for f in faults {
        (f.apply)(&mut m);
    }
    let names: Vec<&str> = faults.iter().map(|f| f.name.as_str()).collect();
    let what = || format!("fault(s) {names:?} applied to valid instance {}", describe_inst(base));
    // validate(): fails iff one of its three rules is broken
    let expect_validate_fail = faults.iter().any(|f| f.validate_fails);
    let v = m.validate();
    match (expect_validate_fail, &v) {
        (true, Ok(())) => return fail(format!("C08/validate-accepted/{}", faults.iter().find(|f| f.validate_fails).unwrap().kind), format!("validate() accepted: {}", what())),
        (false, Err(e)) => return fail(format!("C08/validate-rejected-wellformed-ids/{}", faults[0].kind), format!("validate() failed ({e:#}) although ids are unique and defined: {}", what())),
        _ => {}
    }
    // typed conversion
    let asserted: Vec<&&Fault> = faults.iter().filter(|f| f.typed.is_some()).collect();
    let r = ommx::Instance::try_from(m.clone());
    if asserted.is_empty() {
        ctx.label(format!("typed-on-undefined-id={}", if r.is_ok() { "accepted" } else { "rejected" }));
        return Ok(());
    }
    match r {
        Ok(_) => fail(format!("C08/typed-accepted/{}", asserted[0].kind), format!("Instance::try_from accepted: {}", what())),
        Err(e) => {
            let class = err_class(&e.error);
            let path = reported_path(&e);
            let top = path.first().cloned();
            let matches_one = asserted.iter().any(|f| {
                let (c, t) = f.typed.unwrap();
                class == c && top.as_ref().map(|p| p.0 == "ommx.v1.Instance" && p.1 == t).unwrap_or(false)
            });
            // with an un-asserted fault in the mix (an undefined id somewhere) the conversion may stop at that one
            // first, with whatever class it reports for it
            let unasserted_in_mix = faults.iter().any(|f| f.typed.is_none());
            if !matches_one && !unasserted_in_mix {
                return fail(
                    format!("C08/typed-wrong-report/{}", asserted[0].kind),
                    format!("Instance::try_from reported {class} at path {path:?}; expected one of {:?}: {}", asserted.iter().map(|f| f.typed.unwrap()).collect::<Vec<_>>(), what()),
                );
            }
            // nested message names must be in order (outermost first) and start at the instance
            if path.is_empty() || path[0].0 != "ommx.v1.Instance" {
                return fail("C08/typed-path-root", format!("error path {path:?} does not start at ommx.v1.Instance: {}", what()));
            }
            Ok(())
        }
    }
}

const BIG_BASES: [(usize, usize); 5] = [(15, 16), (17, 18), (18, 17), (33, 32), (20, 33)];

impl Property for C08 {
    fn id(&self) -> &'static str {
        "C08"
    }
    fn rule(&self) -> &'static str {
        "case = valid base instance (removed constraints, one-hot / SOS1 hints on active constraints, dependencies, parameters, all bound shapes) -> (1) accepted by validate() and by the typed conversion, typed content compared field by field through the public Parse impls, permutation of repeated fields gives an equal typed instance; (2) EVERY single fault at EVERY position of that base (duplicate ids at each pair position, undefined id in objective / each constraint / each removed constraint in three syntactic places with a non-zero, 0.0 and -0.0 coefficient, each required field unset, each invalid bound shape (NaN, wrong-side infinity, lower > upper by 1 or by one ulp) on each variable, each hint / dependency fault) and tape-chosen pairs; (3) the ParametricInstance analogue for validate(); \
         oracle = independent well-formedness predicate with expected error class and outermost path; non-trivial = base with a hint, a removed constraint and an absent bound, or a base that admits at least one fault; one evaluation = one base together with ALL its single faults (typically 40-150 faulted messages) and up to 6 pairs; distinct = sha256(base)"
    }
    fn required_labels(&self) -> Vec<String> {
        let mut v: Vec<String> = [
            "dup-variable-id", "dup-constraint-id@active", "dup-constraint-id@active/removed", "dup-constraint-id@removed", "undefined-id@objective", "undefined-id@constraint", "undefined-id@removed", "unset-sense", "unset-objective",
            "unset-objective-oneof", "unset-constraint-function", "unset-constraint-function-oneof", "unset-equality", "unset-removed-constraint", "unset-removed-function", "unset-removed-function-oneof", "unset-removed-equality", "unset-kind",
            "bound-nan-lower", "bound-nan-upper", "bound-lower=+inf", "bound-upper=-inf", "bound-lower>upper", "bound-lower>upper-by-one-ulp", "undefined-id@objective/zero-coefficient", "undefined-id@objective/aliases-defined-id-mod-2^32", "undefined-id@objective/also-a-dependency-key", "undefined-id@objective/also-a-recorded-parameter", "undefined-id@removed/also-a-recorded-parameter", "hint-undefined-constraint", "hint-added-undefined-constraint", "hint-added-undefined-constraint@no-active-constraints", "hint-undefined-variable", "hint-repeated-variable", "hint-repeated-big-m", "dependency-key-undefined",
            "dependency-function-unset",
        ]
        .iter()
        .map(|s| format!("fault={s}"))
        .collect();
        v.extend(["pair", "valid-base", "permuted", "parametric", "bound=absent", "bound=absent-binary", "hints", "content-sensitivity", "bound=signed-zero", "sweep=big-base"].iter().map(|s| s.to_string()));
        v
    }
    fn sweep_len(&self, _tier: Tier) -> usize {
        BIG_BASES.len()
    }
    fn sweep_description(&self) -> Option<String> {
        Some("bases with 15..33 variables and 15..33 constraints (part of them removed): accepted as they are; every ordered pair of positions for a duplicated variable id and for a duplicated constraint id rejected by validate() and by the typed conversion".into())
    }
    fn sweep_case(&self, _tier: Tier, i: usize, ctx: &mut Ctx) -> PResult {
        let (nv, nc) = BIG_BASES[i];
        ctx.label("sweep=big-base");
        ctx.nontrivial();
        ctx.fp_dbg(&("big-base", nv, nc));
        ctx.sample_with(|| json!({"sweep": "big base", "variables": nv, "constraints": nc}));
        let mut base = v1::Instance::default();
        base.sense = SENSE_MIN;
        for k in 0..nv as u64 {
            let mut v = v1::DecisionVariable::default();
            v.id = 2 * k + 1;
            v.kind = [KIND_CONTINUOUS, KIND_INTEGER, KIND_BINARY][k as usize % 3];
            base.decision_variables.push(v);
        }
        base.objective = Some(crate::mk::flin(crate::mk::linear(vec![(1, 1.0)], 0.0)));
        let n_removed = nc / 5;
        for j in 0..nc as u64 {
            let mut c = v1::Constraint::default();
            c.id = 3 * j + 2;
            c.equality = if j % 2 == 0 { EQ_ZERO } else { LE_ZERO };
            c.function = Some(crate::mk::flin(crate::mk::linear(vec![(2 * (j % nv as u64) + 1, 1.0)], -(j as f64))));
            if (j as usize) < nc - n_removed {
                base.constraints.push(c);
            } else {
                let mut rc = v1::RemovedConstraint::default();
                rc.constraint = Some(c);
                rc.removed_reason = "relaxed".into();
                base.removed_constraints.push(rc);
            }
        }
        if let Err(e) = base.validate() {
            return fail("C08/big-base/valid-rejected", format!("validate() rejected the well-formed big base ({nv} variables, {nc} constraints): {e:#}"));
        }
        if let Err(e) = ommx::Instance::try_from(base.clone()) {
            return fail("C08/big-base/typed-rejected", format!("typed conversion rejected the well-formed big base ({nv} variables, {nc} constraints): {e:?}"));
        }
        let na = base.constraints.len();
        // duplicated constraint id: position a takes the id of position b (positions count active first, then removed)
        let cid = |m: &v1::Instance, p: usize| if p < na { m.constraints[p].id } else { m.removed_constraints[p - na].constraint.as_ref().unwrap().id };
        for a in 0..nc {
            for b in 0..nc {
                if a == b {
                    continue;
                }
                let mut m = base.clone();
                let id = cid(&m, b);
                if a < na {
                    m.constraints[a].id = id;
                } else {
                    m.removed_constraints[a - na].constraint.as_mut().unwrap().id = id;
                }
                if m.validate().is_ok() {
                    return fail("C08/big-base/validate-accepted/dup-constraint-id", format!("validate() accepted a duplicated constraint id: position {a} <- id of position {b} in a base with {na} active and {} removed constraints", nc - na));
                }
                if (a + 3 * b) % 7 == 0 && ommx::Instance::try_from(m).is_ok() {
                    return fail("C08/big-base/typed-accepted/dup-constraint-id", format!("typed conversion accepted a duplicated constraint id: position {a} <- id of position {b}"));
                }
            }
        }
        for a in 0..nv {
            for b in 0..nv {
                if a == b {
                    continue;
                }
                let mut m = base.clone();
                m.decision_variables[a].id = m.decision_variables[b].id;
                if m.validate().is_ok() {
                    return fail("C08/big-base/validate-accepted/dup-variable-id", format!("validate() accepted a duplicated variable id: position {a} <- id of position {b} of {nv}"));
                }
                if (a + 3 * b) % 7 == 0 && ommx::Instance::try_from(m).is_ok() {
                    return fail("C08/big-base/typed-accepted/dup-variable-id", format!("typed conversion accepted a duplicated variable id: position {a} <- id of position {b}"));
                }
            }
        }
        Ok(())
    }
    fn cases(&self, tier: Tier) -> usize {
        match tier {
            Tier::Quick => 8_000,
            Tier::Thorough => 150_000,
        }
    }
    fn tape_max(&self) -> usize {
        640
    }
    fn assumptions(&self) -> Vec<String> {
        vec![
            "whether the typed conversion rejects an undefined variable id inside a function is not asserted (the statement lists it under validation; the outcome is recorded as a label)".into(),
            "hints refer to active constraints".into(),
        ]
    }

    fn run(&self, t: &mut Tape, ctx: &mut Ctx) -> PResult {
        let regime = Regime::Dyadic;
        let pair_picks: Vec<(u16, u16)> = (0..6).map(|_| (t.u16(), t.u16())).collect();
        let perm_seed: Vec<u8> = (0..12).map(|_| t.byte()).collect();
        let mut cfg = InstCfg::new(regime);
        cfg.hints = true;
        cfg.allow_absent_function = false;
        cfg.func.max_terms = 4;
        cfg.max_vars = 5;
        // all five kinds of the schema (semi-integer, semi-continuous included)
        cfg.kinds.extend([4, 5]);
        let gi = gen_instance(t, &cfg, ctx);
        let base = gi.inst.clone();
        fp_instance(ctx, &base);
        ctx.label("valid-base");
        let has_absent = base.decision_variables.iter().any(|v| v.bound.is_none());
        if base.constraint_hints.is_some() && !base.removed_constraints.is_empty() && has_absent {
            ctx.nontrivial();
        }
        ctx.sample_with(|| json!({"base": describe_inst(&base), "hints": format!("{:?}", base.constraint_hints)}));
        // (1) valid base
        if let Err(e) = base.validate() {
            return fail("C08/valid/validate-rejected", format!("validate() rejected a well-formed instance: {e:#}\n {}", describe_inst(&base)));
        }
        let typed = match ommx::Instance::try_from(base.clone()) {
            Ok(x) => x,
            Err(e) => return fail("C08/valid/typed-rejected", format!("Instance::try_from rejected a well-formed instance: {e}\n {}", describe_inst(&base))),
        };
        check_typed_content(&base).map_err(|mut f| {
            f.message = format!("{}\n {}", f.message, describe_inst(&base));
            f
        })?;
        // permutation of repeated fields gives an equal typed instance
        {
            ctx.label("permuted");
            let mut p = base.clone();
            let mut tp = Tape::new(&perm_seed);
            tp.shuffle(&mut p.decision_variables);
            tp.shuffle(&mut p.constraints);
            tp.shuffle(&mut p.removed_constraints);
            if p.decision_variables.len() >= 2 {
                p.decision_variables.reverse();
            }
            match ommx::Instance::try_from(p) {
                Ok(tp2) => {
                    if tp2 != typed {
                        return fail("C08/valid/permutation-changes-typed", format!("permuting repeated fields changed the typed instance: {}", describe_inst(&base)));
                    }
                }
                Err(e) => return fail("C08/valid/permutation-rejected", format!("permuted message rejected: {e}")),
            }
        }
        // content sensitivity: the typed instance must change whenever a content field of the message changes
        // (a conversion that silently drops a field would map both messages to the same typed value)
        {
            ctx.label("content-sensitivity");
            let mut variants: Vec<(&str, v1::Instance)> = vec![];
            let mut m = base.clone();
            m.sense = if m.sense == SENSE_MIN { SENSE_MAX } else { SENSE_MIN };
            variants.push(("sense", m));
            let mut m = base.clone();
            m.objective = Some(crate::mk::flin(crate::mk::linear(vec![], 987.125)));
            variants.push(("objective", m));
            let mut m = base.clone();
            let mut d = m.description.clone().unwrap_or_default();
            d.name = Some("another name".into());
            m.description = Some(d);
            variants.push(("description", m));
            let mut m = base.clone();
            let mut p = m.parameters.clone().unwrap_or_default();
            p.entries.insert(424242, 0.5);
            m.parameters = Some(p);
            variants.push(("parameters", m));
            if let Some(k) = base.decision_variable_dependency.keys().min().copied() {
                let mut m = base.clone();
                m.decision_variable_dependency.insert(k, crate::mk::fconst(-77.5));
                variants.push(("decision_variable_dependency", m));
            }
            if !base.constraints.is_empty() {
                let mut m = base.clone();
                m.constraints[0].name = Some("renamed constraint".into());
                variants.push(("constraints[0].name", m));
                let mut m = base.clone();
                m.constraints[0].equality = if m.constraints[0].equality == EQ_ZERO { LE_ZERO } else { EQ_ZERO };
                variants.push(("constraints[0].equality", m));
            }
            if !base.removed_constraints.is_empty() {
                let mut m = base.clone();
                m.removed_constraints[0].removed_reason = "a different reason".into();
                variants.push(("removed_constraints[0].removed_reason", m));
            }
            if !base.decision_variables.is_empty() {
                let mut m = base.clone();
                let v = &mut m.decision_variables[0];
                v.substituted_value = Some(v.substituted_value.map(|x| x + 1.0).unwrap_or(0.25));
                variants.push(("decision_variables[0].substituted_value", m));
                let mut m = base.clone();
                m.decision_variables[0].description = Some("changed description".into());
                variants.push(("decision_variables[0].description", m));
            }
            if let Some(h) = &base.constraint_hints {
                if !h.one_hot_constraints.is_empty() && h.one_hot_constraints[0].decision_variables.len() >= 2 {
                    let mut m = base.clone();
                    m.constraint_hints.as_mut().unwrap().one_hot_constraints[0].decision_variables.pop();
                    variants.push(("constraint_hints.one_hot_constraints[0].decision_variables", m));
                }
            }
            for (what, m) in variants {
                match ommx::Instance::try_from(m) {
                    Ok(t2) => {
                        if t2 == typed {
                            return fail(format!("C08/valid/typed-ignores/{}", what.split('[').next().unwrap_or(what)), format!("changing {what} of the message does not change the typed instance: {}", describe_inst(&base)));
                        }
                    }
                    Err(e) => return fail("C08/valid/variant-rejected", format!("a well-formed variant (changed {what}) was rejected: {e}")),
                }
            }
        }
        // (2) every single fault at every position
        let faults = enumerate_faults(&base);
        for f in &faults {
            ctx.label(format!("fault={}", f.kind));
            check_faulted(&base, &[f], ctx)?;
        }
        ctx.nontrivial_if(!faults.is_empty());
        // pairs
        for (a, b) in &pair_picks {
            if faults.len() < 2 {
                break;
            }
            let i = (*a as usize * faults.len()) >> 16;
            let j = (*b as usize * faults.len()) >> 16;
            if i == j {
                continue;
            }
            // skip pairs that address the same part of the message (the second edit could undo or mask the first)
            let (fa, fb) = (&faults[i], &faults[j]);
            let ta = targets(&fa.name);
            let tb = targets(&fb.name);
            if ta.iter().any(|x| tb.contains(x)) {
                continue;
            }
            ctx.label("pair");
            check_faulted_pair(&base, fa, fb, ctx)?;
        }
        // (3) parametric analogue (validate only)
        {
            ctx.label("parametric");
            let mut pi: v1::ParametricInstance = base.clone().into();
            // move one used variable to the parameters
            if let Some(pid) = gi.used_pool.first().copied() {
                pi.decision_variables.retain(|v| v.id != pid);
                let mut p = v1::Parameter::default();
                p.id = pid;
                pi.parameters.push(p);
                // removed constraints / dependencies / hints may mention it; validation only covers objective + active constraints
            }
            if let Err(e) = pi.validate() {
                return fail("C08/parametric/valid-rejected", format!("ParametricInstance::validate rejected a well-formed parametric instance: {e:#}"));
            }
            let checks: Vec<(&str, Box<dyn Fn(&mut v1::ParametricInstance)>)> = vec![
                ("dup-parameter-id", Box::new(|m| { let p = m.parameters[0].clone(); m.parameters.push(p); })),
                ("parameter-id-shared-with-variable", Box::new(|m| { if let Some(v) = m.decision_variables.first() { let mut p = v1::Parameter::default(); p.id = v.id; m.parameters.push(p); } else { let p = m.parameters[0].clone(); m.parameters.push(p); } })),
                ("dup-variable-id", Box::new(|m| { if let Some(v) = m.decision_variables.first().cloned() { m.decision_variables.push(v); } else { let p = m.parameters[0].clone(); m.parameters.push(p); } })),
                ("undefined-id-objective", Box::new(|m| add_undefined(&mut m.objective, UNDEF, 0))),
                ("dup-constraint-id", Box::new(|m| { if let Some(c) = m.constraints.first().cloned() { m.constraints.push(c); } else { add_undefined(&mut m.objective, UNDEF, 1) } })),
                ("dup-removed-constraint-id", Box::new(|m| { if let Some(c) = m.removed_constraints.first().cloned() { m.removed_constraints.push(c); } else { add_undefined(&mut m.objective, UNDEF, 1) } })),
                ("constraint-id-active-and-removed", Box::new(|m| {
                    match (m.constraints.first().map(|c| c.id), m.removed_constraints.first_mut()) {
                        (Some(id), Some(rc)) => rc.constraint.as_mut().unwrap().id = id,
                        _ => add_undefined(&mut m.objective, UNDEF, 1),
                    }
                })),
            ];
            if !pi.parameters.is_empty() {
                for (name, f) in checks {
                    let mut m = pi.clone();
                    f(&mut m);
                    if m.validate().is_ok() {
                        return fail(format!("C08/parametric/{name}-accepted"), format!("ParametricInstance::validate accepted fault {name} on {}", describe_inst(&base)));
                    }
                }
                if !pi.constraints.is_empty() {
                    let mut m = pi.clone();
                    add_undefined(&mut m.constraints[0].function, UNDEF, 2);
                    if m.validate().is_ok() {
                        return fail("C08/parametric/undefined-id-constraint-accepted", "ParametricInstance::validate accepted an undefined id in an active constraint".to_string());
                    }
                }
            }
        }
        Ok(())
    }
}

/// parts of the message a fault touches, derived from its name
fn targets(name: &str) -> BTreeSet<String> {
    let mut out = BTreeSet::new();
    if name.contains("objective") {
        out.insert("objective".to_string());
    }
    if name.contains("sense") {
        out.insert("sense".to_string());
    }
    if name.contains("one_hot") || name.contains("sos1") {
        out.insert("hints".to_string());
    }
    if name.contains("dependency") {
        out.insert("deps".to_string());
    }
    let bytes = name.as_bytes();
    let mut i = 0;
    while i < bytes.len() {
        if bytes[i] == b'[' {
            // word before '['
            let mut w = i;
            while w > 0 && (bytes[w - 1].is_ascii_alphabetic() || bytes[w - 1] == b'_') {
                w -= 1;
            }
            let word = &name[w..i];
            let end = name[i..].find(']').map(|e| i + e).unwrap_or(bytes.len());
            let inner = &name[i + 1..end];
            let tag = match word {
                "constraint" | "active" => "c",
                "removed" => "r",
                "variable" => "v",
                "id" => "v", // dup-variable-id[i<-j]
                _ => "",
            };
            if !tag.is_empty() {
                for part in inner.split("<-") {
                    out.insert(format!("{tag}[{part}]"));
                }
            }
            i = end;
        }
        i += 1;
    }
    out
}

fn check_faulted_pair(base: &v1::Instance, a: &Fault, b: &Fault, ctx: &mut Ctx) -> PResult {
    check_faulted(base, &[a, b], ctx)
}

trait CtxExt {
    fn nontrivial_if(&mut self, c: bool);
}
impl CtxExt for Ctx {
    fn nontrivial_if(&mut self, c: bool) {
        if c {
            self.nontrivial();
        }
    }
}
