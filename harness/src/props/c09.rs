//! C09 Penalty methods keep every constraint and build f + weighted squared violations.

use crate::driver::{fail, Ctx, PResult, Property, Tier};
use crate::exact::*;
use crate::gen::func::*;
use crate::gen::inst::*;
use crate::model::{EQ_ZERO, KIND_BINARY, KIND_CONTINUOUS, LE_ZERO};
use crate::props::c05::{describe_inst, fp_instance};
use crate::tape::Tape;
use ommx::v1;
use serde_json::json;
use std::collections::{BTreeMap, BTreeSet};

pub struct C09;

fn cfn(c: &v1::Constraint) -> v1::Function {
    c.function.clone().unwrap_or_else(|| crate::mk::fconst(0.0))
}

impl Property for C09 {
    fn id(&self) -> &'static str {
        "C09"
    }
    fn rule(&self) -> &'static str {
        "case = valid instance (previously removed constraints, constant/absent constraint functions, non-contiguous ids up to u64::MAX, any representation, hints, dependencies, removal reasons as the SDK writes them, two constraints sharing one 12-term function, 15..33 active constraints) x {penalty_method, uniform_penalty_method} x weights x (instantiation with_parameters); \
         oracle = f + sum_c w_c g_c^2 (resp. f + w sum g_c^2) as an exact polynomial in the joint variables (x, w) + bookkeeping model; non-trivial = >=2 active constraints of degree>=1 or >=1 pre-existing removed constraint; distinct = sha256(instance, method, weights)"
    }
    fn required_labels(&self) -> Vec<String> {
        ["history=one-hot-member-fixed-then-penalty", "method=per-constraint", "method=uniform", "pre-removed", "absent-function", "noncontiguous-ids", "instantiated", "hints", "dependency", "regime=general", "regime=dyadic", "removed-reason-of-sdk-transformation", "constraint-id=u64::MAX", "two-constraints-with-identical-function", "active-constraints=16", "active-constraints=32", "active-constraints=65", "active-constraints=100"].iter().map(|s| s.to_string()).collect()
    }
    fn cases(&self, tier: Tier) -> usize {
        match tier {
            Tier::Quick => 200_000,
            Tier::Thorough => 4_000_000,
        }
    }
    fn tape_max(&self) -> usize {
        640
    }
    fn assumptions(&self) -> Vec<String> {
        vec!["variable ids stay below u64::MAX - 8 (fresh parameter ids are allocated above the largest variable id; overflow of the id space is outside the domain)".into()]
    }

    fn run(&self, t: &mut Tape, ctx: &mut Ctx) -> PResult {
        let regime = if t.p(64) { Regime::General } else { Regime::Dyadic };
        ctx.label(if regime == Regime::General { "regime=general" } else { "regime=dyadic" });
        let uniform = t.coin();
        let instantiate = t.p(120);
        let wseed: Vec<f64> = (0..6).map(|_| if t.p(32) { 0.0 } else { gen_coeff(t, Regime::Dyadic, false) }).collect();
        let dup = if t.p(40) { Some(t.byte() as u64) } else { None };
        let many = if t.p(16) { Some((*t.pick(&[15usize, 16, 17, 32, 33, 65, 100]), t.byte() as u64)) } else { None };
        let one_hot_history = t.p(24);
        let mut cfg = InstCfg::new(regime);
        cfg.hints = true;
        cfg.func.max_degree = 2;
        cfg.func.max_terms = 5;
        let gi = gen_instance(t, &cfg, ctx);
        let mut inst = gi.inst.clone();
        // two active constraints with the very same (longer) function: each still gets its own weight
        if let (Some(seed), true) = (dup, inst.constraints.len() >= 2) {
            let base = 7000u64;
            for i in 0..9u64 {
                let mut v = v1::DecisionVariable::default();
                v.id = base + i;
                v.kind = KIND_CONTINUOUS;
                v.bound = Some(crate::mk::bound(-4.0, 4.0));
                inst.decision_variables.push(v);
            }
            let mut qd = v1::Quadratic::default();
            qd.rows = vec![base, base + 1];
            qd.columns = vec![base + 1, base + 2];
            qd.values = vec![derived_coeff(seed, 50), derived_coeff(seed, 51)];
            qd.linear = Some(crate::mk::linear((0..9u64).map(|i| (base + i, derived_coeff(seed, i))).collect(), derived_coeff(seed, 60)));
            let g = crate::mk::fquad(qd);
            let last = inst.constraints.len() - 1;
            inst.constraints[0].function = Some(g.clone());
            inst.constraints[last].function = Some(g);
            ctx.label("two-constraints-with-identical-function");
        }
        // many active constraints (counts around 16 and 32; 65 and 100)
        if let Some((target, seed)) = many {
            let taken: BTreeSet<u64> = inst.constraints.iter().map(|c| c.id).chain(inst.removed_constraints.iter().filter_map(|rc| rc.constraint.as_ref().map(|c| c.id))).collect();
            let mut k = 0u64;
            while inst.constraints.len() < target {
                k += 1;
                if taken.contains(&(9000 + k)) {
                    continue;
                }
                let mut c = v1::Constraint::default();
                c.id = 9000 + k;
                c.equality = if k % 2 == 0 { EQ_ZERO } else { LE_ZERO };
                let x = gi.used_pool[(k as usize) % gi.used_pool.len()];
                c.function = Some(crate::mk::flin(crate::mk::linear(vec![(x, derived_coeff(seed, k))], derived_coeff(seed, 1000 + k))));
                inst.constraints.push(c);
            }
            ctx.label(format!("active-constraints={}", inst.constraints.len()));
        }
        // a genuine one-hot constraint with its hint, one member of which has since been fixed to 0 by partial_evaluate
        // (the hint is history; the penalty is built from the constraint's function as it is now)
        if one_hot_history && !inst.constraints.is_empty() && inst.decision_variables.iter().all(|v| v.id < 7100 || v.id > 7103) {
            let s_ids: Vec<u64> = (7100..7104).collect();
            for id in &s_ids {
                let mut v = v1::DecisionVariable::default();
                v.id = *id;
                v.kind = KIND_BINARY;
                v.bound = Some(crate::mk::bound(0.0, 1.0));
                inst.decision_variables.push(v);
            }
            inst.constraints[0].function = Some(crate::mk::flin(crate::mk::linear(s_ids.iter().map(|i| (*i, 1.0)).collect(), -1.0)));
            inst.constraints[0].equality = EQ_ZERO;
            let mut h = inst.constraint_hints.take().unwrap_or_default();
            h.one_hot_constraints.clear();
            h.sos1_constraints.clear();
            let mut oh = v1::OneHot::default();
            oh.constraint_id = inst.constraints[0].id;
            oh.decision_variables = s_ids.clone();
            h.one_hot_constraints.push(oh);
            inst.constraint_hints = Some(h);
            let mut st = v1::State::default();
            st.entries.insert(7101, 0.0);
            if ommx::Evaluate::partial_evaluate(&mut inst, &st).is_err() {
                ctx.exclude("partial_evaluate of the one-hot member failed");
                return Ok(());
            }
            ctx.label("history=one-hot-member-fixed-then-penalty");
        }
        let inst = inst;
        if inst.decision_variables.iter().any(|v| v.id >= u64::MAX - 8) {
            ctx.exclude("id-space-overflow");
            return Ok(());
        }
        ctx.label(if uniform { "method=uniform" } else { "method=per-constraint" });
        if !inst.removed_constraints.is_empty() {
            ctx.label("pre-removed");
        }
        if inst.constraints.windows(2).any(|w| w[0].id.wrapping_add(1) != w[1].id) || inst.constraints.first().map(|c| c.id != 0).unwrap_or(false) {
            ctx.label("noncontiguous-ids");
        }
        let nontriv = inst.constraints.iter().filter(|c| Poly::from_function(&cfn(c)).degree() >= 1).count() >= 2 || !inst.removed_constraints.is_empty();
        if nontriv {
            ctx.nontrivial();
        }
        fp_instance(ctx, &inst);
        ctx.fp(&[uniform as u8, instantiate as u8]);
        ctx.fp_dbg(&wseed);
        ctx.sample_with(|| json!({"method": if uniform {"uniform_penalty_method"} else {"penalty_method"}, "instance": describe_inst(&inst), "weights": format!("{:?}", wseed)}));
        let ctxmsg = |m: String| format!("{m}\n method {} instance {}", if uniform { "uniform" } else { "per-constraint" }, describe_inst(&inst));

        let r = if uniform { inst.clone().uniform_penalty_method() } else { inst.clone().penalty_method() };
        let pi = match r {
            Ok(p) => p,
            Err(e) => return fail("C09/err", ctxmsg(format!("penalty method failed: {e:#}"))),
        };
        if !pi.constraints.is_empty() {
            return fail("C09/active-constraints-left", ctxmsg(format!("{} active constraints left", pi.constraints.len())));
        }
        // every constraint of the input kept as removed, once, unchanged
        let mut want: BTreeMap<u64, (v1::Constraint, Option<(String, BTreeMap<String, String>)>)> = BTreeMap::new();
        for c in &inst.constraints {
            want.insert(c.id, (c.clone(), None));
        }
        for rc in &inst.removed_constraints {
            let c = rc.constraint.as_ref().unwrap();
            want.insert(c.id, (c.clone(), Some((rc.removed_reason.clone(), rc.removed_reason_parameters.iter().map(|(k, v)| (k.clone(), v.clone())).collect()))));
        }
        let mut seen = BTreeSet::new();
        for rc in &pi.removed_constraints {
            let Some(c) = &rc.constraint else {
                return fail("C09/removed-without-constraint", ctxmsg("removed constraint without constraint".into()));
            };
            if !seen.insert(c.id) {
                return fail("C09/constraint-twice", ctxmsg(format!("constraint {} occurs twice", c.id)));
            }
            let Some((orig, pre)) = want.get(&c.id) else {
                return fail("C09/unknown-constraint", ctxmsg(format!("constraint {} was not in the input", c.id)));
            };
            // "unchanged ID, function and equality": the function is compared as a polynomial (exact coefficients), so a
            // re-normalised representation of the same function is not an alarm; names, descriptions and removal reasons
            // are not promised by the statement and only recorded as labels
            if c.equality != orig.equality || Poly::from_opt_function(&c.function) != Poly::from_opt_function(&orig.function) {
                return fail("C09/constraint-changed", ctxmsg(format!("constraint {} changed: {c:?} vs input {orig:?}", c.id)));
            }
            if c != orig {
                ctx.label("constraint-message-differs-beyond-id-function-equality");
            }
            if let Some((reason, params)) = pre {
                let p: BTreeMap<String, String> = rc.removed_reason_parameters.iter().map(|(k, v)| (k.clone(), v.clone())).collect();
                if &rc.removed_reason != reason || &p != params {
                    ctx.label("pre-removed-reason-differs");
                }
            }
        }
        let missing: Vec<u64> = want.keys().filter(|k| !seen.contains(k)).copied().collect();
        if !missing.is_empty() {
            let pre: Vec<u64> = missing.iter().filter(|k| want[k].1.is_some()).copied().collect();
            if !pre.is_empty() {
                return fail("C09/pre-removed-constraint-lost", ctxmsg(format!("previously removed constraints {pre:?} are not in the result")));
            }
            return fail("C09/constraint-lost", ctxmsg(format!("constraints {missing:?} are not in the result")));
        }
        // parameters
        let var_ids: BTreeSet<u64> = inst.decision_variables.iter().map(|v| v.id).collect();
        let pids: Vec<u64> = pi.parameters.iter().map(|p| p.id).collect();
        let pset: BTreeSet<u64> = pids.iter().copied().collect();
        if pset.len() != pids.len() {
            return fail("C09/parameter-ids-repeat", ctxmsg(format!("parameter ids {pids:?} not distinct")));
        }
        if let Some(x) = pset.iter().find(|p| var_ids.contains(p)) {
            return fail("C09/parameter-id-collides", ctxmsg(format!("parameter id {x} coincides with a decision variable id")));
        }
        let mut weight_of: BTreeMap<u64, u64> = BTreeMap::new(); // constraint id -> parameter id
        if uniform {
            if pi.parameters.len() != 1 {
                return fail("C09/uniform-parameter-count", ctxmsg(format!("{} parameters, expected exactly one", pi.parameters.len())));
            }
        } else {
            if pi.parameters.len() != inst.constraints.len() {
                return fail("C09/parameter-count", ctxmsg(format!("{} parameters for {} constraints", pi.parameters.len(), inst.constraints.len())));
            }
            for p in &pi.parameters {
                if p.subscripts.len() != 1 {
                    return fail("C09/parameter-tag", ctxmsg(format!("parameter {} has subscripts {:?}, expected [constraint id]", p.id, p.subscripts)));
                }
                let cid = p.subscripts[0] as u64;
                if !inst.constraints.iter().any(|c| c.id == cid) || weight_of.insert(cid, p.id).is_some() {
                    return fail("C09/parameter-tag", ctxmsg(format!("parameter {} tagged with {:?} which is not a distinct active constraint id", p.id, p.subscripts)));
                }
            }
        }
        // carried over
        // carried over = the same variables (any list order)
        let by_id = |v: &[v1::DecisionVariable]| -> BTreeMap<u64, Vec<v1::DecisionVariable>> {
            let mut m: BTreeMap<u64, Vec<v1::DecisionVariable>> = BTreeMap::new();
            for x in v {
                m.entry(x.id).or_default().push(x.clone());
            }
            m
        };
        if by_id(&pi.decision_variables) != by_id(&inst.decision_variables) {
            return fail("C09/variables-changed", ctxmsg("decision variables changed".into()));
        }
        if pi.sense != inst.sense {
            return fail("C09/sense-changed", ctxmsg("sense changed".into()));
        }
        let deps = |m: &std::collections::HashMap<u64, v1::Function>| -> BTreeMap<u64, Poly> { m.iter().map(|(k, f)| (*k, Poly::from_function(f))).collect() };
        if deps(&pi.decision_variable_dependency) != deps(&inst.decision_variable_dependency) {
            return fail("C09/dependencies-changed", ctxmsg("dependencies changed".into()));
        }
        // constraint hints and the description are not mentioned by the statement (hints of constraints that are all
        // removed now may legitimately be dropped): recorded, not asserted
        if pi.constraint_hints != inst.constraint_hints {
            ctx.label("hints-differ");
        }
        if pi.description != inst.description {
            ctx.label("description-differs");
        }
        // objective polynomial in (x, w)
        let f0 = inst.objective.clone().unwrap_or_else(|| crate::mk::fconst(0.0));
        let mut exact = Poly::from_function(&f0);
        let mut mag = abs_of(&f0, false);
        let mut mag1 = abs_of(&f0, true);
        let mut nterms = raw_terms(&f0).len();
        for c in &inst.constraints {
            let g = cfn(c);
            let gp = Poly::from_function(&g);
            let w = if uniform { pi.parameters[0].id } else { weight_of[&c.id] };
            exact = exact.add(&Poly::var(w).mul(&gp).mul(&gp));
            let ga = abs_of(&g, false);
            let ga1 = abs_of(&g, true);
            mag = abs_add(&mag, &abs_mul(&abs_var(w), &abs_mul(&ga, &ga)));
            mag1 = abs_add(&mag1, &abs_mul(&abs_var(w), &abs_mul(&ga1, &ga1)));
            nterms += raw_terms(&g).len().pow(2);
        }
        // an absent objective is the zero function (as everywhere in the SDK)
        if pi.objective.is_none() {
            ctx.label("objective-absent-in-the-result");
        }
        let got = Poly::from_opt_function(&pi.objective);
        if let Err(e) = compare_poly(&got, &exact, regime == Regime::Dyadic, &mag, &mag1, 8 * (nterms + 16), 8.0 * (nterms as f64 + 4.0)) {
            return fail("C09/objective", ctxmsg(format!("objective is not f + sum w g^2: {e}")));
        }
        // instantiate the weights and compare again (exact partial evaluation at w)
        if instantiate {
            ctx.label("instantiated");
            let mut params = v1::Parameters::default();
            let mut wq: QState = QState::new();
            for (i, p) in pi.parameters.iter().enumerate() {
                let w = wseed[i % wseed.len()];
                params.entries.insert(p.id, w);
                wq.insert(p.id, q(w));
            }
            let inst2 = match pi.clone().with_parameters(params) {
                Ok(i) => i,
                Err(e) => return fail("C09/with-parameters-err", ctxmsg(format!("with_parameters failed: {e:#}"))),
            };
            let got2 = Poly::from_opt_function(&inst2.objective);
            let exact2 = exact.partial_eval(&wq);
            // magnitudes: substitute |w|
            let wabs: BTreeMap<u64, f64> = wq.iter().map(|(k, v)| (*k, q_to_f64(v).abs())).collect();
            let sub = |m: &AbsPoly, floor: bool| -> AbsPoly {
                let mut r = AbsPoly::new();
                for (k, v) in m {
                    let mut val = *v;
                    let mut rest = vec![];
                    for id in k {
                        match wabs.get(id) {
                            Some(w) => val *= if floor { w.max(1.0) } else { *w },
                            None => rest.push(*id),
                        }
                    }
                    *r.entry(rest).or_default() += val;
                }
                r
            };
            if let Err(e) = compare_poly(&got2, &exact2, regime == Regime::Dyadic, &sub(&mag, false), &sub(&mag1, true), 16 * (nterms + 16), 16.0 * (nterms as f64 + 4.0)) {
                return fail("C09/instantiated-objective", ctxmsg(format!("objective after with_parameters is not f + sum w g^2 at the given weights: {e}")));
            }
        }
        Ok(())
    }
}
