//! C10 Instantiating parameters equals evaluating them.

use crate::driver::{fail, Ctx, PResult, Property, Tier};
use crate::exact::*;
use crate::gen::func::*;
use crate::gen::inst::*;
use crate::model::{KIND_CONTINUOUS, LE_ZERO};
use crate::props::c03::check_partial;
use crate::props::c05::{describe_inst, fp_instance, sorted_state};
use crate::tape::Tape;
use ommx::v1;
use serde_json::json;
use std::collections::{BTreeMap, BTreeSet};

pub struct C10;

const MULT: [usize; 7] = [5, 7, 9, 255, 256, 257, 300];

/// order-insensitive views for "unchanged" clauses (list order is not part of any statement)
fn vars_by_id(v: &[v1::DecisionVariable]) -> BTreeMap<u64, Vec<v1::DecisionVariable>> {
    let mut m: BTreeMap<u64, Vec<v1::DecisionVariable>> = BTreeMap::new();
    for x in v {
        m.entry(x.id).or_default().push(x.clone());
    }
    m
}
fn removed_by_id(v: &[v1::RemovedConstraint]) -> BTreeMap<u64, Vec<v1::RemovedConstraint>> {
    let mut m: BTreeMap<u64, Vec<v1::RemovedConstraint>> = BTreeMap::new();
    for x in v {
        m.entry(x.constraint.as_ref().map(|c| c.id).unwrap_or(u64::MAX)).or_default().push(x.clone());
    }
    m
}
#[allow(dead_code)]
fn deps_as_polys(m: &std::collections::HashMap<u64, v1::Function>) -> BTreeMap<u64, Poly> {
    m.iter().map(|(k, f)| (*k, Poly::from_function(f))).collect()
}
fn removed_math(v: &[v1::RemovedConstraint]) -> BTreeMap<u64, Vec<(i32, Poly)>> {
    let mut m: BTreeMap<u64, Vec<(i32, Poly)>> = BTreeMap::new();
    for x in v {
        if let Some(c) = &x.constraint {
            m.entry(c.id).or_default().push((c.equality, Poly::from_opt_function(&c.function)));
        }
    }
    m
}

impl Property for C10 {
    fn id(&self) -> &'static str {
        "C10"
    }
    fn rule(&self) -> &'static str {
        "case = parametric instance (parameters anywhere in objective and active constraints, degree<=4, any representation; removed constraints, hints, dependencies present) x parameter assignment (complete | complete + unrelated extras | missing one, possibly with an unrelated id between the declared ones); long id-sorted linear functions with a parameter id listed twice; sweep: parameter multiplicity 5..300 inside one monomial | instance -> parametric -> with_parameters({}) round trip; \
         oracle = exact partial evaluation of every parametric function at p; non-trivial = a parameter multiplied with a decision variable; distinct = sha256(instance, parameter ids, assignment)"
    }
    fn required_labels(&self) -> Vec<String> {
        ["extras", "missing", "complete", "param-in-constraint", "param-in-objective", "param-times-variable", "roundtrip", "removed-constraint", "hints", "regime=general", "regime=dyadic", "big-sorted-function", "parameter-id-twice-in-sorted-list", "big-strictly-sorted-function-with-several-parameters", "missing+extra-between-declared-ids", "sweep=high-multiplicity"].iter().map(|s| s.to_string()).collect()
    }
    fn cases(&self, tier: Tier) -> usize {
        match tier {
            Tier::Quick => 200_000,
            Tier::Thorough => 4_000_000,
        }
    }
    fn tape_max(&self) -> usize {
        640
    }
    fn sweep_len(&self, _tier: Tier) -> usize {
        MULT.len()
    }
    fn sweep_description(&self) -> Option<String> {
        Some("a polynomial objective with one parameter occurring 5, 7, 9, 255, 256, 257 and 300 times inside one monomial (any degree), instantiated at 2 and at 0.5".into())
    }
    fn sweep_case(&self, _tier: Tier, i: usize, ctx: &mut Ctx) -> PResult {
        let m = MULT[i];
        ctx.label("sweep=high-multiplicity");
        ctx.nontrivial();
        ctx.fp_dbg(&("high-multiplicity", m));
        ctx.sample_with(|| json!({"sweep": "parameter with multiplicity", "multiplicity": m}));
        for pv in [2.0f64, 0.5] {
            let mut pi = v1::ParametricInstance::default();
            pi.sense = crate::model::SENSE_MIN;
            let mut x = v1::DecisionVariable::default();
            x.id = 1;
            x.kind = KIND_CONTINUOUS;
            pi.decision_variables.push(x);
            let mut p = v1::Parameter::default();
            p.id = 2;
            pi.parameters.push(p);
            let mut ids = vec![2u64; m];
            ids.push(1);
            let obj = crate::mk::fpoly(crate::mk::polynomial(vec![(ids, 3.0), (vec![1], 1.0), (vec![2, 2], 0.25)]));
            pi.objective = Some(obj.clone());
            let mut params = v1::Parameters::default();
            params.entries.insert(2, pv);
            let out = match pi.clone().with_parameters(params) {
                Ok(o) => o,
                Err(e) => return fail("C10/high-multiplicity/err", format!("with_parameters failed for a parameter of multiplicity {m}: {e:#}")),
            };
            let pstate = crate::mk::state([(2u64, pv)]);
            check_partial("C10/high-multiplicity/objective", &obj, &out.objective.clone().unwrap_or_else(|| crate::mk::fconst(0.0)), &pstate, Regime::Dyadic).map_err(|mut f| {
                f.message = format!("parameter of multiplicity {m} instantiated at {pv}: {}", f.message);
                f.message.truncate(600);
                f
            })?;
        }
        Ok(())
    }

    fn run(&self, t: &mut Tape, ctx: &mut Ctx) -> PResult {
        let regime = if t.p(64) { Regime::General } else { Regime::Dyadic };
        ctx.label(if regime == Regime::General { "regime=general" } else { "regime=dyadic" });
        let mode = t.weighted(&[6, 3, 3, 2]); // complete, extras, missing, roundtrip
        let pmask = t.u16();
        let pvals: Vec<f64> = (0..6).map(|_| gen_value(t, regime)).collect();
        let big = if t.p(12) { Some((*t.pick(&SIZES[4..13]), t.byte() as u64)) } else { None };
        let mut cfg = InstCfg::new(regime);
        cfg.hints = true;
        cfg.func.max_degree = 4;
        let gi = gen_instance(t, &cfg, ctx);
        let inst = gi.inst.clone();
        if mode == 3 {
            ctx.label("roundtrip");
            fp_instance(ctx, &inst);
            ctx.fp_str("roundtrip");
            ctx.sample_with(|| json!({"mode": "Instance -> ParametricInstance -> with_parameters({})", "instance": describe_inst(&inst)}));
            let pi: v1::ParametricInstance = inst.clone().into();
            let back = match pi.with_parameters(v1::Parameters::default()) {
                Ok(i) => i,
                Err(e) => return fail("C10/roundtrip/err", format!("with_parameters({{}}) failed: {e:#} for {}", describe_inst(&inst))),
            };
            let empty = v1::State::default();
            check_partial("C10/roundtrip/objective", &inst.objective.clone().unwrap_or_else(|| crate::mk::fconst(0.0)), &back.objective.clone().unwrap_or_else(|| crate::mk::fconst(0.0)), &empty, regime)?;
            if back.constraints.len() != inst.constraints.len() {
                return fail("C10/roundtrip/constraint-count", "constraint count changed".to_string());
            }
            for a in inst.constraints.iter() {
                let Some(b) = back.constraints.iter().find(|b| b.id == a.id) else {
                    return fail("C10/roundtrip/constraint-id-or-equality", format!("constraint {} is gone after the round trip", a.id));
                };
                if a.equality != b.equality {
                    return fail("C10/roundtrip/constraint-id-or-equality", format!("constraint {} changed id/equality", a.id));
                }
                check_partial("C10/roundtrip/constraint", &a.function.clone().unwrap_or_else(|| crate::mk::fconst(0.0)), &b.function.clone().unwrap_or_else(|| crate::mk::fconst(0.0)), &empty, regime)?;
            }
            // "the same mathematical problem": variables, sense, removed constraints and definitions of dependent variables
            // as mathematical objects (any list order, any representation of a function); hints are recorded only
            if back.constraint_hints != inst.constraint_hints {
                ctx.label("roundtrip-hints-differ");
            }
            // definitions of dependent variables: the same keys, each the same function up to the documented re-normalisation
            // (an implementation may run them through the same partial evaluation as the objective)
            {
                let ka: BTreeSet<u64> = inst.decision_variable_dependency.keys().copied().collect();
                let kb: BTreeSet<u64> = back.decision_variable_dependency.keys().copied().collect();
                if ka != kb {
                    return fail("C10/roundtrip/other-fields", format!("dependency keys changed in the round trip of {}", describe_inst(&inst)));
                }
                for k in &ka {
                    check_partial("C10/roundtrip/dependency", &inst.decision_variable_dependency[k], &back.decision_variable_dependency[k], &empty, regime)?;
                }
            }
            if vars_by_id(&back.decision_variables) != vars_by_id(&inst.decision_variables) || back.sense != inst.sense || removed_math(&back.removed_constraints) != removed_math(&inst.removed_constraints) {
                return fail("C10/roundtrip/other-fields", format!("variables/sense/removed/dependencies/hints changed in the round trip of {}", describe_inst(&inst)));
            }
            return Ok(());
        }
        // choose parameter ids among the used pool
        let mut pids: Vec<u64> = vec![];
        for (i, id) in gi.used_pool.iter().enumerate() {
            if (pmask >> (i % 16)) & 1 == 1 {
                pids.push(*id);
            }
        }
        if pids.is_empty() {
            pids.push(gi.used_pool[0]);
        }
        let mut pi: v1::ParametricInstance = inst.clone().into();
        pi.decision_variables.retain(|v| !pids.contains(&v.id));
        for id in &pids {
            let mut p = v1::Parameter::default();
            p.id = *id;
            p.name = Some(format!("p{}", id % 10));
            pi.parameters.push(p);
        }
        // removed constraints and dependencies may only use decision variables
        for rc in pi.removed_constraints.iter_mut() {
            if let Some(c) = rc.constraint.as_mut() {
                if let Some(f) = &c.function {
                    if syntactic_ids(f).iter().any(|i| pids.contains(i)) {
                        c.function = Some(crate::mk::fconst(1.0));
                    }
                }
            }
        }
        for f in pi.decision_variable_dependency.values_mut() {
            if syntactic_ids(f).iter().any(|i| pids.contains(i)) {
                *f = crate::mk::fconst(2.0);
            }
        }
        // hints must not refer to parameters
        if let Some(h) = pi.constraint_hints.as_mut() {
            for oh in h.one_hot_constraints.iter_mut() {
                oh.decision_variables.retain(|i| !pids.contains(i));
            }
            for s in h.sos1_constraints.iter_mut() {
                s.decision_variables.retain(|i| !pids.contains(i));
            }
        }
        // a long linear function, terms in ascending id order with some ids twice in a row, one or two of its ids
        // being parameters (so only a small fraction of what it mentions is instantiated)
        let mut big_params: Vec<(u64, f64)> = vec![];
        if let (Some((n, seed)), true) = (big, mode != 3) {
            ctx.label("big-sorted-function");
            let base = 6000u64;
            let mut terms: Vec<(u64, f64)> = vec![];
            let mut id = base;
            let mut twice: Vec<u64> = vec![];
            // one case out of three: strictly ascending ids (no id twice), two to four parameters in the middle
            let strict = seed % 3 == 0;
            for i in 0..n as u64 {
                terms.push((id, derived_coeff(seed, i)));
                if strict || (derived_coeff(seed ^ 0x33, i).abs() * 16.0) as u64 % 6 != 0 {
                    id += 1;
                } else {
                    twice.push(id);
                }
            }
            let all: BTreeSet<u64> = terms.iter().map(|x| x.0).collect();
            let mut chosen: BTreeSet<u64> = BTreeSet::new();
            if let Some(x) = twice.get(seed as usize % twice.len().max(1)) {
                chosen.insert(*x);
                ctx.label("parameter-id-twice-in-sorted-list");
            }
            chosen.insert(base + (seed % n as u64).min(id - base));
            if strict {
                let span = id - base;
                for k in 0..(2 + seed % 3) {
                    chosen.insert(base + span / 3 + k * (1 + seed % 2));
                }
                ctx.label("big-strictly-sorted-function-with-several-parameters");
            }
            for x in &all {
                if chosen.contains(x) {
                    let mut p = v1::Parameter::default();
                    p.id = *x;
                    pi.parameters.push(p);
                    big_params.push((*x, derived_value(seed, *x)));
                } else {
                    let mut v = v1::DecisionVariable::default();
                    v.id = *x;
                    v.kind = KIND_CONTINUOUS;
                    v.bound = Some(crate::mk::bound(-16.0, 16.0));
                    pi.decision_variables.push(v);
                }
            }
            let f = crate::mk::flin(crate::mk::linear(terms, derived_coeff(seed, 9_999)));
            if seed % 2 == 0 {
                pi.objective = Some(f);
            } else {
                let mut c = v1::Constraint::default();
                c.id = 888_888;
                c.equality = LE_ZERO;
                c.function = Some(f);
                pi.constraints.push(c);
            }
        }
        let obj0 = pi.objective.clone().unwrap_or_else(|| crate::mk::fconst(0.0));
        if syntactic_ids(&obj0).iter().any(|i| pids.contains(i)) {
            ctx.label("param-in-objective");
        }
        let mut times_var = false;
        for f in std::iter::once(&obj0).chain(pi.constraints.iter().filter_map(|c| c.function.as_ref())) {
            for (ids, c) in raw_terms(f) {
                if c != 0.0 && ids.iter().any(|i| pids.contains(i)) && ids.iter().any(|i| !pids.contains(i)) {
                    times_var = true;
                }
            }
        }
        if pi.constraints.iter().any(|c| c.function.as_ref().map(|f| syntactic_ids(f).iter().any(|i| pids.contains(i))).unwrap_or(false)) {
            ctx.label("param-in-constraint");
        }
        if times_var {
            ctx.label("param-times-variable");
            ctx.nontrivial();
        }
        let mut params = v1::Parameters::default();
        for (i, id) in pids.iter().enumerate() {
            params.entries.insert(*id, pvals[i % pvals.len()]);
        }
        for (id, v) in &big_params {
            params.entries.insert(*id, *v);
        }
        match mode {
            1 => {
                ctx.label("extras");
                params.entries.insert(31_337, 4.5);
                params.entries.insert(31_338, -1.0);
            }
            2 => {
                ctx.label("missing");
                let victim = pids[(pmask as usize >> 8) % pids.len()];
                params.entries.remove(&victim);
                // ... possibly together with a value for an id that is nothing at all (a mistyped id), lying between the
                // declared parameter ids
                let declared: BTreeSet<u64> = pi.parameters.iter().map(|p| p.id).collect();
                let (lo, hi) = (*declared.iter().next().unwrap(), *declared.iter().next_back().unwrap());
                if pmask & 1 == 1 && victim > lo && victim < hi {
                    let taken: BTreeSet<u64> = declared.iter().copied().chain(pi.decision_variables.iter().map(|v| v.id)).collect();
                    let cand = [victim + 1, victim - 1, lo + 1, hi - 1, lo + (hi - lo) / 2];
                    if let Some(x) = cand.iter().find(|x| **x > lo && **x < hi && !taken.contains(x)) {
                        params.entries.insert(*x, 0.75);
                        ctx.label("missing+extra-between-declared-ids");
                    }
                }
            }
            _ => ctx.label("complete"),
        }
        {
            let mut tmp = inst.clone();
            tmp.decision_variables = pi.decision_variables.clone();
            fp_instance(ctx, &tmp);
        }
        ctx.fp_dbg(&pids);
        let pstate = crate::mk::state(params.entries.iter().map(|(k, v)| (*k, *v)));
        ctx.fp_state(&pstate);
        ctx.sample_with(|| json!({"instance": describe_inst(&inst), "parameter_ids": pids, "assignment": format!("{:?}", sorted_state(&pstate)), "mode": mode}));
        let ctxmsg = |m: String| format!("{m}\n parametric instance from {} with parameter ids {pids:?}, assignment {:?}", describe_inst(&inst), sorted_state(&pstate));
        let r = pi.clone().with_parameters(params.clone());
        if mode == 2 {
            return match r {
                Err(_) => Ok(()),
                Ok(_) => fail("C10/missing-parameter-accepted", ctxmsg("with_parameters succeeded although a declared parameter has no value".into())),
            };
        }
        let out = match r {
            Ok(i) => i,
            Err(e) => return fail("C10/err", ctxmsg(format!("with_parameters failed: {e:#}"))),
        };
        check_partial("C10/objective", &obj0, &out.objective.clone().unwrap_or_else(|| crate::mk::fconst(0.0)), &pstate, regime).map_err(|mut f| {
            f.message = ctxmsg(f.message);
            f
        })?;
        if out.constraints.len() != pi.constraints.len() {
            return fail("C10/constraint-count", ctxmsg("number of constraints changed".into()));
        }
        for a in pi.constraints.iter() {
            // "constraint IDs unchanged": matched by id (also the equality kind, without which the constraint is another
            // one); names and other metadata are not in the statement
            let Some(b) = out.constraints.iter().find(|b| b.id == a.id) else {
                return fail("C10/constraint-metadata", ctxmsg(format!("constraint {} is not in the result", a.id)));
            };
            if a.equality != b.equality {
                return fail("C10/constraint-metadata", ctxmsg(format!("constraint {} changed its equality kind", a.id)));
            }
            let mut b2 = b.clone();
            b2.function = a.function.clone();
            if &b2 != a {
                ctx.label("constraint-metadata-differs");
            }
            check_partial("C10/constraint", &a.function.clone().unwrap_or_else(|| crate::mk::fconst(0.0)), &b.function.clone().unwrap_or_else(|| crate::mk::fconst(0.0)), &pstate, regime).map_err(|mut f| {
                f.message = ctxmsg(f.message);
                f
            })?;
        }
        if vars_by_id(&out.decision_variables) != vars_by_id(&pi.decision_variables) {
            return fail("C10/variables-changed", ctxmsg("decision variables changed".into()));
        }
        if out.sense != pi.sense {
            return fail("C10/sense-changed", ctxmsg("sense changed".into()));
        }
        if removed_by_id(&out.removed_constraints) != removed_by_id(&pi.removed_constraints) {
            return fail("C10/removed-constraints-changed", ctxmsg("removed constraints changed".into()));
        }
        if out.constraint_hints != pi.constraint_hints {
            return fail("C10/hints-changed", ctxmsg("hints changed".into()));
        }
        // the definitions of dependent variables are not in the statement's list; they do not mention parameters here, so
        // they must at least stay the same functions (any representation)
        {
            let ka: BTreeSet<u64> = pi.decision_variable_dependency.keys().copied().collect();
            let kb: BTreeSet<u64> = out.decision_variable_dependency.keys().copied().collect();
            if ka != kb {
                return fail("C10/dependencies-changed", ctxmsg("dependency keys changed".into()));
            }
            for k in &ka {
                check_partial("C10/dependencies-changed", &pi.decision_variable_dependency[k], &out.decision_variable_dependency[k], &pstate, regime).map_err(|mut f| {
                    f.message = ctxmsg(f.message);
                    f
                })?;
            }
        }
        if out.description != pi.description {
            ctx.label("description-differs");
        }
        // "the supplied values recorded on the result": the value of every declared parameter, and nothing that was not supplied
        let rec: BTreeMap<u64, u64> = out.parameters.as_ref().map(|p| p.entries.iter().map(|(k, v)| (*k, v.to_bits())).collect()).unwrap_or_default();
        let declared_ok = pi.parameters.iter().all(|p| params.entries.get(&p.id).map(|v| rec.get(&p.id) == Some(&v.to_bits())).unwrap_or(false));
        let nothing_else = rec.iter().all(|(k, v)| params.entries.get(k).map(|x| x.to_bits() == *v).unwrap_or(false));
        if !declared_ok || !nothing_else {
            return fail("C10/parameters-not-recorded", ctxmsg(format!("result.parameters = {:?}", out.parameters)));
        }
        Ok(())
    }
}
