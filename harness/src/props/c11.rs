//! C11 QUBO/PUBO export reproduces the objective on every binary assignment.

use crate::driver::{fail, Ctx, PResult, Property, Tier};
use crate::exact::*;
use crate::gen::func::*;
use crate::model::*;
use crate::tape::Tape;
use num::{Signed, Zero};
use ommx::v1;
use serde_json::json;
use std::collections::BTreeSet;

pub struct C11;

const BIG_TERMS: [usize; 5] = [255, 256, 257, 314, 600];

impl Property for C11 {
    fn id(&self) -> &'static str {
        "C11"
    }
    fn rule(&self) -> &'static str {
        "case = unconstrained binary minimisation instance, n<=8 (quick) / <=12 (thorough) variables, objective of degree<=4 in any representation (repeated ids inside a monomial, x_i^2 terms, cancelling pairs, several constants) | one refusal condition (active constraint, maximise, non-binary used variable, QUBO term with 3 or 4 distinct ids, also of degree four with one of them repeated); \
         oracle = objective evaluated exactly on ALL 2^n assignments + multilinear reduction (unique representation); non-trivial = n>=3 and (a monomial with a repeated id or a cancelling pair); distinct = sha256(instance, mode)"
    }
    fn required_labels(&self) -> Vec<String> {
        ["x^2", "binary-with-recorded-value", "cancel", "deg>2-collapses-to-pair", "refusal=constraint", "refusal=maximize", "refusal=non-binary", "refusal=qubo-3-distinct", "refusal=qubo-3-distinct-with-a-repeated-id", "format=pubo", "format=qubo", "regime=general", "regime=dyadic", "removed-constraint-present", "objective-absent", "unused-non-binary-variable", "non-binary-variable-in-removed-constraint", "id=u64::MAX", "objective-absent+refusal", "largest-id-at-word-boundary", "sweep=many-raw-terms", "sweep=full-symmetric-matrix", "refusal=constraint-with-zero-function", "shuffled-variable-list", "recorded-parameter-id-is-a-binary-id"].iter().map(|s| s.to_string()).collect()
    }
    fn cases(&self, tier: Tier) -> usize {
        match tier {
            Tier::Quick => 100_000,
            Tier::Thorough => 1_500_000,
        }
    }
    fn tape_max(&self) -> usize {
        320
    }

    fn sweep_len(&self, _tier: Tier) -> usize {
        BIG_TERMS.len() * 2 + 4
    }
    fn sweep_description(&self) -> Option<String> {
        Some("objectives written as 255, 256, 257, 314 and 600 raw (un-merged) terms of degree <= 2 over 8 binary variables (x_i x_j next to x_j x_i, x_i^2 next to x_i), exported as QUBO and as PUBO, compared on all 256 assignments".into())
    }
    fn sweep_case(&self, _tier: Tier, i: usize, ctx: &mut Ctx) -> PResult {
        let full_matrix = i >= BIG_TERMS.len() * 2;
        let nt = if full_matrix { [144usize, 256][(i - BIG_TERMS.len() * 2) / 2] } else { BIG_TERMS[i / 2] };
        let qubo = i % 2 == 0;
        ctx.label(if full_matrix { "sweep=full-symmetric-matrix" } else { "sweep=many-raw-terms" });
        ctx.nontrivial();
        ctx.fp_dbg(&("many-raw-terms", nt, qubo));
        ctx.sample_with(|| json!({"sweep": "many raw terms", "terms": nt, "format": if qubo { "qubo" } else { "pubo" }}));
        // (a) raw polynomial terms over 8 variables; (b) a Quadratic holding the FULL symmetric matrix of 12 / 16
        // variables in row-major order (both triangles and the diagonal: 144 / 256 strictly ascending (row, column) pairs)
        let n = if full_matrix { (nt as f64).sqrt() as u64 } else { 8u64 };
        let seed = 17 + nt as u64;
        let h = |k: u64, salt: u64| (derived_coeff(seed ^ salt, k).abs() * 16.0) as u64;
        let mut p = v1::Polynomial::default();
        let mut qm = v1::Quadratic::default();
        if full_matrix {
            for r in 0..n {
                for c in 0..n {
                    qm.rows.push(r);
                    qm.columns.push(c);
                    // symmetric values
                    qm.values.push(derived_coeff(seed, r.min(c) * n + r.max(c)));
                }
            }
            qm.linear = Some(crate::mk::linear((0..n).map(|k| (k, derived_coeff(seed ^ 5, k))).collect(), 2.5));
        }
        for k in 0..(if full_matrix { 0 } else { nt as u64 }) {
            let (a, b) = (h(k, 1) % n, (h(k, 2) + k) % n);
            let ids = match h(k, 3) % 4 {
                0 => vec![a],
                1 => vec![a, a],
                _ => vec![a, b],
            };
            p.terms.push(crate::mk::monomial(ids, derived_coeff(seed, k)));
        }
        p.terms.push(crate::mk::monomial(vec![], 2.5));
        let obj = if full_matrix { crate::mk::fquad(qm) } else { crate::mk::fpoly(p) };
        let mut inst = v1::Instance::default();
        inst.sense = SENSE_MIN;
        for id in 0..n {
            let mut v = v1::DecisionVariable::default();
            v.id = id;
            v.kind = KIND_BINARY;
            inst.decision_variables.push(v);
        }
        inst.objective = Some(obj.clone());
        let mut got = Poly::zero();
        if qubo {
            match inst.as_qubo_format() {
                Ok((qm, offset)) => {
                    for (k, v) in &qm {
                        if k.0 > k.1 || *v == 0.0 {
                            return fail("C11/many-terms/qubo-key", format!("key {k:?} value {v} is not canonical / non-zero ({nt} raw terms)"));
                        }
                        got.add_term(if k.0 == k.1 { vec![k.0] } else { vec![k.0, k.1] }, q(*v));
                    }
                    got.add_term(vec![], q(offset));
                }
                Err(e) => return fail("C11/many-terms/qubo-rejected", format!("as_qubo_format failed on {nt} raw terms of degree <= 2: {e:#}")),
            }
        } else {
            match inst.as_pubo_format() {
                Ok(pm) => {
                    for (k, v) in &pm {
                        got.add_term(k.iter().copied().collect(), q(*v));
                    }
                }
                Err(e) => return fail("C11/many-terms/pubo-rejected", format!("as_pubo_format failed on {nt} raw terms: {e:#}")),
            }
        }
        let f = Poly::from_function(&obj);
        if got != f.multilinear() {
            // coefficients are dyadic: every partial sum is exact, so the export must be exact too
            for bits in 0..(1u32 << n) {
                let st: QState = (0..n).map(|id| (id, qi(((bits >> id) & 1) as i64))).collect();
                let (want, have) = (f.eval(&st).unwrap(), got.eval(&st).unwrap());
                if want != have {
                    return fail(
                        format!("C11/many-terms/{}/assignment", if qubo { "qubo" } else { "pubo" }),
                        format!("objective of {nt} raw terms over 8 binaries: at x = {bits:#010b} the dictionary gives {} but the objective is {}", q_to_f64(&have), q_to_f64(&want)),
                    );
                }
            }
            return fail(format!("C11/many-terms/{}/coefficients", if qubo { "qubo" } else { "pubo" }), format!("exported dictionary is not the multilinear form of the objective ({nt} raw terms)"));
        }
        Ok(())
    }

    fn run(&self, t: &mut Tape, ctx: &mut Ctx) -> PResult {
        let regime = if t.p(64) { Regime::General } else { Regime::Dyadic };
        ctx.label(if regime == Regime::General { "regime=general" } else { "regime=dyadic" });
        let qubo = t.coin();
        ctx.label(if qubo { "format=qubo" } else { "format=pubo" });
        let refusal = if t.p(56) { 1 + t.choice(4) } else { 0 };
        let nmax = if ctx.tier == Tier::Quick { 8 } else { 12 };
        let n = 1 + t.choice(nmax);
        let mut ids: Vec<u64> = Vec::new();
        let mut next = *t.pick(&[0u64, 1, 7, 1 << 35, u64::MAX, 2]);
        if next == 2 {
            // small ids plus one id at a word-size boundary as the largest one
            let top = *t.pick(&[31u64, 32, 63, 64, 65, 127, 128]);
            ids = (0..n as u64 - 1).collect();
            ids.push(top);
            next = top + 1;
            ctx.label("largest-id-at-word-boundary");
        } else if next == u64::MAX {
            // the n largest ids there are
            ids = (0..n as u64).map(|i| u64::MAX - (n as u64 - 1 - i)).collect();
            next = 20; // (the optional non-binary variable below gets a small id)
            ctx.label("id=u64::MAX");
        } else {
            for _ in 0..n {
                ids.push(next);
                next += 1 + t.choice(3) as u64;
            }
        }
        // objective: raw terms with repeated ids inside monomials and cancelling pairs
        let max_deg = if qubo && refusal != 4 { 4 } else { 4 };
        let nterms = t.choice(9);
        let mut terms: Vec<(Vec<u64>, f64)> = vec![];
        let mut has_sq = false;
        let mut has_cancel = false;
        let mut collapse = false;
        for _ in 0..nterms {
            if !terms.is_empty() && t.p(50) {
                // cancelling or merging partner of an earlier term (ids permuted, multiplicities changed)
                let (m, c) = terms[t.choice(terms.len())].clone();
                let mut m2 = m.clone();
                t.shuffle(&mut m2);
                let c2 = if t.coin() {
                    has_cancel = true;
                    -c
                } else {
                    gen_coeff(t, regime, false)
                };
                terms.push((m2, c2));
                continue;
            }
            let d = t.choice(max_deg + 1);
            // distinct-id budget: QUBO allows at most 2 distinct ids unless this is the refusal case
            let distinct_cap = if qubo { 2 } else { 4 };
            let mut m: Vec<u64> = vec![];
            let mut dset: BTreeSet<u64> = BTreeSet::new();
            for _ in 0..d {
                let id = if dset.len() >= distinct_cap || (t.p(90) && !m.is_empty()) { *t.pick(&m.clone()) } else { *t.pick(&ids) };
                dset.insert(id);
                m.push(id);
            }
            if m.len() != dset.len() {
                has_sq = true;
            }
            if m.len() > 2 && dset.len() <= 2 {
                collapse = true;
            }
            terms.push((m, gen_coeff(t, regime, false)));
        }
        if refusal == 4 {
            // a term with three distinct ids
            if n >= 3 {
                // plain x_a x_b x_c, or one of the three repeated (x_a^2 x_b x_c: degree four, still three distinct
                // variables), or four distinct ones; members and their order inside the monomial chosen by the tape
                let mut pool = ids.clone();
                t.shuffle(&mut pool);
                let mut m = vec![pool[0], pool[1], pool[2]];
                match t.choice(4) {
                    0 => {}
                    1 | 2 => {
                        let r = m[t.choice(3)];
                        m.push(r);
                        ctx.label("refusal=qubo-3-distinct-with-a-repeated-id");
                    }
                    _ => {
                        if n >= 4 {
                            m.push(pool[3]);
                        }
                    }
                }
                t.shuffle(&mut m);
                terms.push((m, 1.5));
            }
        }
        let cfg = FuncCfg { regime, allow_unset: false, ..FuncCfg::default() };
        let obj = render(t, &terms, &cfg, ctx);
        let mut inst = v1::Instance::default();
        inst.sense = SENSE_MIN;
        for id in &ids {
            let mut v = v1::DecisionVariable::default();
            v.id = *id;
            v.kind = KIND_BINARY;
            if t.coin() {
                v.bound = Some(crate::mk::bound(0.0, 1.0));
            }
            inst.decision_variables.push(v);
        }
        inst.objective = Some(obj.clone());
        let absent_objective = terms.is_empty() && matches!(refusal, 0 | 1 | 2) && t.coin();
        if absent_objective {
            // an absent objective is the zero function
            inst.objective = None;
            ctx.label("objective-absent");
            if refusal != 0 {
                ctx.label("objective-absent+refusal");
            }
        }
        // variables that are not binary but are not used by the objective do not prevent the export,
        // even when a removed constraint (e.g. one relaxed with an integer slack) mentions them
        let mut foreign: Option<u64> = None;
        if t.p(64) {
            let mut v = v1::DecisionVariable::default();
            v.id = next + 5;
            v.kind = if t.coin() { KIND_CONTINUOUS } else { KIND_INTEGER };
            v.bound = Some(crate::mk::bound(-3.0, 3.0));
            foreign = Some(v.id);
            inst.decision_variables.push(v);
            ctx.label("unused-non-binary-variable");
        }
        // removed constraints do not prevent the export
        if t.p(64) {
            let mut c = v1::Constraint::default();
            c.id = 3;
            c.equality = EQ_ZERO;
            let mut lt = vec![(ids[0], 1.0)];
            if let Some(fid) = foreign {
                lt.push((fid, -1.0));
                ctx.label("non-binary-variable-in-removed-constraint");
            }
            c.function = Some(crate::mk::flin(crate::mk::linear(lt, 0.0)));
            let mut rc = v1::RemovedConstraint::default();
            rc.constraint = Some(c);
            rc.removed_reason = "penalty".into();
            inst.removed_constraints.push(rc);
            ctx.label("removed-constraint-present");
        }
        // values recorded by an earlier with_parameters; their ids may since have been given to binaries created later
        // (log_encode numbers its bits from the same counter as the penalty weights): history, not a definition
        if t.p(40) {
            let mut p = v1::Parameters::default();
            p.entries.insert(ids[t.choice(ids.len())], 2.5);
            if t.coin() {
                p.entries.insert(next + 9, 1.0);
            }
            inst.parameters = Some(p);
            ctx.label("recorded-parameter-id-is-a-binary-id");
        }
        let mut expect_err = false;
        match refusal {
            1 => {
                let mut c = v1::Constraint::default();
                c.id = 1;
                c.equality = LE_ZERO;
                // whatever the remaining constraint says (also 0 = 0 as left behind by a partial evaluation), it is active
                c.function = match t.choice(5) {
                    0 => Some(crate::mk::fconst(-1.0)),
                    1 => {
                        ctx.label("refusal=constraint-with-zero-function");
                        Some(crate::mk::fconst(0.0))
                    }
                    2 => {
                        ctx.label("refusal=constraint-with-zero-function");
                        Some(crate::mk::flin(crate::mk::linear(vec![], 0.0)))
                    }
                    3 => {
                        c.equality = EQ_ZERO;
                        ctx.label("refusal=constraint-with-zero-function");
                        Some(crate::mk::flin(crate::mk::linear(vec![(ids[0], 0.0)], 0.0)))
                    }
                    _ => Some(crate::mk::flin(crate::mk::linear(vec![(ids[0], 1.0)], -1.0))),
                };
                inst.constraints.push(c);
                ctx.label("refusal=constraint");
                expect_err = true;
            }
            2 => {
                inst.sense = SENSE_MAX;
                ctx.label("refusal=maximize");
                expect_err = true;
            }
            3 => {
                let really_used = Poly::from_function(&obj).multilinear().vars();
                if let Some(victim) = really_used.iter().next() {
                    for v in inst.decision_variables.iter_mut() {
                        if v.id == *victim {
                            v.kind = if t.coin() { KIND_INTEGER } else { KIND_CONTINUOUS };
                            v.bound = Some(crate::mk::bound(0.0, 1.0));
                        }
                    }
                    ctx.label("refusal=non-binary");
                    expect_err = true;
                }
            }
            4 => {
                // only a refusal for QUBO, and only if the 3-distinct term survives with non-zero coefficient
                let ml = Poly::from_function(&obj).multilinear();
                let has3 = ml.terms.keys().any(|k| k.len() >= 3);
                if qubo && has3 {
                    ctx.label("refusal=qubo-3-distinct");
                    expect_err = true;
                }
            }
            _ => {}
        }
        // a binary fixed earlier (partial_evaluate records the value) that a later substitution brought back into the
        // objective: it is still a binary variable the objective uses
        if t.p(40) {
            let victim = ids[t.choice(ids.len())];
            let val = if t.coin() { 1.0 } else { 0.0 };
            for v in inst.decision_variables.iter_mut() {
                if v.id == victim && v.kind == KIND_BINARY {
                    v.substituted_value = Some(val);
                    ctx.label("binary-with-recorded-value");
                }
            }
        }
        // the list of decision variables is in no particular order
        {
            let before: Vec<u64> = inst.decision_variables.iter().map(|v| v.id).collect();
            t.shuffle(&mut inst.decision_variables);
            if inst.decision_variables.iter().map(|v| v.id).collect::<Vec<_>>() != before {
                ctx.label("shuffled-variable-list");
            }
        }
        if has_sq {
            ctx.label("x^2");
        }
        if has_cancel {
            ctx.label("cancel");
        }
        if collapse {
            ctx.label("deg>2-collapses-to-pair");
        }
        if n >= 3 && (has_sq || has_cancel) {
            ctx.nontrivial();
        }
        if expect_err {
            ctx.nontrivial();
        }
        ctx.fp_msg(&obj);
        ctx.fp_dbg(&ids);
        ctx.fp(&[qubo as u8, refusal as u8, inst.sense as u8, inst.constraints.len() as u8]);
        ctx.fp_dbg(&inst.decision_variables.iter().map(|v| v.kind).collect::<Vec<_>>());
        ctx.sample_with(|| json!({"format": if qubo {"qubo"} else {"pubo"}, "refusal": refusal, "ids": ids, "objective": fn_json(&obj)}));
        let what = || format!("objective {obj:?} over binary ids {ids:?} (refusal case {refusal})");

        // the exported dictionary as an exact polynomial
        let mut got = Poly::zero();
        if qubo {
            match inst.as_qubo_format() {
                Ok((qm, offset)) => {
                    if expect_err {
                        return fail(format!("C11/qubo/refusal-{refusal}-accepted"), format!("as_qubo_format accepted: {}", what()));
                    }
                    for (k, v) in &qm {
                        if k.0 > k.1 {
                            return fail("C11/qubo/key-not-canonical", format!("key ({}, {}) has i > j: {}", k.0, k.1, what()));
                        }
                        if *v == 0.0 {
                            return fail("C11/qubo/zero-stored", format!("stored zero coefficient at {:?}: {}", k, what()));
                        }
                        let key = if k.0 == k.1 { vec![k.0] } else { vec![k.0, k.1] };
                        if !got.coeff(&key).is_zero() {
                            return fail("C11/qubo/duplicate-key", format!("two keys denote the same pair {:?}: {}", key, what()));
                        }
                        got.add_term(key, q(*v));
                    }
                    got.add_term(vec![], q(offset));
                }
                Err(e) => {
                    if expect_err {
                        return Ok(());
                    }
                    // QUBO legitimately refuses terms with more than two distinct ids
                    let ml_raw_3 = raw_terms(&obj).iter().any(|(k, c)| c.abs() > f64::EPSILON && k.iter().collect::<BTreeSet<_>>().len() >= 3);
                    if ml_raw_3 {
                        ctx.label("qubo-3-distinct-raw-term");
                        return Ok(());
                    }
                    return fail("C11/qubo/rejected", format!("as_qubo_format failed ({e:#}): {}", what()));
                }
            }
        } else {
            match inst.as_pubo_format() {
                Ok(pm) => {
                    if expect_err {
                        return fail(format!("C11/pubo/refusal-{refusal}-accepted"), format!("as_pubo_format accepted: {}", what()));
                    }
                    for (k, v) in &pm {
                        if *v == 0.0 {
                            return fail("C11/pubo/zero-stored", format!("stored zero coefficient at {:?}: {}", k, what()));
                        }
                        let key: Vec<u64> = k.iter().copied().collect();
                        got.add_term(key, q(*v));
                    }
                }
                Err(e) => {
                    if expect_err {
                        return Ok(());
                    }
                    return fail("C11/pubo/rejected", format!("as_pubo_format failed ({e:#}): {}", what()));
                }
            }
        }
        // oracle 1: multilinear reduction (unique representation over {0,1}^n)
        let exact = Poly::from_function(&obj).multilinear();
        // magnitudes per multilinear key
        let mut mag = AbsPoly::new();
        let mut cnt = 0usize;
        for (k, c) in raw_terms(&obj) {
            let mut kk = k.clone();
            kk.sort_unstable();
            kk.dedup();
            *mag.entry(kk).or_default() += c.abs();
            cnt += 1;
        }
        let mag1: AbsPoly = mag.keys().map(|k| (k.clone(), cnt as f64)).collect();
        if let Err(e) = compare_poly(&got, &exact, regime == Regime::Dyadic, &mag, &mag1, 4 * (cnt + 8), 2.0) {
            return fail(format!("C11/{}/coefficients", if qubo { "qubo" } else { "pubo" }), format!("exported dictionary is not the multilinear form of the objective: {e}\n {}", what()));
        }
        // oracle 2: brute force over all 2^n assignments
        let f = Poly::from_function(&obj);
        let total_tol: f64 = mag.values().sum::<f64>() * gamma(4 * (cnt + 8)) + f64::EPSILON * (2.0 * cnt as f64 + 2.0) * mag.len().max(1) as f64;
        for bits in 0..(1u32 << n) {
            let st: QState = ids.iter().enumerate().map(|(i, id)| (*id, qi(((bits >> i) & 1) as i64))).collect();
            let want = f.eval(&st).unwrap();
            let have = got.eval(&st).unwrap();
            let ok = if regime == Regime::Dyadic { want == have } else { (want.clone() - have.clone()).abs() <= q(total_tol) };
            if !ok {
                return fail(
                    format!("C11/{}/assignment", if qubo { "qubo" } else { "pubo" }),
                    format!("at x = {:?} the dictionary gives {} but the objective is {}: {}", st.iter().map(|(k, v)| (*k, q_to_f64(v))).collect::<Vec<_>>(), q_to_f64(&have), q_to_f64(&want), what()),
                );
            }
        }
        Ok(())
    }
}
