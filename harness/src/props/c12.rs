//! C12 Log-encoding covers exactly the integer range.

use crate::driver::{fail, Ctx, Failure, PResult, Property, Tier};
use crate::model::*;
use crate::tape::{self, Tape};
use ommx::v1;
use serde_json::json;
use std::collections::BTreeSet;

pub struct C12;

const SECOND_ID: u64 = 6;
/// extra sweep cases at the edge of the quantifier's domain |l|,|u| <= 2^20: lower = -2^20 with widths 2^k-1, 2^k, 2^k+1 (k = 1..21, clipped), and a few corners
const CORNERS: usize = 21 * 3 + 6;

#[derive(Clone, Debug)]
struct Case {
    lower: f64,
    upper: f64,
    /// 0 ok, 1 unknown id, 2 binary kind, 3 continuous kind, 4 no bound, 5 lower=-inf, 6 upper=+inf, 7 both inf, 8 NaN, 9 no integer inside, 10 inverted bound
    class: u8,
    others: u8,
    target_pos: u8,
    /// what else the instance carries (left behind by other API calls): bit 0 = the target variable has a recorded
    /// value (partial_evaluate), bit 1 = that value is fractional, bit 2 = the instance records parameter values
    /// (with_parameters), bit 3 = a removed constraint exists, bit 5 = follow up with substitute + tightened bound + second encoding of the same variable, bit 6 = the variable with the largest id is a dependent variable (eliminated by an earlier substitute)
    decor: u8,
}

fn build(case: &Case) -> (v1::Instance, u64) {
    let mut inst = v1::Instance::default();
    inst.sense = SENSE_MIN;
    let target: u64 = 5;
    let mut ids: Vec<u64> = vec![target];
    // other variables, some with larger ids (fresh ids must lie above all of them)
    let extra = [0u64, 3, 9, 40, 1 << 33];
    for i in 0..(case.others as usize % 6) {
        ids.push(extra[i % extra.len()]);
    }
    let pos = case.target_pos as usize % ids.len();
    ids.swap(0, pos);
    for id in &ids {
        let mut v = v1::DecisionVariable::default();
        v.id = *id;
        if *id == target {
            v.kind = match case.class {
                2 => KIND_BINARY,
                3 => KIND_CONTINUOUS,
                _ => KIND_INTEGER,
            };
            v.bound = if case.class == 4 { None } else { Some(crate::mk::bound(case.lower, case.upper)) };
            v.name = Some("target".into());
            if case.decor & 1 != 0 {
                // the variable stays an integer variable with this bound; a recorded value does not change its range
                let inside = if case.lower.is_finite() { case.lower.ceil() + 1.0 } else { 3.0 };
                v.substituted_value = Some(if case.decor & 2 != 0 { 0.5 } else { inside });
            }
        } else {
            v.kind = KIND_CONTINUOUS;
            v.bound = Some(crate::mk::bound(-1.0, 1.0));
        }
        inst.decision_variables.push(v);
    }
    // a second integer variable for the multi-step case (encode one variable after the other)
    {
        let mut v = v1::DecisionVariable::default();
        v.id = SECOND_ID;
        v.kind = KIND_INTEGER;
        v.bound = Some(crate::mk::bound(-2.0, 3.5));
        inst.decision_variables.insert(case.others as usize % (inst.decision_variables.len() + 1), v);
    }
    inst.objective = Some(crate::mk::flin(crate::mk::linear(vec![(target, 2.0)], 1.0)));
    let mut c = v1::Constraint::default();
    c.id = 1;
    c.equality = LE_ZERO;
    c.function = Some(crate::mk::flin(crate::mk::linear(vec![(target, 1.0)], -3.0)));
    inst.constraints.push(c);
    if case.decor & 4 != 0 {
        let mut p = v1::Parameters::default();
        p.entries.insert(2, 1.5);
        p.entries.insert(7, -1.0);
        if case.decor & 16 != 0 {
            p.entries.insert(1 << 34, 0.25);
        }
        inst.parameters = Some(p);
    }
    if case.decor & 8 != 0 {
        let mut rc = v1::RemovedConstraint::default();
        let mut c = v1::Constraint::default();
        c.id = 2;
        c.equality = EQ_ZERO;
        c.function = Some(crate::mk::flin(crate::mk::linear(vec![(SECOND_ID, 1.0)], 0.0)));
        rc.constraint = Some(c);
        rc.removed_reason = "relaxed".into();
        inst.removed_constraints.push(rc);
    }
    if case.decor & 64 != 0 {
        // the variable holding the LARGEST id was eliminated by an earlier substitute: it is still a decision variable of
        // the instance and a key of the dependency map (fresh ids must lie above it all the same)
        let top = inst.decision_variables.iter().map(|v| v.id).max().unwrap();
        let dep = if top == target || top == SECOND_ID {
            let mut v = v1::DecisionVariable::default();
            v.id = top + 3;
            v.kind = KIND_CONTINUOUS;
            inst.decision_variables.insert(0, v);
            top + 3
        } else {
            top
        };
        inst.decision_variable_dependency.insert(dep, crate::mk::flin(crate::mk::linear(vec![(SECOND_ID, 3.0)], 1.0)));
    }
    (inst, if case.class == 1 { 4242 } else { target })
}

fn check_case(case: &Case, ctx: &mut Ctx) -> PResult {
    let (inst0, id) = build(case);
    let mut inst = inst0.clone();
    let what = || format!("log_encode({id}) with bound [{}, {}] (class {}), variables {:?}", case.lower, case.upper, case.class, inst0.decision_variables.iter().map(|v| (v.id, v.kind)).collect::<Vec<_>>());
    let r = inst.log_encode(id);
    if case.class != 0 {
        return match r {
            Err(_) => {
                // NaN-aware comparison (a NaN bound is not equal to itself)
                if inst != inst0 && prost::Message::encode_to_vec(&inst) != prost::Message::encode_to_vec(&inst0) {
                    return fail("C12/error-modified-instance", format!("log_encode failed but modified the instance: {}", what()));
                }
                Ok(())
            }
            Ok(l) => fail(format!("C12/error-class-{}-accepted", case.class), format!("log_encode returned {l:?} but must fail: {}", what())),
        };
    }
    let lin = match r {
        Ok(l) => l,
        Err(e) => return fail("C12/valid-range-rejected", format!("log_encode failed ({e:#}): {}", what())),
    };
    let lo = case.lower.ceil();
    let hi = case.upper.floor();
    let width = (hi - lo) as u64;
    // new variables
    let old_ids: BTreeSet<u64> = inst0.decision_variables.iter().map(|v| v.id).collect();
    // the registered binaries = the variables whose id did not exist before (wherever they are put in the list); the
    // others must be exactly the old ones
    {
        let mut kept: Vec<v1::DecisionVariable> = vec![];
        let mut seen_old = BTreeSet::new();
        for v in &inst.decision_variables {
            if old_ids.contains(&v.id) && seen_old.insert(v.id) {
                kept.push(v.clone());
            }
        }
        let mut orig = inst0.decision_variables.clone();
        kept.sort_by_key(|v| v.id);
        orig.sort_by_key(|v| v.id);
        // the encoded variable itself: its bound may be written back as the integer range it contains ([-1.5, 4.2] ->
        // [-1, 4]); everything else about it, and all other variables, unchanged
        for (k, o) in kept.iter_mut().zip(orig.iter()) {
            // notes an implementation leaves on the encoded variable (parameters, description) are not in the statement
            if k.id == id && o.id == id && (k.parameters != o.parameters || k.description != o.description) {
                ctx.label("encoded-variable-annotated");
                k.parameters = o.parameters.clone();
                k.description = o.description.clone();
            }
            if k.id == id && o.id == id && k.bound != o.bound {
                if let (Some(kb), Some(ob)) = (&k.bound, &o.bound) {
                    if kb.lower.ceil() == ob.lower.ceil() && kb.upper.floor() == ob.upper.floor() && kb.lower >= ob.lower && kb.upper <= ob.upper {
                        ctx.label("encoded-variable-bound-normalised");
                        k.bound = o.bound.clone();
                    }
                }
            }
        }
        if kept != orig {
            return fail("C12/existing-variables-changed", format!("existing variables changed: {}", what()));
        }
    }
    let mut first_old = BTreeSet::new();
    let new_vars: Vec<v1::DecisionVariable> = inst.decision_variables.iter().filter(|v| !(old_ids.contains(&v.id) && first_old.insert(v.id))).cloned().collect();
    let mut new_ids = BTreeSet::new();
    for v in &new_vars {
        if old_ids.contains(&v.id) || !new_ids.insert(v.id) {
            return fail("C12/new-id-not-fresh", format!("new variable id {} is not fresh/unique: {}", v.id, what()));
        }
        if v.kind != KIND_BINARY {
            return fail("C12/new-variable-kind", format!("new variable {} is not binary: {}", v.id, what()));
        }
        if v.bound.as_ref().map(|b| (b.lower, b.upper)) != Some((0.0, 1.0)) {
            return fail("C12/new-variable-bound", format!("new variable {} has bound {:?}: {}", v.id, v.bound, what()));
        }
        if v.subscripts.first() != Some(&(id as i64)) {
            return fail("C12/new-variable-tag", format!("new variable {} is not tagged with the encoded id (subscripts {:?}): {}", v.id, v.subscripts, what()));
        }
    }
    {
        let mut a = inst.clone();
        let mut b = inst0.clone();
        a.decision_variables.clear();
        b.decision_variables.clear();
        if a != b {
            return fail("C12/other-fields-changed", format!("objective/constraints changed by log_encode: {}", what()));
        }
    }
    // the expression
    let term_ids: Vec<u64> = lin.terms.iter().map(|t| t.id).collect();
    let term_set: BTreeSet<u64> = term_ids.iter().copied().collect();
    if term_set.len() != term_ids.len() || term_set != new_ids {
        return fail("C12/terms-vs-new-variables", format!("expression uses ids {term_ids:?}, new variables are {new_ids:?}: {}", what()));
    }
    if lin.constant != lo {
        return fail("C12/constant", format!("constant is {}, expected ceil(lower) = {lo}: {}", lin.constant, what()));
    }
    // multi-step: encode a second variable on the same instance; its binaries must be fresh with respect to
    // everything that exists now (including the binaries of the first encoding)
    {
        let mut inst2 = inst.clone();
        // what may happen between two encodings (decor bit 7): a later variable with a larger id enters at the FRONT of the
        // list (a slack, a user's own variable), so that the list no longer ends with the largest id; or the variable that
        // holds the largest id (the top bit of the first encoding) is fixed by a partial evaluation and carries a recorded value
        if case.decor & 128 != 0 {
            let top = inst2.decision_variables.iter().map(|v| v.id).max().unwrap();
            if case.others % 2 == 0 && top < u64::MAX - 16 {
                let mut v = v1::DecisionVariable::default();
                v.id = top + 1; // the very next id, as the SDK itself numbers a slack or a weight parameter
                v.kind = KIND_CONTINUOUS;
                v.name = Some("later".into());
                inst2.decision_variables.insert(0, v);
                ctx.label("between-encodings=larger-id-enters-at-the-front");
            } else {
                for v in inst2.decision_variables.iter_mut().filter(|v| v.id == top) {
                    v.substituted_value = Some(1.0);
                }
                ctx.label("between-encodings=largest-id-gets-a-recorded-value");
            }
        }
        let ids_now: BTreeSet<u64> = inst2.decision_variables.iter().map(|v| v.id).collect();
        match inst2.log_encode(SECOND_ID) {
            Ok(l2) => {
                ctx.label("second-encode");
                let added: Vec<v1::DecisionVariable> = inst2.decision_variables.iter().filter(|v| !ids_now.contains(&v.id)).cloned().collect();
                if inst2.decision_variables.len() != ids_now.len() + added.len() {
                    return fail("C12/second-encode/new-id-not-fresh", format!("second log_encode registered a variable under an existing id (ids before {:?}, after {:?}): {}", ids_now, inst2.decision_variables.iter().map(|v| v.id).collect::<Vec<_>>(), what()));
                }
                let added = &added;
                let mut fresh = BTreeSet::new();
                for v in added {
                    if ids_now.contains(&v.id) || !fresh.insert(v.id) {
                        return fail("C12/second-encode/new-id-not-fresh", format!("second log_encode reused id {} (existing ids {:?}): {}", v.id, ids_now, what()));
                    }
                    if v.kind != KIND_BINARY || v.subscripts.first() != Some(&(SECOND_ID as i64)) {
                        return fail("C12/second-encode/new-variable-shape", format!("second log_encode: variable {} kind {} subscripts {:?}: {}", v.id, v.kind, v.subscripts, what()));
                    }
                }
                // [-2, 3.5] -> integers -2..=3: value set over all bit patterns
                let coefs: Vec<f64> = l2.terms.iter().map(|t| t.coefficient).collect();
                let tids: BTreeSet<u64> = l2.terms.iter().map(|t| t.id).collect();
                if tids != fresh || coefs.len() > 8 {
                    return fail("C12/second-encode/terms-vs-new-variables", format!("second expression uses ids {tids:?}, new variables {fresh:?}: {}", what()));
                }
                let mut vals = BTreeSet::new();
                for bits in 0u32..(1 << coefs.len()) {
                    let mut x = l2.constant;
                    for (i, c) in coefs.iter().enumerate() {
                        if (bits >> i) & 1 == 1 {
                            x += c;
                        }
                    }
                    vals.insert(x as i64);
                    if x.fract() != 0.0 {
                        return fail("C12/second-encode/non-integer-value", format!("second encoding takes the value {x}: {}", what()));
                    }
                }
                let want: BTreeSet<i64> = (-2..=3).collect();
                if vals != want {
                    return fail("C12/second-encode/value-set", format!("second encoding takes values {vals:?}, range is -2..=3: {}", what()));
                }
            }
            Err(e) => return fail("C12/second-encode/err", format!("second log_encode failed ({e:#}): {}", what())),
        }
    }
    // multi-step: encode, substitute the encoding for the variable, tighten the bound, encode the same variable
    // again -- the second encoding must again consist of fresh binaries covering exactly the (new) range
    if width >= 1 && case.decor & 32 != 0 {
        let mut inst3 = inst.clone();
        let mut rep = std::collections::HashMap::new();
        rep.insert(id, crate::mk::flin(lin.clone()));
        if inst3.substitute(rep).is_ok() {
            ctx.label("encode-substitute-encode");
            let (lo2, hi2) = if width >= 3 { (lo + 1.0, hi - 1.0) } else { (lo, hi) };
            for v in inst3.decision_variables.iter_mut().filter(|v| v.id == id) {
                v.bound = Some(crate::mk::bound(lo2, hi2));
            }
            let ids_now: BTreeSet<u64> = inst3.decision_variables.iter().map(|v| v.id).collect();
            let n_before = inst3.decision_variables.len();
            match inst3.log_encode(id) {
                Ok(l3) => {
                    let added: BTreeSet<u64> = inst3.decision_variables.iter().map(|v| v.id).filter(|i| !ids_now.contains(i)).collect();
                    let tids: BTreeSet<u64> = l3.terms.iter().map(|t| t.id).collect();
                    if added.iter().any(|i| ids_now.contains(i)) || added.len() != inst3.decision_variables.len() - n_before {
                        return fail("C12/re-encode/new-id-not-fresh", format!("encoding the variable again reused ids {added:?} (existing {ids_now:?}): {}", what()));
                    }
                    if tids != added {
                        return fail("C12/re-encode/terms-vs-new-variables", format!("encoding the variable again (after substitute) returned an expression over {tids:?} but registered {added:?}: {}", what()));
                    }
                    if let Err(m) = covers_exactly(&l3, lo2, (hi2 - lo2) as u64) {
                        return fail("C12/re-encode/value-set", format!("encoding the variable again with bound [{lo2}, {hi2}]: {m}: {}", what()));
                    }
                }
                Err(e) => return fail("C12/re-encode/err", format!("encoding the variable again after substitute failed ({e:#}): {}", what())),
            }
        }
    }
    if width == 0 {
        ctx.label("single-integer");
        if !lin.terms.is_empty() {
            return fail("C12/single-integer-has-variables", format!("single-integer range produced variables: {}", what()));
        }
        return Ok(());
    }
    let mut coefs: Vec<u64> = vec![];
    for t in &lin.terms {
        if !(t.coefficient >= 1.0) || t.coefficient.fract() != 0.0 || t.coefficient > 1e15 {
            return fail("C12/coefficient-not-positive-integer", format!("coefficient {} of id {} is not a positive integer: {}", t.coefficient, t.id, what()));
        }
        coefs.push(t.coefficient as u64);
    }
    let sum: u64 = coefs.iter().sum();
    if width <= 4096 {
        ctx.label("oracle=all-bit-patterns");
        // all 2^n bit patterns (n <= 13 for a correct encoding; refuse absurd n)
        let n = coefs.len();
        if n > 20 {
            return fail("C12/too-many-bits", format!("{n} binary variables for a range of width {width}: {}", what()));
        }
        let mut seen = vec![false; width as usize + 1];
        for bits in 0u32..(1u32 << n) {
            let mut v: u64 = 0;
            for (i, c) in coefs.iter().enumerate() {
                if (bits >> i) & 1 == 1 {
                    v += c;
                }
            }
            if v > width {
                return fail("C12/value-outside-range", format!("bit pattern {bits:#b} gives {} + {v} which exceeds floor(upper) = {hi}: {}", lo, what()));
            }
            seen[v as usize] = true;
        }
        if let Some(miss) = seen.iter().position(|s| !s) {
            return fail("C12/value-not-covered", format!("integer {} of the range is not representable: coefficients {coefs:?}: {}", lo + miss as f64, what()));
        }
    } else {
        ctx.label("width>4096");
        ctx.label("oracle=complete-sequence");
        let mut s = coefs.clone();
        s.sort_unstable();
        let mut acc: u64 = 0;
        for c in &s {
            if *c > acc + 1 {
                return fail("C12/value-not-covered", format!("coefficients {coefs:?} leave a gap after {acc}: {}", what()));
            }
            acc += c;
        }
        if sum != width {
            return fail("C12/value-outside-range", format!("coefficients sum to {sum}, range width is {width}: {}", what()));
        }
    }
    Ok(())
}

/// the expression takes exactly the values lo ..= lo + width over all bit patterns
fn covers_exactly(lin: &v1::Linear, lo: f64, width: u64) -> Result<(), String> {
    if lin.constant != lo {
        return Err(format!("constant {} instead of {lo}", lin.constant));
    }
    let mut coefs: Vec<u64> = vec![];
    for t in &lin.terms {
        if !(t.coefficient >= 1.0) || t.coefficient.fract() != 0.0 || t.coefficient > 1e15 {
            return Err(format!("coefficient {} is not a positive integer", t.coefficient));
        }
        coefs.push(t.coefficient as u64);
    }
    coefs.sort_unstable();
    let mut acc: u64 = 0;
    for c in &coefs {
        if *c > acc + 1 {
            return Err(format!("coefficients {coefs:?} leave a gap after {acc}"));
        }
        acc += c;
    }
    if acc != width {
        return Err(format!("coefficients {coefs:?} reach {acc}, the range has width {width}"));
    }
    Ok(())
}

/// the neighbouring double above (`up`) or below `x`
fn step(x: f64, up: bool) -> f64 {
    if x == 0.0 {
        return if up { f64::from_bits(1) } else { -f64::from_bits(1) };
    }
    let b = x.to_bits();
    f64::from_bits(if (x > 0.0) == up { b + 1 } else { b - 1 })
}

fn decode(t: &mut Tape, ctx: &mut Ctx) -> Case {
    let class = if t.p(80) { 1 + t.choice(10) as u8 } else { 0 };
    let others = t.byte();
    let target_pos = t.byte();
    let decor = if t.p(110) { t.byte() } else { 0 };
    if decor & 1 != 0 {
        ctx.label("target-has-recorded-value");
    }
    if decor & 64 != 0 {
        ctx.label("largest-id-is-a-dependent-variable");
    }
    if decor & 4 != 0 {
        ctx.label("instance-records-parameters");
    }
    let frac = |t: &mut Tape| *t.pick(&[0.0, 0.5, 0.25, 0.999, 0.001, 0.75, 5e-7, 0.9999995, 1e-7, 0.9999999, 2e-6, 0.999998]);
    let (mut lower, mut upper);
    match t.weighted(&[5, 3, 2]) {
        0 => {
            lower = t.int_around(0, -40, 40) as f64;
            upper = lower + t.choice(70) as f64;
        }
        1 => {
            let a = t.int_around(0, -(1 << 20), 1 << 20);
            let b = t.int_around(0, -(1 << 20), 1 << 20);
            lower = a.min(b) as f64;
            upper = a.max(b) as f64;
            ctx.label("wide-random");
        }
        _ => {
            lower = t.int_around(0, -100, 100) as f64;
            let w = [1u64, 2, 3, 7, 8, 9, 255, 256, 257, 4095, 4096, 4097, 65535, 65536, 1 << 20][t.choice(15)];
            upper = lower + w as f64;
        }
    }
    if t.p(100) {
        lower -= frac(t);
        upper += frac(t);
        ctx.label("fractional-bound");
    }
    // the doubles next to an integer: upper = largest double below k + 1 (floor = k), lower = smallest double above
    // k - 1 (ceil = k); the integer range is unchanged
    let ulp_mode = if t.p(40) { 1 + t.choice(3) } else { 0 };
    if ulp_mode & 1 != 0 {
        upper = step(upper.floor() + 1.0, false);
        ctx.label("upper-one-ulp-below-integer");
    }
    if ulp_mode & 2 != 0 {
        lower = step(lower.ceil() - 1.0, true);
        ctx.label("lower-one-ulp-above-integer");
    }
    match class {
        5 => lower = f64::NEG_INFINITY,
        6 => upper = f64::INFINITY,
        7 => {
            // both ends infinite: the whole line, or a "point" at infinity
            let (a, b) = *t.pick(&[(f64::NEG_INFINITY, f64::INFINITY), (f64::NEG_INFINITY, f64::INFINITY), (f64::INFINITY, f64::INFINITY), (f64::NEG_INFINITY, f64::NEG_INFINITY)]);
            lower = a;
            upper = b;
            if a == b {
                ctx.label("bound-is-a-point-at-infinity");
            }
        }
        8 => {
            if t.coin() {
                lower = f64::NAN;
            } else {
                upper = f64::NAN;
            }
        }
        9 => {
            // no integer inside: well inside a unit interval, or hugging an integer from one side
            let k = lower.floor();
            let (a, b) = *t.pick(&[(0.25, 0.75), (0.25, 0.75), (1e-7, 2e-7), (-2e-7, -1e-7), (5e-7, 0.5), (0.5, 1.0 - 5e-7)]);
            lower = k + a;
            upper = k + b;
            if t.p(40) {
                // a one-point range one ulp beside the integer
                let x = step(k, t.coin());
                lower = x;
                upper = x;
            }
            if (lower - lower.round()).abs() < 1e-6 || (upper - upper.round()).abs() < 1e-6 {
                ctx.label("empty-range-hugging-an-integer");
            }
        }
        10 => {
            // inverted bound: contains no integer (nothing at all)
            let k = lower.floor();
            lower = k + 3.0;
            upper = k;
        }
        _ => {}
    }
    Case { lower, upper, class, others, target_pos, decor }
}

const CLASS_NAMES: [&str; 11] = ["ok", "unknown-id", "binary-kind", "continuous-kind", "no-bound", "lower=-inf", "upper=+inf", "both-infinite", "nan", "no-integer-inside", "inverted-bound"];

impl C12 {
    /// run the risky call in a child process: "an error, not a hang"
    fn in_child(&self, bytes: &[u8], case: &Case) -> PResult {
        let exe = std::env::current_exe().map_err(|e| Failure { signature: "C12/infra".into(), message: format!("{e}") })?;
        let hex = tape::to_hex(bytes);
        let cmd = format!("ulimit -v 4000000; exec '{}' child C12 {}", exe.display(), if hex.is_empty() { "00".to_string() } else { hex });
        let mut child = match std::process::Command::new("sh").arg("-c").arg(&cmd).stdout(std::process::Stdio::piped()).stderr(std::process::Stdio::null()).spawn() {
            Ok(c) => c,
            Err(e) => crate::driver::inconclusive(&format!("cannot spawn child: {e}")),
        };
        let start = std::time::Instant::now();
        loop {
            match child.try_wait() {
                Ok(Some(st)) => {
                    let mut out = String::new();
                    if let Some(mut o) = child.stdout.take() {
                        use std::io::Read;
                        let _ = o.read_to_string(&mut out);
                    }
                    return match st.code() {
                        Some(0) => Ok(()),
                        Some(3) => {
                            let (sig, msg) = out.split_once('\n').unwrap_or((out.as_str(), ""));
                            Err(Failure { signature: sig.trim().to_string(), message: msg.trim().to_string() })
                        }
                        other => fail(
                            format!("C12/crash-on-{}", CLASS_NAMES[case.class as usize]),
                            format!("log_encode on bound [{}, {}] ({}) did not return: child ended with {:?} (abort / out of memory) instead of an error", case.lower, case.upper, CLASS_NAMES[case.class as usize], other),
                        ),
                    };
                }
                Ok(None) => {
                    if start.elapsed().as_secs() >= 20 {
                        let _ = child.kill();
                        let _ = child.wait();
                        return fail(
                            format!("C12/hang-on-{}", CLASS_NAMES[case.class as usize]),
                            format!("log_encode on bound [{}, {}] ({}) did not return within 20 s (normal cost: microseconds)", case.lower, case.upper, CLASS_NAMES[case.class as usize]),
                        );
                    }
                    std::thread::sleep(std::time::Duration::from_millis(2));
                }
                Err(e) => crate::driver::inconclusive(&format!("child wait failed: {e}")),
            }
        }
    }
}

impl Property for C12 {
    fn id(&self) -> &'static str {
        "C12"
    }
    fn rule(&self) -> &'static str {
        "sweep = every lower in [-6,6] x every width 0..600 (quick) / 0..4096 (thorough) plus widths 2^k-1, 2^k, 2^k+1 up to 4097, each checked on ALL bit patterns; random = ranges with |l|,|u|<=2^20, fractional bounds, doubles adjacent to integers, empty ranges hugging an integer, points at infinity, other variables with larger ids, a recorded value on the variable, recorded parameter values / removed constraints on the instance, the largest id held by a dependent (substituted) variable, encode -> substitute -> tighten -> encode again, and every error class (unknown id, binary/continuous kind, no bound, lower=-inf, upper=+inf, both, NaN, no integer inside; the infinite/NaN classes run in a child process under a 20 s / 4 GB limit because the statement is 'an error, not a hang'); \
         oracle = value set over all bit patterns (width<=4096) or complete-sequence criterion; non-trivial = width>=2 and not 2^k-1, or an error class; distinct = (lower, upper, class, layout)"
    }
    fn required_labels(&self) -> Vec<String> {
        let mut v: Vec<String> = CLASS_NAMES.iter().map(|c| format!("class={c}")).collect();
        v.extend(["fractional-bound", "width>4096", "single-integer", "oracle=all-bit-patterns", "oracle=complete-sequence", "child-process", "second-encode", "target-has-recorded-value", "instance-records-parameters", "encode-substitute-encode", "upper-one-ulp-below-integer", "lower-one-ulp-above-integer", "empty-range-hugging-an-integer", "bound-is-a-point-at-infinity", "largest-id-is-a-dependent-variable", "between-encodings=larger-id-enters-at-the-front", "between-encodings=largest-id-gets-a-recorded-value"].iter().map(|s| s.to_string()));
        v
    }
    fn cases(&self, tier: Tier) -> usize {
        match tier {
            Tier::Quick => 12_000,
            Tier::Thorough => 150_000,
        }
    }
    fn tape_max(&self) -> usize {
        48
    }
    fn assumptions(&self) -> Vec<String> {
        vec!["existing variable ids are far below u64::MAX (fresh ids are allocated above the largest id)".into()]
    }
    fn sweep_len(&self, tier: Tier) -> usize {
        let widths = match tier {
            Tier::Quick => 601 + 3 * 3, // 0..=600 and {1023,1024,1025, 2047,2048,2049, 4095,4096,4097}
            Tier::Thorough => 4098,
        };
        13 * widths + CORNERS
    }
    fn sweep_description(&self) -> Option<String> {
        Some("lower in -6..=6 x width (quick: 0..=600 and 2^k-1,2^k,2^k+1 for k=10..12; thorough: 0..=4097): value set of the returned expression over all bit patterns must be exactly the range; plus 69 cases at the edge of the domain: lower = -2^20 with widths 2^k-1, 2^k, 2^k+1 for k = 1..21 and the corners (0,2^20), (-2^20,0), (-2^20,2^20-1), (-2^20+1,2^20), (2^20-1,2^20), (-2^20,-2^20)".into())
    }
    fn sweep_case(&self, tier: Tier, i: usize, ctx: &mut Ctx) -> PResult {
        let widths = (self.sweep_len(tier) - CORNERS) / 13;
        if i >= 13 * widths {
            let j = i - 13 * widths;
            let big: i64 = 1 << 20;
            let (l, u): (i64, i64) = if j < 63 {
                let k = 1 + (j / 3) as u32;
                let w = (1i64 << k) - 1 + (j % 3) as i64;
                (-big, (-big + w).min(big))
            } else {
                [(0, big), (-big, 0), (-big, big - 1), (-big + 1, big), (big - 1, big), (-big, -big)][j - 63]
            };
            let case = Case { lower: l as f64, upper: u as f64, class: 0, others: (j % 5) as u8, target_pos: (j % 3) as u8, decor: 0 };
            ctx.label("class=ok");
            ctx.label("corner");
            ctx.nontrivial();
            ctx.fp_dbg(&(l, u, "corner"));
            ctx.sample_with(|| json!({"sweep": "corner of the domain", "lower": l, "upper": u}));
            return check_case(&case, ctx);
        }
        let l = (i / widths) as i64 - 6;
        let wi = i % widths;
        let w: u64 = match tier {
            Tier::Quick => {
                if wi <= 600 {
                    wi as u64
                } else {
                    let j = wi - 601;
                    (1u64 << (10 + j / 3)) - 1 + (j % 3) as u64
                }
            }
            Tier::Thorough => wi as u64,
        };
        let case = Case { lower: l as f64, upper: (l + w as i64) as f64, class: 0, others: (i % 4) as u8, target_pos: (i % 3) as u8, decor: 0 };
        ctx.label("class=ok");
        if w >= 2 && !(w + 1).is_power_of_two() {
            ctx.nontrivial();
        }
        ctx.fp_dbg(&(l, w, "sweep"));
        ctx.sample_with(|| json!({"sweep": true, "lower": l, "width": w}));
        check_case(&case, ctx)
    }

    fn run(&self, t: &mut Tape, ctx: &mut Ctx) -> PResult {
        let start_bytes: Vec<u8> = {
            // remember the bytes for the child (the tape itself)
            let mut probe = t.clone();
            let mut v = vec![];
            for _ in 0..48 {
                if probe.exhausted() {
                    break;
                }
                v.push(probe.byte());
            }
            v
        };
        let case = decode(t, ctx);
        ctx.label(format!("class={}", CLASS_NAMES[case.class as usize]));
        let w = case.upper.floor() - case.lower.ceil();
        if case.class != 0 || (w >= 2.0 && !((w as u64 + 1).is_power_of_two())) {
            ctx.nontrivial();
        }
        ctx.fp_dbg(&(case.lower.to_bits(), case.upper.to_bits(), case.class, case.others % 6, case.target_pos, case.decor));
        ctx.sample_with(|| json!({"lower": format!("{}", case.lower), "upper": format!("{}", case.upper), "class": CLASS_NAMES[case.class as usize], "other_variables": case.others % 6}));
        if matches!(case.class, 5 | 6 | 7 | 8) {
            ctx.label("child-process");
            return self.in_child(&start_bytes, &case);
        }
        check_case(&case, ctx)
    }

    fn child(&self, bytes: &[u8]) -> i32 {
        let mut t = Tape::new(bytes);
        let mut ctx = Ctx::new(Tier::Quick, false);
        let case = decode(&mut t, &mut ctx);
        match check_case(&case, &mut ctx) {
            Ok(()) => 0,
            Err(f) => {
                println!("{}\n{}", f.signature, f.message);
                3
            }
        }
    }
}
