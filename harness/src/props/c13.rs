//! C13 Integer-slack conversions preserve the feasible set.

use crate::driver::{fail, Ctx, PResult, Property, Tier};
use crate::exact::*;
use crate::gen::func::{render, FuncCfg, Regime};
use crate::model::*;
use crate::tape::Tape;
use num::{Signed, Zero};
use ommx::v1;
use serde_json::json;
use std::collections::BTreeSet;

pub struct C13;

struct Var {
    id: u64,
    kind: i32,
    lo: i64,
    hi: i64,
}

/// f := f + 0 * x_id in the linear part of the message
fn add_zero_term(f: &mut Option<v1::Function>, id: u64) {
    use v1::function::Function as F;
    let mut g = f.take().unwrap_or_else(|| crate::mk::fconst(0.0));
    match &mut g.function {
        Some(F::Linear(l)) => l.terms.push(crate::mk::term(id, 0.0)),
        Some(F::Quadratic(q)) => match &mut q.linear {
            Some(l) => l.terms.push(crate::mk::term(id, 0.0)),
            None => q.linear = Some(crate::mk::linear(vec![(id, 0.0)], 0.0)),
        },
        Some(F::Polynomial(p)) => p.terms.push(crate::mk::monomial(vec![id], 0.0)),
        Some(F::Constant(k)) => {
            let k = *k;
            g = crate::mk::flin(crate::mk::linear(vec![(id, 0.0)], k));
        }
        _ => g = crate::mk::flin(crate::mk::linear(vec![(id, 0.0)], 0.0)),
    }
    *f = Some(g);
}

fn lattice(vars: &[Var]) -> Vec<Vec<(u64, i64)>> {
    let mut out: Vec<Vec<(u64, i64)>> = vec![vec![]];
    for v in vars {
        let mut next = vec![];
        for p in &out {
            for x in v.lo..=v.hi {
                let mut p2 = p.clone();
                p2.push((v.id, x));
                next.push(p2);
            }
        }
        out = next;
    }
    out
}

/// true when no point satisfies f <= 0 at all (then an infeasibility report would be the right answer)
fn any_feas_strict_none(vals: &[Q]) -> bool {
    vals.iter().all(|v| *v > Q::zero())
}

fn qpoint(p: &[(u64, i64)]) -> QState {
    p.iter().map(|(k, v)| (*k, qi(*v))).collect()
}

impl Property for C13 {
    fn id(&self) -> &'static str {
        "C13"
    }
    fn rule(&self) -> &'static str {
        "case = instance with <=3 integer/binary variables in small integer boxes (<=7 values each, negative and sign-crossing; binaries also fixed by bound; optionally the hint of a relaxed one-hot constraint) x one inequality of degree<=2 whose coefficients are rationals p/q, q in {1,2,3,4,5,6,8,10,12}, rendered to f64, other constraints present x limit around the needed slack range | one rejection condition (unknown id, equality constraint, continuous variable, limit too small, constraint without function, undefined variable, unbounded integer variable with a limit up to u64::MAX); both conversions; \
         oracle = brute force over EVERY lattice point of the box and EVERY integer slack value in the new variable's bounds, in exact rational arithmetic; non-trivial = converted, >=2 variables, both feasible and infeasible lattice points; distinct = sha256(instance, call)"
    }
    fn required_labels(&self) -> Vec<String> {
        ["outcome=converted", "outcome=relaxed", "outcome=infeasible", "outcome=range-exceeded", "reject=unknown-id", "reject=equality", "reject=continuous", "reject=undefined-variable", "reject=infinite-range", "rational-coeff", "quadratic", "op=convert", "op=add-slack", "other-constraints", "negative-box", "binary-variable", "unsorted-variable-list", "limit=needed", "limit=needed-1", "second-conversion", "history=add-encode-substitute-convert", "integer-linear-max-exactly-zero", "binary-fixed-by-bound", "one-hot-hint-of-relaxed-constraint", "reject=continuous-with-zero-coefficient", "sweep=one-sided-bound", "one-sided-bound/always-holds", "one-sided-bound/no-finite-slack-range"].iter().map(|s| s.to_string()).collect()
    }
    fn cases(&self, tier: Tier) -> usize {
        match tier {
            Tier::Quick => 40_000,
            Tier::Thorough => 1_000_000,
        }
    }
    fn tape_max(&self) -> usize {
        256
    }
    fn assumptions(&self) -> Vec<String> {
        vec![
            "slack_upper_bound >= 1; integer variables carry explicit integer bounds; coefficient denominators small (lcm far below i64 overflow)".into(),
            "'holds' uses the SDK's feasibility tolerance 1e-6; intended values are separated from 0 by at least 1/lcm(q) >= 1e-3".into(),
            "for non-linear f the interval analysis is not tight, so only the direction 'reported outcome is justified' is asserted; for linear f also the converse".into(),
        ]
    }

    fn sweep_len(&self, _tier: Tier) -> usize {
        2 * 3 * 4 * 2 * 3 * 2
    }
    fn sweep_description(&self) -> Option<String> {
        Some("a variable bounded on one side only: s*a*x0 + x1 + c <= 0 with x0 in (-inf, u] (s = +1) or [-u, +inf) (s = -1), a in {1,2,3}, u in {-3,-1,0,2}, x1 in [0,h], h in {1,2}, c in {-2,0,1}, both calls: max f = a*u + h + c <= 0 => moved to the removed constraints unchanged; max f > 0 => the conversion has no finite slack range and must fail without touching the instance (never as 'infeasible')".into())
    }
    fn sweep_case(&self, _tier: Tier, i: usize, ctx: &mut Ctx) -> PResult {
        let mut k = i;
        let mut take = |n: usize| {
            let r = k % n;
            k /= n;
            r
        };
        let lower_side = take(2) == 1;
        let a = [1.0, 2.0, 3.0][take(3)];
        let u = [-3.0, -1.0, 0.0, 2.0][take(4)];
        let h = [1.0, 2.0][take(2)];
        let c = [-2.0, 0.0, 1.0][take(3)];
        let op_add = take(2) == 1;
        ctx.label("sweep=one-sided-bound");
        ctx.fp_dbg(&("one-sided", i));
        let (coef, bnd) = if lower_side { (-a, crate::mk::bound(-u, f64::INFINITY)) } else { (a, crate::mk::bound(f64::NEG_INFINITY, u)) };
        let mut inst = v1::Instance::default();
        inst.sense = SENSE_MIN;
        for (id, b) in [(3u64, bnd), (5u64, crate::mk::bound(0.0, h))] {
            let mut v = v1::DecisionVariable::default();
            v.id = id;
            v.kind = KIND_INTEGER;
            v.bound = Some(b);
            inst.decision_variables.push(v);
        }
        inst.objective = Some(crate::mk::fconst(0.0));
        let mut con = v1::Constraint::default();
        con.id = 8;
        con.equality = LE_ZERO;
        con.function = Some(crate::mk::flin(crate::mk::linear(vec![(3, coef), (5, 1.0)], c)));
        inst.constraints.push(con.clone());
        let before = inst.clone();
        let max_f = a * u + h + c;
        let what = || format!("{}(8, 1000) on {coef}*x3 + x5 + {c} <= 0, x3 in {:?}, x5 in [0,{h}]", if op_add { "add_integer_slack_to_inequality" } else { "convert_inequality_to_equality_with_integer_slack" }, before.decision_variables[0].bound);
        ctx.sample_with(|| json!({"sweep": "one-sided bound", "call": what(), "max_f": max_f}));
        let res: anyhow::Result<Option<Option<f64>>> = if op_add { inst.add_integer_slack_to_inequality(8, 1000).map(Some) } else { inst.convert_inequality_to_equality_with_integer_slack(8, 1000).map(|_| None) };
        if max_f <= 0.0 {
            ctx.nontrivial();
            ctx.label("one-sided-bound/always-holds");
            match res {
                Err(e) => fail("C13/one-sided/always-satisfied-rejected", format!("every point of the box satisfies the inequality (max f = {max_f}) but the call failed: {e:#}: {}", what())),
                Ok(b) => {
                    let moved = inst.removed_constraints.iter().find(|rc| rc.constraint.as_ref().map(|c| c.id) == Some(8));
                    if inst.constraints.iter().any(|c| c.id == 8) || moved.and_then(|rc| rc.constraint.as_ref()) != Some(&con) {
                        return fail("C13/one-sided/always-satisfied-not-relaxed", format!("every point of the box satisfies the inequality (max f = {max_f}) but it was not moved unchanged to the removed constraints: {}", what()));
                    }
                    if inst.decision_variables != before.decision_variables || inst.objective != before.objective || inst.constraints.len() != 0 {
                        return fail("C13/one-sided/relaxed-other-changes", format!("relaxing changed other parts of the instance: {}", what()));
                    }
                    if matches!(b, Some(Some(_))) {
                        return fail("C13/one-sided/relaxed-but-b-reported", format!("constraint relaxed but a slack coefficient was reported: {}", what()));
                    }
                    Ok(())
                }
            }
        } else if !op_add {
            ctx.label("one-sided-bound/no-finite-slack-range");
            match res {
                Ok(_) => fail("C13/one-sided/infinite-range-accepted", format!("f has no lower bound over the box, no finite integer slack range exists, but the conversion succeeded: {}", what())),
                Err(e) => {
                    if e.downcast_ref::<ommx::InfeasibleDetected>().is_some() {
                        return fail("C13/one-sided/infeasible-reported-but-feasible-point", format!("infeasibility reported although the inequality has solutions: {}", what()));
                    }
                    if inst != before {
                        return fail("C13/one-sided/error-modified-instance", format!("call failed ({e:#}) but modified the instance: {}", what()));
                    }
                    Ok(())
                }
            }
        } else {
            // add_integer_slack with an unbounded range: outside the statement (bounded variables); only "an error leaves the instance alone"
            ctx.label("one-sided-bound/add-with-unbounded-range (not asserted)");
            if res.is_err() && inst != before {
                return fail("C13/one-sided/error-modified-instance", format!("call failed but modified the instance: {}", what()));
            }
            Ok(())
        }
    }

    fn run(&self, t: &mut Tape, ctx: &mut Ctx) -> PResult {
        let op_add = t.coin();
        ctx.label(if op_add { "op=add-slack" } else { "op=convert" });
        // after add_integer_slack_to_inequality: log-encode the slack, substitute it, and convert the same constraint
        let encode_history = t.p(100);
        let reject = if t.p(64) { 1 + t.choice(6) } else { 0 }; // 1 unknown id, 2 equality, 3 continuous var, 4 no function, 5 undefined variable id in the function, 6 unbounded integer variable (infinite slack range) with any limit up to u64::MAX
        let limit_mode = t.weighted(&[4, 2, 2, 1]); // exact needed, needed-1, generous, tiny
        let nv = 1 + t.choice(3);
        let quadratic = t.p(90);
        let dens = [1i64, 1, 2, 3, 4, 5, 6, 8, 10, 12];
        // variables
        let mut vars: Vec<Var> = vec![];
        let idbase = *t.pick(&[0u64, 1, 10]);
        let id_step: u64 = if t.coin() { 1 } else { 2 };
        let var_order_seed = t.byte();
        // all variables binary, members of a one-hot set whose constraint has been relaxed earlier (the hint stays)
        let hinted = t.p(40);
        for i in 0..nv {
            let binary = hinted || t.p(64);
            let (lo, hi) = if binary {
                // a binary variable may be fixed through an explicit bound [0,0] or [1,1]
                *t.pick(&[(0, 1), (0, 1), (0, 1), (0, 1), (0, 0), (1, 1)])
            } else {
                let lo = t.int_around(0, -4, 4);
                (lo, lo + t.choice(7) as i64)
            };
            if lo < 0 {
                ctx.label("negative-box");
            }
            if binary {
                ctx.label("binary-variable");
            }
            vars.push(Var { id: idbase + id_step * i as u64, kind: if binary { KIND_BINARY } else { KIND_INTEGER }, lo, hi });
        }
        // f: terms with rational coefficients
        let nterms = 1 + t.choice(4);
        let mut terms: Vec<(Vec<u64>, f64)> = vec![];
        let mut rational = false;
        for _ in 0..nterms {
            let d = if quadratic { t.choice(3) } else { t.choice(2) };
            let m: Vec<u64> = (0..d).map(|_| vars[t.choice(nv)].id).collect();
            let den = *t.pick(&dens);
            let num = {
                let k = t.int_around(1, -9, 9);
                if k == 0 {
                    1
                } else {
                    k
                }
            };
            if den != 1 && num % den != 0 {
                rational = true;
            }
            terms.push((m, num as f64 / den as f64));
        }
        // constant that puts 0 somewhere interesting: f(p) = delta at a lattice point p chosen by the tape
        {
            let mut f0 = Poly::zero();
            for (m, c) in &terms {
                f0.add_term(m.clone(), (q(*c) * qi(120)).round() / qi(120));
            }
            let p: QState = vars.iter().map(|v| (v.id, qi(v.lo + t.choice((v.hi - v.lo + 1) as usize) as i64))).collect();
            let at = f0.eval(&p).unwrap();
            let dnum = t.int_around(0, -6, 6);
            let dden = *t.pick(&dens);
            let c = -at + qfrac(dnum, dden);
            use num::ToPrimitive;
            terms.push((vec![], c.numer().to_f64().unwrap() / c.denom().to_f64().unwrap()));
        }
        if rational {
            ctx.label("rational-coeff");
        }
        // every monomial occurs once and carries the correctly rounded value of its rational coefficient
        // (the quantifier speaks of rational coefficients rendered to f64, not of sums of rounded parts)
        let mut content: Q = qi(1);
        let mut intended = Poly::zero();
        let terms: Vec<(Vec<u64>, f64)> = {
            let mut merged: std::collections::BTreeMap<Vec<u64>, Q> = Default::default();
            for (m, c) in &terms {
                let mut k = m.clone();
                k.sort_unstable();
                // recover the intended p/q exactly: c was built as num/den with den | 120
                let r = (q(*c) * qi(120)).round() / qi(120);
                *merged.entry(k).or_insert_with(Q::zero) += r;
            }
            for (k, c) in &merged {
                intended.add_term(k.clone(), c.clone());
            }
            {
                // minimal positive multiplier making all coefficients integral: lcm(denominators) / gcd(numerators)
                use num::Integer;
                let mut l = num::BigInt::from(1);
                let mut g = num::BigInt::from(0);
                for c in merged.values().filter(|c| !c.is_zero()) {
                    l = l.lcm(c.denom());
                    g = g.gcd(c.numer());
                }
                if !g.is_zero() {
                    content = Q::new(l, g);
                }
            }
            merged
                .into_iter()
                .filter(|(_, c)| !c.is_zero())
                .map(|(k, c)| {
                    use num::ToPrimitive;
                    let n = c.numer().to_f64().unwrap();
                    let d = c.denom().to_f64().unwrap();
                    (k, n / d)
                })
                .collect()
        };
        let cfg = FuncCfg { regime: Regime::General, allow_unset: false, allow_dup_quad_pos: false, unnormalised: false, ..FuncCfg::default() };
        let f = render(t, &terms, &cfg, ctx);
        let fpoly = Poly::from_function(&f);
        if fpoly.degree() >= 2 {
            ctx.label("quadratic");
        }
        let linear = fpoly.degree() <= 1;
        // instance
        let mut inst = v1::Instance::default();
        inst.sense = SENSE_MIN;
        // the order of the variable list in the message is arbitrary (not sorted by id)
        let mut order: Vec<usize> = (0..vars.len()).collect();
        {
            let seed = [var_order_seed, var_order_seed.wrapping_mul(31), var_order_seed.wrapping_add(97)];
            let mut tp = Tape::new(&seed);
            tp.shuffle(&mut order);
        }
        if order.windows(2).any(|w| vars[w[0]].id > vars[w[1]].id) {
            ctx.label("unsorted-variable-list");
        }
        for v in order.iter().map(|i| &vars[*i]) {
            let mut dv = v1::DecisionVariable::default();
            dv.id = v.id;
            dv.kind = v.kind;
            dv.bound = if v.kind == KIND_BINARY && (v.lo, v.hi) == (0, 1) && t.coin() { None } else { Some(crate::mk::bound(v.lo as f64, v.hi as f64)) };
            if v.kind == KIND_BINARY && v.lo == v.hi {
                ctx.label("binary-fixed-by-bound");
            }
            inst.decision_variables.push(dv);
        }
        let cid: u64 = *t.pick(&[0u64, 3, 17]);
        let mut c = v1::Constraint::default();
        c.id = cid;
        c.equality = LE_ZERO;
        c.function = Some(f.clone());
        c.name = Some("target".into());
        c.subscripts = vec![1, 2];
        let mut others = false;
        if t.coin() {
            let mut o = v1::Constraint::default();
            o.id = cid + 1;
            o.equality = EQ_ZERO;
            o.function = Some(crate::mk::flin(crate::mk::linear(vec![(vars[0].id, 1.0)], -1.0)));
            inst.constraints.push(o);
            others = true;
        }
        inst.constraints.push(c);
        if t.coin() {
            let mut o = v1::Constraint::default();
            o.id = cid + 2;
            o.equality = LE_ZERO;
            o.function = Some(crate::mk::fconst(-1.0));
            let mut rc = v1::RemovedConstraint::default();
            rc.constraint = Some(o);
            rc.removed_reason = "earlier".into();
            inst.removed_constraints.push(rc);
            others = true;
        }
        if hinted && nv >= 2 {
            // sum x_i - 1 = 0, relaxed; its one-hot hint is still recorded on the instance
            let mut o = v1::Constraint::default();
            o.id = cid + 3;
            o.equality = EQ_ZERO;
            o.function = Some(crate::mk::flin(crate::mk::linear(vars.iter().map(|v| (v.id, 1.0)).collect(), -1.0)));
            let mut rc = v1::RemovedConstraint::default();
            rc.constraint = Some(o);
            rc.removed_reason = "relaxed".into();
            inst.removed_constraints.push(rc);
            let mut oh = v1::OneHot::default();
            oh.constraint_id = cid + 3;
            oh.decision_variables = vars.iter().map(|v| v.id).collect();
            let mut h = v1::ConstraintHints::default();
            h.one_hot_constraints.push(oh);
            inst.constraint_hints = Some(h);
            ctx.label("one-hot-hint-of-relaxed-constraint");
        }
        if others {
            ctx.label("other-constraints");
        }
        inst.objective = Some(crate::mk::fconst(0.0));
        // a second, simple inequality x_first - lo_first <= 0 for the multi-step case (two conversions in a row)
        let second_cid = cid + 7;
        {
            let mut o = v1::Constraint::default();
            o.id = second_cid;
            o.equality = LE_ZERO;
            o.function = Some(crate::mk::flin(crate::mk::linear(vec![(vars[0].id, 1.0)], -(vars[0].lo as f64))));
            inst.constraints.insert(0, o);
        }
        // brute force on the original
        let pts = lattice(&vars);
        let vals: Vec<Q> = pts.iter().map(|p| fpoly.eval(&qpoint(p)).unwrap()).collect();
        let tol = q(1e-6);
        let feas: Vec<bool> = vals.iter().map(|v| *v <= tol).collect();
        let any_feas = feas.iter().any(|b| *b);
        let all_feas = feas.iter().all(|b| *b);
        // needed slack range for the conversion: content factor a (exact, from the intended rationals is not
        // available; compute from the exact f64-read polynomial with denominators limited to 1e6)
        let _minv_float = vals.iter().min().unwrap().clone();
        // slack range needed by the intended rational problem (exact): -min a*f over the lattice
        let minv = pts.iter().map(|p| intended.eval(&qpoint(p)).unwrap()).min().unwrap();
        let mut call_id = cid;
        let mut infinite_range = false;
        match reject {
            1 => {
                call_id = 9999;
                ctx.label("reject=unknown-id");
            }
            2 => {
                inst.constraints.iter_mut().find(|c| c.id == cid).unwrap().equality = EQ_ZERO;
                ctx.label("reject=equality");
            }
            3 if linear && t.p(90) => {
                // a continuous variable that occurs in the message only with an explicit zero coefficient: it is still a
                // variable of the function (C01: the ids occurring in the message)
                let zid: u64 = 600;
                let mut z = v1::DecisionVariable::default();
                z.id = zid;
                z.kind = KIND_CONTINUOUS;
                z.bound = Some(crate::mk::bound(0.0, 2.5));
                inst.decision_variables.push(z);
                let c = inst.constraints.iter_mut().find(|c| c.id == cid).unwrap();
                add_zero_term(&mut c.function, zid);
                ctx.label("reject=continuous");
                ctx.label("reject=continuous-with-zero-coefficient");
            }
            3 => {
                // a continuous variable that f uses
                let used = fpoly.vars();
                if let Some(id) = used.iter().next() {
                    inst.decision_variables.iter_mut().find(|v| v.id == *id).unwrap().kind = KIND_CONTINUOUS;
                    ctx.label("reject=continuous");
                } else {
                    // nothing to reject on
                    ctx.label("reject-skipped");
                    return Ok(());
                }
            }
            4 => {
                inst.constraints.iter_mut().find(|c| c.id == cid).unwrap().function = None;
                ctx.label("reject=no-function");
            }
            5 => {
                // the inequality mentions a variable id that the instance does not define (here only through a
                // square with positive coefficient, whose interval [0, inf) keeps the lower bound finite)
                let undefined: u64 = 4_000_000;
                let mut p = fpoly.clone();
                p.add_term(vec![undefined, undefined], qi(1));
                let terms: Vec<(Vec<u64>, f64)> = p.terms.iter().map(|(k, c)| (k.clone(), q_to_f64(c))).collect();
                let cfg2 = FuncCfg { regime: Regime::General, allow_unset: false, allow_dup_quad_pos: false, unnormalised: false, ..FuncCfg::default() };
                let mut scratch = Ctx::new(ctx.tier, false);
                let g = render(t, &terms, &cfg2, &mut scratch);
                inst.constraints.iter_mut().find(|c| c.id == cid).unwrap().function = Some(g);
                ctx.label("reject=undefined-variable");
            }
            6 => {
                // an integer variable without bounds that f uses linearly: the slack range is infinite, which is
                // above every limit the caller can give (u64::MAX included); only the conversion has a limit
                let cand = fpoly.vars().into_iter().find(|id| vars.iter().any(|v| v.id == *id && v.kind == KIND_INTEGER) && !fpoly.coeff(&[*id]).is_zero());
                match cand {
                    Some(id) if linear && !op_add => {
                        let dv = inst.decision_variables.iter_mut().find(|v| v.id == id).unwrap();
                        dv.bound = if t.coin() { None } else { Some(crate::mk::bound(f64::NEG_INFINITY, f64::INFINITY)) };
                        infinite_range = true;
                        ctx.label("reject=infinite-range");
                    }
                    _ => {
                        ctx.label("reject-skipped");
                        return Ok(());
                    }
                }
            }
            _ => {}
        }
        // limit
        let needed_exact: u64 = {
            let n = -(content.clone() * minv.clone());
            if n > qi(0) {
                q_to_f64(&n.ceil()).min(1e9) as u64
            } else {
                1
            }
        };
        let limit: u64 = match limit_mode {
            0 => needed_exact.max(1),
            1 => needed_exact.saturating_sub(1 + t.choice(2) as u64).max(1),
            2 => 100_000,
            _ => 1 + t.choice(3) as u64,
        };
        let limit = if infinite_range && t.coin() { u64::MAX } else { limit };
        if limit == needed_exact {
            ctx.label("limit=needed");
        }
        if limit.checked_add(1) == Some(needed_exact) {
            ctx.label("limit=needed-1");
        }
        let int_coeffs = terms.iter().all(|(_, c)| c.fract() == 0.0);
        if linear && int_coeffs && reject == 0 && vals.iter().all(|v| *v <= Q::zero()) && vals.iter().any(|v| v.is_zero()) {
            ctx.label("integer-linear-max-exactly-zero");
        }
        ctx.fp_msg(&inst);
        ctx.fp(&[op_add as u8, reject as u8]);
        ctx.fp(&limit.to_le_bytes());
        ctx.fp(&call_id.to_le_bytes());
        let before = inst.clone();
        let what = || {
            format!(
                "{}(constraint {call_id}, {limit}) on f = {} <= 0 over {:?} (message {f:?})",
                if op_add { "add_integer_slack_to_inequality" } else { "convert_inequality_to_equality_with_integer_slack" },
                fpoly.describe(),
                vars.iter().map(|v| (v.id, v.kind, v.lo, v.hi)).collect::<Vec<_>>()
            )
        };
        ctx.sample_with(|| json!({"call": what(), "reject_case": reject}));

        let (res, b_reported): (anyhow::Result<()>, Option<Option<f64>>) = if op_add {
            match inst.add_integer_slack_to_inequality(call_id, limit) {
                Ok(b) => (Ok(()), Some(b)),
                Err(e) => (Err(e), None),
            }
        } else {
            (inst.convert_inequality_to_equality_with_integer_slack(call_id, limit), None)
        };
        if reject != 0 {
            ctx.nontrivial();
            return match res {
                Err(_) => {
                    if inst != before {
                        return fail("C13/rejection-modified-instance", format!("call failed but modified the instance: {}", what()));
                    }
                    Ok(())
                }
                Ok(()) => fail(format!("C13/reject-{}-accepted", ["", "unknown-id", "equality", "continuous", "no-function", "undefined-variable", "infinite-range"][reject]), format!("call succeeded but must be rejected: {}", what())),
            };
        }
        match res {
            Err(e) => {
                if inst != before {
                    return fail("C13/error-modified-instance", format!("call failed ({e:#}) but modified the instance: {}", what()));
                }
                if e.downcast_ref::<ommx::InfeasibleDetected>().is_some() {
                    ctx.label("outcome=infeasible");
                    // "proven infeasible" is wrong if some lattice point satisfies f(x) <= 0 in exact arithmetic on the
                    // message's own coefficients; points with 0 < f(x) <= 1e-6 (feasible only by tolerance) are borderline
                    if let Some(i) = vals.iter().position(|v| *v <= Q::zero()) {
                        let p = &pts[i];
                        return fail("C13/infeasible-reported-but-feasible-point", format!("infeasibility reported although x = {p:?} gives f(x) = {} <= 0: {}", q_to_f64(&vals[i]), what()));
                    }
                    if any_feas {
                        ctx.exclude("borderline: infeasibility reported, some f(x) in (0, 1e-6]");
                    }
                    Ok(())
                } else {
                    ctx.label("outcome=range-exceeded");
                    // legitimate when the needed slack range exceeds the limit; for the add-slack operation there is no limit
                    if op_add {
                        return fail("C13/add-slack-unexpected-error", format!("unexpected error {e:#}: {}", what()));
                    }
                    if linear && limit >= 100_000 {
                        return fail("C13/range-exceeded-with-generous-limit", format!("error {e:#} although the limit is generous: {}", what()));
                    }
                    if linear {
                        // interval analysis is exact for a normalised linear function over a box
                        if vals.iter().all(|v| *v <= q(-1e-9)) {
                            return fail("C13/always-satisfied-rejected", format!("the inequality always holds (max f = {}), so it must be moved to the removed constraints, but the call failed: {e:#}: {}", q_to_f64(vals.iter().max().unwrap()), what()));
                        }
                        let needed = -(content.clone() * minv.clone());
                        if needed <= qi(limit as i64) && !any_feas_strict_none(&vals) {
                            return fail("C13/range-within-limit-rejected", format!("needed slack range {} is within the limit {limit} but the call failed: {e:#}: {}", q_to_f64(&needed), what()));
                        }
                    }
                    Ok(())
                }
            }
            Ok(()) => {
                // relaxed or converted?
                let still_active = inst.constraints.iter().find(|c| c.id == cid);
                match still_active {
                    None => {
                        ctx.label("outcome=relaxed");
                        if !all_feas {
                            let p = &pts[feas.iter().position(|b| !*b).unwrap()];
                            return fail("C13/relaxed-but-violable", format!("constraint was moved to removed_constraints as always satisfied, but x = {p:?} violates it: {}", what()));
                        }
                        // moved unchanged, nothing else changed
                        let orig = before.constraints.iter().find(|c| c.id == cid).unwrap();
                        let moved = inst.removed_constraints.iter().find(|rc| rc.constraint.as_ref().map(|c| c.id) == Some(cid));
                        match moved {
                            Some(rc) if rc.constraint.as_ref() == Some(orig) => {}
                            _ => return fail("C13/relaxed-constraint-changed", format!("relaxed constraint is not the unchanged original: {}", what())),
                        }
                        let mut a = inst.clone();
                        let mut b = before.clone();
                        a.constraints.retain(|c| c.id != cid);
                        b.constraints.retain(|c| c.id != cid);
                        a.removed_constraints.retain(|rc| rc.constraint.as_ref().map(|c| c.id) != Some(cid));
                        if a != b {
                            return fail("C13/relaxed-other-changes", format!("relaxing changed other parts of the instance: {}", what()));
                        }
                        if op_add && b_reported != Some(None) {
                            return fail("C13/relaxed-but-b-reported", format!("constraint relaxed but a slack coefficient was reported: {}", what()));
                        }
                        Ok(())
                    }
                    Some(cnew) => {
                        ctx.label("outcome=converted");
                        // for linear f: if the inequality can never hold / always holds the call must say so
                        if linear && !any_feas {
                            return fail("C13/infeasible-not-detected", format!("no lattice point satisfies the linear inequality but the call converted it: {}", what()));
                        }
                        if linear && int_coeffs && vals.iter().all(|v| *v <= Q::zero()) {
                            // integer coefficients over an integer box: interval arithmetic is exact in f64, so "max f = 0"
                            // is shown by interval analysis just as well as "max f < 0"
                            return fail("C13/always-satisfied-not-relaxed/max=0", format!("every point satisfies the integer linear inequality (max f = 0 exactly) but it was not relaxed: {}", what()));
                        }
                        if linear && vals.iter().all(|v| *v <= q(-1e-9)) {
                            // interval analysis is exact for linear functions over a box whose corners are lattice points
                            return fail("C13/always-satisfied-not-relaxed", format!("every point satisfies the linear inequality but it was not relaxed: {}", what()));
                        }
                        if linear && !op_add {
                            let needed = -(content.clone() * minv.clone());
                            if needed > qi(limit as i64) {
                                return fail("C13/limit-not-enforced", format!("needed slack range {} exceeds the caller's limit {limit} but the constraint was converted: {}", q_to_f64(&needed), what()));
                            }
                        }
                        // the slack variable
                        if inst.decision_variables.len() != before.decision_variables.len() + 1 {
                            return fail("C13/slack-variable-count", format!("expected exactly one new variable: {}", what()));
                        }
                        // the introduced variable = the one whose id did not exist before (wherever it was put in the list)
                        let before_ids: BTreeSet<u64> = before.decision_variables.iter().map(|v| v.id).collect();
                        let fresh: Vec<&v1::DecisionVariable> = inst.decision_variables.iter().filter(|v| !before_ids.contains(&v.id)).collect();
                        if fresh.len() != 1 || inst.decision_variables.iter().filter(|v| v.id == fresh[0].id).count() != 1 {
                            return fail("C13/slack-id-not-fresh", format!("the new variable does not have a fresh id (ids before {:?}, after {:?}): {}", before_ids, inst.decision_variables.iter().map(|v| v.id).collect::<Vec<_>>(), what()));
                        }
                        let s = fresh[0];
                        {
                            let mut kept: Vec<v1::DecisionVariable> = inst.decision_variables.iter().filter(|v| v.id != s.id).cloned().collect();
                            let mut orig = before.decision_variables.clone();
                            kept.sort_by_key(|v| v.id);
                            orig.sort_by_key(|v| v.id);
                            if kept != orig {
                                return fail("C13/existing-variables-changed", format!("existing variables changed: {}", what()));
                            }
                        }
                        let sb = s.bound.as_ref().map(|b| (b.lower, b.upper));
                        let Some((slo, shi)) = sb else {
                            return fail("C13/slack-bound-missing", format!("slack variable has no bound: {}", what()));
                        };
                        // "an integer slack value inside the introduced variable's bounds": an integer (or binary) variable
                        // with a finite range; which range is the implementation's business as long as the feasible set is kept
                        if !(s.kind == KIND_INTEGER || s.kind == KIND_BINARY) || !slo.is_finite() || !shi.is_finite() || slo > shi || shi - slo > 1e7 {
                            return fail("C13/slack-variable-shape", format!("slack variable kind {} bound [{slo}, {shi}]: {}", s.kind, what()));
                        }
                        let (slo_i, shi_i) = (slo.ceil() as i64, shi.floor() as i64);
                        if s.subscripts != vec![cid as i64] {
                            ctx.label("slack-not-tagged-with-constraint-id");
                        }
                        if op_add && !(slo == 0.0 && shi == limit as f64) {
                            return fail("C13/slack-upper-bound", format!("slack range [{slo}, {shi}], requested [0, {limit}]: {}", what()));
                        }
                        // the constraint
                        let want_eq = if op_add { LE_ZERO } else { EQ_ZERO };
                        if cnew.equality != want_eq {
                            return fail("C13/equality-kind", format!("constraint equality is {} after the call: {}", cnew.equality, what()));
                        }
                        {
                            let orig = before.constraints.iter().find(|c| c.id == cid).unwrap();
                            let mut c2 = cnew.clone();
                            c2.function = orig.function.clone();
                            c2.equality = orig.equality;
                            // name / description / parameters of the converted constraint are not part of the statement
                            // (an implementation may note the slack's id there): recorded, not asserted
                            if &c2 != orig {
                                ctx.label("converted-constraint-metadata-differs");
                            }
                            let mut a = inst.clone();
                            let mut b = before.clone();
                            a.constraints.retain(|c| c.id != cid);
                            b.constraints.retain(|c| c.id != cid);
                            let sid = s.id;
                            a.decision_variables.retain(|v| v.id != sid);
                            a.decision_variables.sort_by_key(|v| v.id);
                            b.decision_variables.sort_by_key(|v| v.id);
                            if a != b {
                                return fail("C13/other-changes", format!("other parts of the instance changed: {}", what()));
                            }
                        }
                        let g = Poly::from_opt_function(&cnew.function);
                        let gs = g.coeff(&[s.id]);
                        if op_add {
                            let Some(Some(b)) = b_reported else {
                                return fail("C13/b-not-reported", format!("no slack coefficient reported: {}", what()));
                            };
                            // a coefficient below machine epsilon is dropped from the function (documented)
                            if !(b >= 0.0) || (q(b) - gs.clone()).abs() > q(2.0 * f64::EPSILON) {
                                return fail("C13/b-mismatch", format!("reported b = {b}, coefficient of the slack in the new function = {}: {}", q_to_f64(&gs), what()));
                            }
                        }
                        // the part of g without the slack must still be f
                        {
                            let mut g0 = g.clone();
                            g0.terms.retain(|k, _| !k.contains(&s.id));
                            let mut gs_only = g.clone();
                            gs_only.terms.retain(|k, _| k.contains(&s.id));
                            let zero_b_ok = op_add && gs.is_zero() && gs_only.terms.is_empty();
                            if zero_b_ok {
                                ctx.label("b=0");
                            }
                            if !zero_b_ok && (gs_only.terms.len() != 1 || gs_only.degree() != 1) {
                                return fail("C13/slack-not-linear", format!("slack does not enter linearly: new function {}: {}", g.describe(), what()));
                            }
                            // "adding a term b*s to an inequality": there the x-part stays f. For the conversion to an
                            // equality the statement only fixes the feasible set (an equivalent scaling a*f + s = 0 is as
                            // good as f + s/a = 0); that is decided by the enumeration below.
                            let diff = g0.sub(&fpoly);
                            if !op_add && diff.terms.values().any(|c| c.abs() > q(1e-12)) {
                                ctx.label("converted-function-is-not-f-plus-slack-term");
                            }
                            if op_add && diff.terms.values().any(|c| c.abs() > q(1e-12)) {
                                return fail("C13/f-changed", format!("the x-part of the new function is not f: {} vs {}: {}", g0.describe(), fpoly.describe(), what()));
                            }
                        }
                        // brute force: x feasible  <=>  exists s in {0..shi}: g(x, s) holds
                        let mut both = (false, false);
                        // g(x, s) = g_x(x) + gs * s  (checked above: the slack enters linearly)
                        let mut g_x = g.clone();
                        g_x.terms.retain(|k, _| !k.contains(&s.id));
                        for (i, p) in pts.iter().enumerate() {
                            let base = g_x.eval(&qpoint(p)).unwrap();
                            let holds_at = |sv: i64| -> bool {
                                let v = base.clone() + gs.clone() * qi(sv);
                                if op_add {
                                    v <= tol
                                } else {
                                    v.abs() < tol
                                }
                            };
                            let mut exists = false;
                            if shi_i - slo_i <= 4096 {
                                // literally every slack value
                                for sv in slo_i..=shi_i {
                                    if holds_at(sv) {
                                        exists = true;
                                        break;
                                    }
                                }
                            } else {
                                // g is affine in s, so the admissible s form an interval: it meets the integers of
                                // [0, shi] iff it contains an end point or an integer next to the root
                                let mut cands: Vec<i64> = vec![slo_i, shi_i];
                                if !gs.is_zero() {
                                    let root = -(base.clone() / gs.clone());
                                    let fl = q_to_f64(&root).floor();
                                    for d in -2..=2 {
                                        let c = fl as i64 + d;
                                        if c >= slo_i && c <= shi_i {
                                            cands.push(c);
                                        }
                                    }
                                }
                                for c in cands {
                                    if holds_at(c) {
                                        exists = true;
                                        break;
                                    }
                                }
                            }
                            if feas[i] {
                                both.0 = true;
                            } else {
                                both.1 = true;
                            }
                            if feas[i] != exists {
                                return fail(
                                    if feas[i] { "C13/feasible-point-lost" } else { "C13/infeasible-point-admitted" },
                                    format!("x = {p:?}: f(x) = {} so the inequality {} but {} slack value in [{slo}, {shi}] satisfies the new constraint {}: {}", q_to_f64(&vals[i]), if feas[i] { "holds" } else { "fails" }, if exists { "some" } else { "no" }, g.describe(), what()),
                                );
                            }
                        }
                        if nv >= 2 && both.0 && both.1 {
                            ctx.nontrivial();
                        }
                        // history: the slack that was just added is log-encoded and substituted (it becomes a DEPENDENT variable),
                        // then the same constraint - now an inequality over x and the bits - is converted to an equality.
                        // The conversion must introduce a slack of its own and keep the feasible set over (x, bits).
                        if op_add && encode_history && shi_i >= 1 && shi_i <= 7 && pts.len() <= 64 {
                            let mut h = inst.clone();
                            if let Ok(lin) = h.log_encode(s.id) {
                                let bit_ids: Vec<u64> = lin.terms.iter().map(|t| t.id).collect();
                                let mut rep = std::collections::HashMap::new();
                                rep.insert(s.id, crate::mk::flin(lin));
                                if h.substitute(rep).is_ok() && bit_ids.len() <= 3 {
                                    let before_h = h.clone();
                                    let ids_h: BTreeSet<u64> = before_h.decision_variables.iter().map(|v| v.id).collect();
                                    let f_h = Poly::from_opt_function(&before_h.constraints.iter().find(|c| c.id == cid).and_then(|c| c.function.clone()));
                                    if h.convert_inequality_to_equality_with_integer_slack(cid, 100_000).is_ok() {
                                        if let Some(c2) = h.constraints.iter().find(|c| c.id == cid) {
                                            ctx.label("history=add-encode-substitute-convert");
                                            let fresh: Vec<&v1::DecisionVariable> = h.decision_variables.iter().filter(|v| !ids_h.contains(&v.id)).collect();
                                            if fresh.len() != 1 || h.decision_variables.len() != ids_h.len() + 1 {
                                                return fail("C13/history/no-fresh-slack", format!("converting the constraint after its first slack was encoded and substituted did not introduce exactly one variable with a fresh id (ids before {:?}, after {:?}): {}", ids_h, h.decision_variables.iter().map(|v| v.id).collect::<Vec<_>>(), what()));
                                            }
                                            let s2 = fresh[0];
                                            let (l2, u2) = s2.bound.as_ref().map(|b| (b.lower, b.upper)).unwrap_or((f64::NAN, f64::NAN));
                                            if !(l2.is_finite() && u2.is_finite() && l2 <= u2 && u2 - l2 <= 1e6) || !(s2.kind == KIND_INTEGER || s2.kind == KIND_BINARY) {
                                                return fail("C13/history/slack-shape", format!("second slack kind {} bound {:?}: {}", s2.kind, s2.bound, what()));
                                            }
                                            let g2 = Poly::from_opt_function(&c2.function);
                                            for p in pts.iter() {
                                                for bits in 0u32..(1 << bit_ids.len()) {
                                                    let mut st = qpoint(p);
                                                    for (k, b) in bit_ids.iter().enumerate() {
                                                        st.insert(*b, qi(((bits >> k) & 1) as i64));
                                                    }
                                                    let Some(v0) = f_h.eval(&st) else { continue };
                                                    // a value within rounding distance of zero (but not zero) is decided by the
                                                    // tolerance, not by the problem: borderline, not compared
                                                    if !num::Zero::is_zero(&v0) && num::Signed::abs(&v0) < q(1e-9) {
                                                        continue;
                                                    }
                                                    let feas0 = v0 <= tol;
                                                    let mut exists = false;
                                                    // every slack value when there are few; otherwise (the equality is affine in the
                                                    // slack) the end points and the integers next to the root
                                                    let (lo_i, hi_i) = (l2.ceil() as i64, u2.floor() as i64);
                                                    let cands: Vec<i64> = if hi_i - lo_i <= 256 {
                                                        (lo_i..=hi_i).collect()
                                                    } else {
                                                        let mut c = vec![lo_i, hi_i];
                                                        st.insert(s2.id, qi(0));
                                                        let b0 = g2.eval(&st);
                                                        st.insert(s2.id, qi(1));
                                                        let b1 = g2.eval(&st);
                                                        if let (Some(b0), Some(b1)) = (b0, b1) {
                                                            let k = b1 - b0.clone();
                                                            if !num::Zero::is_zero(&k) {
                                                                let root = q_to_f64(&(-(b0 / k))).floor() as i64;
                                                                for d in -2..=2 {
                                                                    if root + d >= lo_i && root + d <= hi_i {
                                                                        c.push(root + d);
                                                                    }
                                                                }
                                                            }
                                                        }
                                                        c
                                                    };
                                                    for sv in cands {
                                                        st.insert(s2.id, qi(sv));
                                                        match g2.eval(&st) {
                                                            Some(v) => {
                                                                if v.abs() < tol {
                                                                    exists = true;
                                                                    break;
                                                                }
                                                            }
                                                            None => return fail("C13/history/foreign-variable", format!("the converted constraint mentions a variable without a value (the substituted slack?): {}: {}", g2.describe(), what())),
                                                        }
                                                    }
                                                    st.remove(&s2.id);
                                                    if feas0 != exists {
                                                        return fail("C13/history/feasible-set", format!("after add -> log_encode -> substitute -> convert: x = {p:?}, bits = {bits:b}: inequality {} but {} slack value satisfies the equality {}: {}", if feas0 { "holds" } else { "fails" }, if exists { "some" } else { "no" }, g2.describe(), what()));
                                                    }
                                                }
                                            }
                                        }
                                    }
                                }
                            }
                        }
                        // multi-step: convert the second inequality on the same instance; its slack must be fresh
                        // with respect to everything that exists now, including the first slack
                        if vars[0].hi > vars[0].lo {
                            ctx.label("second-conversion");
                            let ids_now: BTreeSet<u64> = inst.decision_variables.iter().map(|v| v.id).collect();
                            let n_now = inst.decision_variables.len();
                            let r2 = if op_add { inst.add_integer_slack_to_inequality(second_cid, 3).map(|_| ()) } else { inst.convert_inequality_to_equality_with_integer_slack(second_cid, 1000) };
                            if let Err(e) = r2 {
                                return fail("C13/second-conversion/err", format!("second conversion (constraint {second_cid}: x{} - {} <= 0) failed: {e:#}: {}", vars[0].id, vars[0].lo, what()));
                            }
                            if inst.decision_variables.len() != n_now + 1 {
                                return fail("C13/second-conversion/slack-variable-count", format!("second conversion did not add exactly one variable: {}", what()));
                            }
                            let fresh2: Vec<v1::DecisionVariable> = inst.decision_variables.iter().filter(|v| !ids_now.contains(&v.id)).cloned().collect();
                            if fresh2.len() != 1 {
                                return fail("C13/second-conversion/slack-id-not-fresh", format!("the second slack does not have a fresh id (ids before {:?}, after {:?}): {}", ids_now, inst.decision_variables.iter().map(|v| v.id).collect::<Vec<_>>(), what()));
                            }
                            let s2 = fresh2[0].clone();
                            if !(s2.kind == KIND_INTEGER || s2.kind == KIND_BINARY) {
                                return fail("C13/second-conversion/slack-kind", format!("second slack kind {}: {}", s2.kind, what()));
                            }
                            let Some(c2) = inst.constraints.iter().find(|c| c.id == second_cid) else {
                                return fail("C13/second-conversion/constraint-lost", format!("second constraint disappeared: {}", what()));
                            };
                            let g2 = Poly::from_opt_function(&c2.function);
                            let (s2lo, s2hi) = s2.bound.as_ref().map(|b| (b.lower, b.upper)).unwrap_or((f64::NAN, f64::NAN));
                            if !(s2lo.is_finite() && s2hi.is_finite() && s2lo <= s2hi && s2hi - s2lo <= 1e6) {
                                return fail("C13/second-conversion/slack-bound", format!("second slack bound {:?}: {}", s2.bound, what()));
                            }
                            for x in vars[0].lo..=vars[0].hi {
                                let feas0 = x - vars[0].lo <= 0;
                                let mut exists = false;
                                for sv in (s2lo.ceil() as i64)..=(s2hi.floor() as i64) {
                                    let mut st = QState::new();
                                    st.insert(vars[0].id, qi(x));
                                    st.insert(s2.id, qi(sv));
                                    let Some(v) = g2.eval(&st) else {
                                        return fail("C13/second-conversion/foreign-variable", format!("second constraint mentions other variables: {}: {}", g2.describe(), what()));
                                    };
                                    if if op_add { v <= tol } else { v.abs() < tol } {
                                        exists = true;
                                        break;
                                    }
                                }
                                if feas0 != exists {
                                    return fail("C13/second-conversion/feasible-set", format!("second conversion: x{} = {x} feasible={feas0} but slack exists={exists} in {}: {}", vars[0].id, g2.describe(), what()));
                                }
                            }
                        }
                        let _ = Q::zero();
                        Ok(())
                    }
                }
            }
        }
    }
}
