//! C14 Relaxing and restoring constraints only moves them.

use crate::driver::{fail, Ctx, PResult, Property, Tier};
use crate::gen::func::*;
use crate::gen::inst::*;
use crate::model::{self, *};
use crate::props::c05::{describe_inst, fp_instance, sorted_state};
use crate::tape::Tape;
use ommx::v1;
use ommx::Evaluate;
use serde_json::json;
use std::collections::{BTreeMap, BTreeSet};

pub struct C14;

#[derive(Clone, Debug)]
enum Op {
    Relax(u64, String, BTreeMap<String, String>),
    Restore(u64),
    Eval(usize),
    /// evaluate_samples over both probe states (ids sharing states), compared with the reference per sample
    EvalSamples,
}

fn all_constraints(inst: &v1::Instance) -> Result<BTreeMap<u64, v1::Constraint>, String> {
    let mut m = BTreeMap::new();
    for c in &inst.constraints {
        if m.insert(c.id, c.clone()).is_some() {
            return Err(format!("constraint id {} occurs twice", c.id));
        }
    }
    for rc in &inst.removed_constraints {
        let Some(c) = &rc.constraint else {
            return Err("removed constraint without constraint".into());
        };
        if m.insert(c.id, c.clone()).is_some() {
            return Err(format!("constraint id {} occurs twice (active/removed)", c.id));
        }
    }
    Ok(m)
}

impl Property for C14 {
    fn id(&self) -> &'static str {
        "C14"
    }
    fn rule(&self) -> &'static str {
        "case = valid instance x history of <=8 (quick) / <=20 (thorough) operations from relax(id, reason, params) / restore(id) / evaluate(state) with ids drawn from active, removed and unknown ids, free-text reasons (empty, outer blanks, line breaks); sweep: 1000 / 1200 constraints under a fixed 14-step history; \
         oracle = two-map model (id -> constraint, id -> removal reason) + reference evaluator; invariant checked after every step; non-trivial = history with a successful relax followed by a restore of the same id and at least one failing operation; distinct = sha256(instance, history)"
    }
    fn required_labels(&self) -> Vec<String> {
        ["restore-ok", "relax-ok", "relax-unknown", "relax-removed-id", "restore-active-id", "restore-unknown", "flag-changes", "eval-step", "relax-then-restore-same-id", "eval-samples-step", "placed-inside-tolerance", "reason-ends-with-newline", "sweep=many-constraints", "partial-evaluate-in-the-middle-of-the-history"].iter().map(|s| s.to_string()).collect()
    }
    fn sweep_len(&self, _tier: Tier) -> usize {
        4
    }
    fn sweep_description(&self) -> Option<String> {
        Some("instances with 1000 and 1200 constraints (ids ascending, or in shuffled order) under a fixed history of 14 relax / restore operations that revisits the same ids; membership, order-independence and content checked after every step".into())
    }
    fn sweep_case(&self, _tier: Tier, i: usize, ctx: &mut Ctx) -> PResult {
        let n: u64 = [1000, 1200][i / 2];
        let shuffled = i % 2 == 1;
        ctx.label("sweep=many-constraints");
        ctx.nontrivial();
        ctx.fp_dbg(&("many-constraints", n, shuffled));
        ctx.sample_with(|| json!({"sweep": "many constraints", "constraints": n, "shuffled": shuffled}));
        let mut inst = v1::Instance::default();
        inst.sense = SENSE_MIN;
        let mut v = v1::DecisionVariable::default();
        v.id = 1;
        v.kind = KIND_CONTINUOUS;
        inst.decision_variables.push(v);
        inst.objective = Some(crate::mk::fconst(0.0));
        let mk_c = |id: u64| {
            let mut c = v1::Constraint::default();
            c.id = id;
            c.equality = if id % 2 == 0 { EQ_ZERO } else { LE_ZERO };
            c.function = Some(crate::mk::flin(crate::mk::linear(vec![(1, 1.0)], -(id as f64))));
            c.name = Some(format!("c{id}"));
            c
        };
        let mut ids: Vec<u64> = (0..n).map(|k| 3 * k + 2).collect();
        if shuffled {
            // a fixed permutation (multiplication by a unit modulo n)
            ids = (0..n).map(|k| 3 * ((k * 7 + 3) % n) + 2).collect();
        }
        for id in &ids {
            inst.constraints.push(mk_c(*id));
        }
        let (a, b, c_) = (ids[5], ids[700], ids[n as usize - 1]);
        // (relax?, id, must succeed)
        let history: [(bool, u64, bool); 14] = [
            (true, a, true), (false, a, true), (true, a, true), (true, a, false), (true, b, true), (false, a, true), (true, c_, true),
            (false, b, true), (true, b, true), (false, 4, false), (true, 4, false), (false, c_, true), (true, a, true), (false, b, true),
        ];
        let mut active: std::collections::BTreeSet<u64> = ids.iter().copied().collect();
        let mut removed: std::collections::BTreeSet<u64> = Default::default();
        for (step, (relax, id, ok)) in history.iter().enumerate() {
            let before = inst.clone();
            let r = if *relax { inst.relax_constraint(*id, format!("step {step}"), Default::default()) } else { inst.restore_constraint(*id) };
            let (na0, nr0) = (active.len(), removed.len());
            let what = move || format!("step {step}: {}({id}) on an instance with {n} constraints ({} order), {na0} active / {nr0} removed before the call", if *relax { "relax_constraint" } else { "restore_constraint" }, if shuffled { "shuffled" } else { "ascending" });
            match (r, *ok) {
                (Ok(()), true) => {
                    if *relax {
                        active.remove(id);
                        removed.insert(*id);
                    } else {
                        removed.remove(id);
                        active.insert(*id);
                    }
                }
                (Err(_), false) => {
                    if inst != before {
                        return fail("C14/many-constraints/failed-op-changed-instance", format!("the failing operation changed the instance: {}", what()));
                    }
                }
                (Err(e), true) => return fail("C14/many-constraints/op-failed", format!("operation failed ({e:#}) although the id is in the expected list: {}", what())),
                (Ok(()), false) => return fail("C14/many-constraints/op-accepted", format!("operation succeeded although the id is not in the expected list: {}", what())),
            }
            let got_a: std::collections::BTreeSet<u64> = inst.constraints.iter().map(|c| c.id).collect();
            let got_r: std::collections::BTreeSet<u64> = inst.removed_constraints.iter().filter_map(|rc| rc.constraint.as_ref().map(|c| c.id)).collect();
            if got_a != active || got_r != removed || inst.constraints.len() != active.len() || inst.removed_constraints.len() != removed.len() {
                return fail("C14/many-constraints/membership", format!("active / removed id sets are not what the history implies after {}", what()));
            }
            for c in inst.constraints.iter().chain(inst.removed_constraints.iter().filter_map(|rc| rc.constraint.as_ref())) {
                if [a, b, c_].contains(&c.id) && c != &mk_c(c.id) {
                    return fail("C14/many-constraints/content", format!("constraint {} changed after {}", c.id, what()));
                }
            }
        }
        Ok(())
    }
    fn cases(&self, tier: Tier) -> usize {
        match tier {
            Tier::Quick => 100_000,
            Tier::Thorough => 2_000_000,
        }
    }
    fn tape_max(&self) -> usize {
        768
    }

    fn run(&self, t: &mut Tape, ctx: &mut Ctx) -> PResult {
        // C14 says nothing about the tolerance of "holds": a value exactly on the threshold is left undecided
        let _open = crate::model::BoundaryOpenGuard::new();
        let regime = Regime::Dyadic;
        let nops = 1 + t.choice(if ctx.tier == Tier::Quick { 8 } else { 20 });
        // history drawn early (ids as indices into the id universe, resolved later)
        let mut raw_ops: Vec<(u8, u8, u8)> = vec![];
        for _ in 0..nops {
            raw_ops.push((t.weighted(&[5, 5, 3, 2]) as u8, t.byte(), t.byte()));
        }
        let mut cfg = InstCfg::new(regime);
        cfg.allow_deps = false;
        cfg.tolerance_candidates = true;
        cfg.max_active = 4;
        cfg.max_removed = 3;
        cfg.func.max_terms = 4;
        cfg.func.max_degree = 2;
        let place: Vec<u8> = (0..8).map(|_| t.byte()).collect();
        let mut gi = gen_instance(t, &cfg, ctx);
        let states: Vec<v1::State> = (0..2).map(|_| gen_inst_state(t, &gi, regime, true)).collect();
        // place constraint values of the probe states around the feasibility tolerance, so that the flags
        // depend on which list a constraint is in and on the tolerance that list is checked with
        {
            let targets = [0.0, 0.5e-6, -0.5e-6, 2e-6, -2e-6, -1.0, 3.0e-7];
            let na = gi.inst.constraints.len();
            for i in 0..(na + gi.inst.removed_constraints.len()) {
                let b = place[i % place.len()];
                if b % 3 == 0 {
                    continue;
                }
                let target = targets[(b as usize / 3) % targets.len()];
                let st = &states[(b as usize / 32) % 2];
                let c = if i < na { &mut gi.inst.constraints[i] } else { gi.inst.removed_constraints[i - na].constraint.as_mut().unwrap() };
                if crate::props::c05::place_constraint_value(c, st, target) && target.abs() < 1e-6 && target != 0.0 {
                    ctx.label("placed-inside-tolerance");
                }
            }
        }
        let mut inst = gi.inst.clone();
        let initial = match all_constraints(&inst) {
            Ok(m) => m,
            Err(e) => return fail("C14/generator", e),
        };
        let universe: Vec<u64> = initial.keys().copied().chain([999_999u64, 123_456_789]).collect();
        // model
        let mut active: Vec<u64> = inst.constraints.iter().map(|c| c.id).collect();
        let mut removed: BTreeMap<u64, (String, BTreeMap<String, String>)> = inst
            .removed_constraints
            .iter()
            .map(|rc| (rc.constraint.as_ref().unwrap().id, (rc.removed_reason.clone(), rc.removed_reason_parameters.iter().map(|(k, v)| (k.clone(), v.clone())).collect())))
            .collect();
        // baseline values per probe state
        let mut baseline: Vec<Option<(BTreeMap<u64, u64>, bool)>> = vec![];
        for st in &states {
            baseline.push(inst.evaluate(st).ok().map(|(s, _)| (s.evaluated_constraints.iter().map(|c| (c.id, c.evaluated_value.to_bits())).collect(), s.feasible)));
        }
        // resolve ids against a simulated model so that meaningful sequences are common
        let mut ops: Vec<Op> = vec![];
        {
            let mut sim_active: Vec<u64> = active.clone();
            let mut sim_removed: Vec<u64> = removed.keys().copied().collect();
            for (k, a, b) in &raw_ops {
                let pick = |v: &Vec<u64>, a: u8| -> Option<u64> {
                    if v.is_empty() {
                        None
                    } else {
                        Some(v[(a as usize * v.len()) >> 8])
                    }
                };
                let any = universe[(*a as usize * universe.len()) >> 8];
                ops.push(match k {
                    0 => {
                        let id = if b % 4 != 0 { pick(&sim_active, *a).unwrap_or(any) } else { any };
                        let mut p = BTreeMap::new();
                        if b % 2 == 1 {
                            p.insert("k".to_string(), format!("v{}", b));
                        }
                        if sim_active.contains(&id) {
                            sim_active.retain(|x| *x != id);
                            sim_removed.push(id);
                        }
                        {
                            // the reason is free text and is recorded as given
                            const REASONS: [&str; 10] = ["reason0", "reason1", "reason2", "", " leading blank", "ends with a newline\n", "ends with crlf\r\n", "two\nlines", "trailing blank ", "理由"];
                            let r = REASONS[(*b as usize >> 2) % REASONS.len()];
                            if r.ends_with('\n') {
                                ctx.label("reason-ends-with-newline");
                            }
                            Op::Relax(id, r.to_string(), p)
                        }
                    }
                    1 => {
                        let id = if b % 4 != 0 { pick(&sim_removed, *a).unwrap_or(any) } else { any };
                        if sim_removed.contains(&id) {
                            sim_removed.retain(|x| *x != id);
                            sim_active.push(id);
                        }
                        Op::Restore(id)
                    }
                    2 => Op::Eval((*b as usize) % states.len()),
                    _ => Op::EvalSamples,
                });
            }
        }
        fp_instance(ctx, &inst);
        ctx.fp_dbg(&ops);
        ctx.sample_with(|| json!({"instance": describe_inst(&gi.inst), "history": format!("{:?}", ops)}));
        let mut relaxed_here: BTreeSet<u64> = BTreeSet::new();
        let mut had_fail = false;
        let mut relax_restore = false;
        let mut flags_seen: BTreeSet<bool> = BTreeSet::new();
        for (step, op) in ops.iter().enumerate() {
            let before = inst.clone();
            let ctxmsg = |m: String| format!("step {step} {op:?}: {m}\n history {:?}\n initial instance {}", ops, describe_inst(&gi.inst));
            match op {
                Op::Relax(id, reason, params) => {
                    let r = inst.relax_constraint(*id, reason.clone(), params.iter().map(|(k, v)| (k.clone(), v.clone())).collect());
                    let expect_ok = active.contains(id);
                    match (expect_ok, r) {
                        (true, Ok(())) => {
                            ctx.label("relax-ok");
                            active.retain(|x| x != id);
                            removed.insert(*id, (reason.clone(), params.clone()));
                            relaxed_here.insert(*id);
                        }
                        (false, Err(_)) => {
                            had_fail = true;
                            ctx.label(if removed.contains_key(id) { "relax-removed-id" } else { "relax-unknown" });
                            if inst != before {
                                return fail("C14/failed-relax-changed-instance", ctxmsg("a failing relax modified the instance".into()));
                            }
                        }
                        (true, Err(e)) => return fail("C14/relax-active-failed", ctxmsg(format!("relax of an active constraint failed: {e:#}"))),
                        (false, Ok(())) => return fail("C14/relax-non-active-succeeded", ctxmsg("relax of an id that is not active succeeded".into())),
                    }
                }
                Op::Restore(id) => {
                    let r = inst.restore_constraint(*id);
                    let expect_ok = removed.contains_key(id);
                    match (expect_ok, r) {
                        (true, Ok(())) => {
                            ctx.label("restore-ok");
                            removed.remove(id);
                            active.push(*id);
                            if relaxed_here.contains(id) {
                                relax_restore = true;
                                ctx.label("relax-then-restore-same-id");
                            }
                        }
                        (false, Err(_)) => {
                            had_fail = true;
                            ctx.label(if active.contains(id) { "restore-active-id" } else { "restore-unknown" });
                            if inst != before {
                                return fail("C14/failed-restore-changed-instance", ctxmsg("a failing restore modified the instance".into()));
                            }
                        }
                        (true, Err(e)) => return fail("C14/restore-removed-failed", ctxmsg(format!("restore of a removed constraint failed: {e:#}"))),
                        (false, Ok(())) => return fail("C14/restore-non-removed-succeeded", ctxmsg("restore of an id that is not removed succeeded".into())),
                    }
                }
                Op::EvalSamples => {
                    ctx.label("eval-samples-step");
                    let mut samples = v1::Samples::default();
                    // ids 0,1 share state 0; ids 2,3 share state 1 (compressed entries)
                    for (sid, si) in [(0u64, 0usize), (2, 1), (1, 0), (3, 1)] {
                        samples.add_sample(sid, states[si].clone());
                    }
                    let ms: Vec<_> = states.iter().map(|st| model::evaluate(&inst, st)).collect();
                    match inst.evaluate_samples(&samples) {
                        Ok((ss, _)) => {
                            for (sid, si) in [(0u64, 0usize), (1, 0), (2, 1), (3, 1)] {
                                if let Ok(m) = &ms[si] {
                                    if let Some(fe) = m.feasible {
                                        if ss.feasible.get(&sid) != Some(&fe) {
                                            return fail("C14/eval-samples/feasible", ctxmsg(format!("evaluate_samples reports feasible={:?} for sample {sid} (state {:?}), reference {fe}", ss.feasible.get(&sid), sorted_state(&states[si]))));
                                        }
                                    }
                                    if let Some(fr) = m.feasible_relaxed {
                                        if ss.feasible_relaxed.get(&sid) != Some(&fr) {
                                            return fail("C14/eval-samples/feasible-relaxed", ctxmsg(format!("evaluate_samples reports feasible_relaxed={:?} for sample {sid}, reference {fr}", ss.feasible_relaxed.get(&sid))));
                                        }
                                    }
                                }
                            }
                        }
                        Err(e) => {
                            if ms.iter().all(|m| m.is_ok()) {
                                return fail("C14/eval-samples/err", ctxmsg(format!("evaluate_samples failed: {e:#}")));
                            }
                        }
                    }
                }
                Op::Eval(i) => {
                    ctx.label("eval-step");
                    let st = &states[*i];
                    let m = model::evaluate(&inst, st);
                    let r = inst.evaluate(st);
                    match (m, r) {
                        (Ok(m), Ok((sol, _))) => {
                            let o = CmpOpts { decision_variables: Some(inst.decision_variables.clone()), ..CmpOpts::default() };
                            compare_solution("C14/eval", &sol, &m, &o).map_err(|mut f| {
                                f.message = ctxmsg(format!("{} at state {:?}", f.message, sorted_state(st)));
                                f
                            })?;
                            if let Some(fr) = m.feasible_relaxed {
                                flags_seen.insert(fr);
                            }
                            if let Some((vals, feas)) = &baseline[*i] {
                                let now: BTreeMap<u64, u64> = sol.evaluated_constraints.iter().map(|c| (c.id, c.evaluated_value.to_bits())).collect();
                                if &now != vals {
                                    return fail("C14/values-changed", ctxmsg(format!("per-constraint values of state {:?} changed over the history", sorted_state(st))));
                                }
                                if sol.feasible != *feas {
                                    return fail("C14/feasible-changed", ctxmsg(format!("overall feasibility of state {:?} changed over the history: {} -> {}", sorted_state(st), feas, sol.feasible)));
                                }
                            }
                        }
                        (Err(MReject::Borderline(w)), _) => ctx.exclude(format!("borderline: {w}")),
                        (Err(_), Err(_)) => {}
                        (Ok(_), Err(e)) => return fail("C14/eval-err", ctxmsg(format!("evaluate failed: {e:#}"))),
                        (Err(r), Ok(_)) => return fail("C14/eval-accepted", ctxmsg(format!("evaluate accepted, reference rejects: {r:?}"))),
                    }
                }
            }
            // invariants after every step
            let now = match all_constraints(&inst) {
                Ok(m) => m,
                Err(e) => return fail("C14/id-in-both-lists", ctxmsg(e)),
            };
            if now != initial {
                return fail("C14/constraint-collection-changed", ctxmsg("the collection of (id, function, equality, metadata) over active+removed changed".into()));
            }
            let act_now: BTreeSet<u64> = inst.constraints.iter().map(|c| c.id).collect();
            let act_model: BTreeSet<u64> = active.iter().copied().collect();
            if act_now != act_model {
                return fail("C14/active-set", ctxmsg(format!("active ids {act_now:?}, model {act_model:?}")));
            }
            for rc in &inst.removed_constraints {
                let id = rc.constraint.as_ref().unwrap().id;
                let Some((reason, params)) = removed.get(&id) else {
                    return fail("C14/removed-set", ctxmsg(format!("id {id} is in the removed list but the model has it active")));
                };
                let p: BTreeMap<String, String> = rc.removed_reason_parameters.iter().map(|(k, v)| (k.clone(), v.clone())).collect();
                if &rc.removed_reason != reason || &p != params {
                    return fail("C14/removed-reason", ctxmsg(format!("removed constraint {id} carries reason {:?}/{:?}, expected {:?}/{:?}", rc.removed_reason, p, reason, params)));
                }
            }
            let mut b2 = gi.inst.clone();
            let mut i2 = inst.clone();
            b2.constraints.clear();
            b2.removed_constraints.clear();
            i2.constraints.clear();
            i2.removed_constraints.clear();
            // hints are not in the statement (an implementation may drop the hints of a relaxed constraint)
            b2.constraint_hints = None;
            i2.constraint_hints = None;
            if b2 != i2 {
                return fail("C14/other-fields-changed", ctxmsg("fields other than the two constraint lists changed".into()));
            }
        }
        if flags_seen.len() == 2 {
            ctx.label("flag-changes");
        }
        if relax_restore && had_fail {
            ctx.nontrivial();
        }
        // A call of ANOTHER kind in the middle of the history: one used variable is fixed by partial_evaluate after the
        // first k relax / restore operations (copy B) or before all of them (copy A). Relaxing and restoring only moves
        // constraints, so both copies must evaluate alike on the remaining variables: same per-constraint values, same
        // overall feasibility (the statement's "consequently"), whatever list a constraint was in when the variable was fixed.
        if let (Some(v), false) = (gi.used_pool.first().copied(), states.is_empty()) {
            let st = &states[0];
            if let Some(val) = st.entries.get(&v).copied() {
                let moves: Vec<&Op> = ops.iter().filter(|o| matches!(o, Op::Relax(..) | Op::Restore(..))).collect();
                if !moves.is_empty() {
                    let k = (place[0] as usize * (moves.len() + 1)) >> 8;
                    let apply = |i: &mut v1::Instance, o: &Op| match o {
                        Op::Relax(id, reason, params) => {
                            let _ = i.relax_constraint(*id, reason.clone(), params.iter().map(|(k, v)| (k.clone(), v.clone())).collect());
                        }
                        Op::Restore(id) => {
                            let _ = i.restore_constraint(*id);
                        }
                        _ => {}
                    };
                    let fix = crate::mk::state([(v, val)]);
                    let mut a = gi.inst.clone();
                    let mut b = gi.inst.clone();
                    let ra = a.partial_evaluate(&fix);
                    for o in &moves {
                        apply(&mut a, o);
                    }
                    for o in &moves[..k] {
                        apply(&mut b, o);
                    }
                    let rb = b.partial_evaluate(&fix);
                    for o in &moves[k..] {
                        apply(&mut b, o);
                    }
                    if ra.is_ok() && rb.is_ok() {
                        ctx.label("partial-evaluate-in-the-middle-of-the-history");
                        let mut rest = st.clone();
                        rest.entries.remove(&v);
                        let msg = |m: String| format!("{m}\n variable {v} fixed at {val} before the history (A) or after its first {k} moves (B); history {:?}\n initial instance {}", ops, describe_inst(&gi.inst));
                        match (a.evaluate(&rest), b.evaluate(&rest)) {
                            (Err(_), Err(_)) => {}
                            (Ok(_), Err(e)) => return fail("C14/mixed-history/eval-err", msg(format!("copy A evaluates, copy B fails: {e:#}"))),
                            (Err(e), Ok(_)) => return fail("C14/mixed-history/eval-err", msg(format!("copy B evaluates, copy A fails: {e:#}"))),
                            (Ok((sa, _)), Ok((sb, _))) => {
                                let close = |x: f64, y: f64| (x - y).abs() <= 1e-9 * (1.0 + x.abs().max(y.abs()));
                                let va: BTreeMap<u64, f64> = sa.evaluated_constraints.iter().map(|c| (c.id, c.evaluated_value)).collect();
                                let vb: BTreeMap<u64, f64> = sb.evaluated_constraints.iter().map(|c| (c.id, c.evaluated_value)).collect();
                                if va.len() != vb.len() || va.iter().any(|(k, x)| vb.get(k).map(|y| !close(*x, *y)).unwrap_or(true)) {
                                    return fail("C14/mixed-history/values", msg(format!("per-constraint values differ: {va:?} vs {vb:?}")));
                                }
                                // feasibility only where no value sits at the tolerance
                                let clear = va.values().all(|x| (x.abs() - 1e-6).abs() > 1e-8);
                                if clear && sa.feasible != sb.feasible {
                                    return fail("C14/mixed-history/feasible", msg(format!("overall feasibility differs: {} vs {}", sa.feasible, sb.feasible)));
                                }
                            }
                        }
                    }
                }
            }
        }
        Ok(())
    }
}
