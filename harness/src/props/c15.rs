//! C15 Sense-aware operations select the right optimum.

use crate::driver::{fail, Ctx, PResult, Property, Tier};
use crate::exact::*;
use crate::gen::func::*;
use crate::gen::inst::*;
use crate::model::{self, *};
use crate::props::c05::{describe_inst, fp_instance, place_constraint_value, sorted_state};
use crate::props::c06::compare_solutions;
use crate::tape::Tape;
use ommx::v1;
use ommx::Evaluate;
use prost::Message;
use serde_json::json;
use std::collections::{BTreeMap, BTreeSet};

pub struct C15;

fn sampled_values(pairs: &[(u64, f64)], t: &mut Tape) -> v1::SampledValues {
    // group equal values (as the SDK would) or not
    let mut sv = v1::SampledValues::default();
    for (id, v) in pairs {
        let mut joined = false;
        if t.coin() {
            for e in sv.entries.iter_mut() {
                if e.value.to_bits() == v.to_bits() {
                    e.ids.push(*id);
                    joined = true;
                    break;
                }
            }
        }
        if !joined {
            let mut e = v1::sampled_values::SampledValuesEntry::default();
            e.value = *v;
            e.ids = vec![*id];
            sv.entries.push(e);
        }
    }
    sv
}

/// brute-force check of a chosen id
fn check_choice(sig: &str, chosen: Result<u64, String>, table: &BTreeMap<u64, (f64, bool)>, maximize: bool, what: &dyn Fn() -> String) -> PResult {
    let feas: Vec<u64> = table.iter().filter(|(_, v)| v.1).map(|(k, _)| *k).collect();
    match chosen {
        Err(e) => {
            if !feas.is_empty() {
                return fail(format!("{sig}/err-although-feasible"), format!("failed ({e}) although samples {feas:?} are feasible: {}", what()));
            }
            Ok(())
        }
        Ok(id) => {
            if feas.is_empty() {
                return fail(format!("{sig}/ok-although-none-feasible"), format!("returned sample {id} although no sample is feasible: {}", what()));
            }
            if !feas.contains(&id) {
                return fail(format!("{sig}/infeasible-chosen"), format!("returned sample {id} which is not feasible in the requested sense (feasible: {feas:?}): {}", what()));
            }
            let best = table[&id].0;
            for f in &feas {
                let o = table[f].0;
                let better = if maximize { o > best } else { o < best };
                if better {
                    return fail(format!("{sig}/not-optimal"), format!("returned sample {id} (objective {best}) but feasible sample {f} has objective {o} under sense {}: {}", if maximize { "maximize" } else { "minimize" }, what()));
                }
            }
            Ok(())
        }
    }
}

impl Property for C15 {
    fn id(&self) -> &'static str {
        "C15"
    }
    fn rule(&self) -> &'static str {
        "case = (a) instance of either sense -> as_minimization_problem (twice) | (b) instance with removed constraints x 1..8 samples (ties, mixed feasibility) -> evaluate_samples -> best_feasible / best_feasible_unrelaxed | (c) hand-built SampleSet messages in the current encoding (feasible_relaxed + feasible) and in the 1.6 encoding (feasible = remaining constraints, deprecated feasible_unrelaxed = all, feasible_relaxed empty), passed through protobuf bytes, objectives one ulp apart and infinite, also 33..900 samples sharing three objective values with the ids of each value entry in scrambled order; \
         oracle = exact negation / brute force arg-best over the sample table; non-trivial = >=3 samples with mixed feasibility and relaxed set != unrelaxed set, or a maximisation instance; distinct = sha256(case)"
    }
    fn required_labels(&self) -> Vec<String> {
        ["mode=minimization", "mode=evaluated-samples", "mode=handbuilt", "tie", "maximize", "legacy-1.6", "new-style", "none-feasible", "relaxed!=unrelaxed", "mixed-feasibility", "objectives-one-ulp-apart", "infinite-objective", "many-samples-sharing-values-in-scrambled-id-order", "fixed-variable-with-an-empty-sample-table", "fixed-variable-with-a-partial-sample-table"].iter().map(|s| s.to_string()).collect()
    }
    fn cases(&self, tier: Tier) -> usize {
        match tier {
            Tier::Quick => 150_000,
            Tier::Thorough => 4_000_000,
        }
    }
    fn tape_max(&self) -> usize {
        768
    }
    fn assumptions(&self) -> Vec<String> {
        vec![
            "pre-1.6 sample sets that carry only `feasible` are not generated: no document states how they are to be read".into(),
            "hand-built legacy messages are produced through the (deprecated) prost field and a protobuf encode/decode round trip".into(),
        ]
    }

    fn run(&self, t: &mut Tape, ctx: &mut Ctx) -> PResult {
        let mode = t.weighted(&[3, 5, 5]);
        let maximize = t.coin();
        if maximize {
            ctx.label("maximize");
        }
        match mode {
            0 => {
                ctx.label("mode=minimization");
                let regime = if t.p(96) { Regime::General } else { Regime::Dyadic };
                let mut cfg = InstCfg::new(regime);
                cfg.hints = true;
                let mut gi = gen_instance(t, &cfg, ctx);
                gi.inst.sense = if maximize { SENSE_MAX } else { SENSE_MIN };
                let inst = gi.inst.clone();
                fp_instance(ctx, &inst);
                ctx.fp(&[maximize as u8]);
                if maximize {
                    ctx.nontrivial();
                }
                ctx.sample_with(|| json!({"mode": "as_minimization_problem", "instance": describe_inst(&inst)}));
                let mut m = inst.clone();
                m.as_minimization_problem();
                if m.sense != SENSE_MIN {
                    return fail("C15/min/sense", format!("sense is {} after as_minimization_problem: {}", m.sense, describe_inst(&inst)));
                }
                let before = Poly::from_opt_function(&inst.objective);
                let after = Poly::from_opt_function(&m.objective);
                let want = if maximize { before.neg() } else { before.clone() };
                if after != want {
                    return fail("C15/min/objective", format!("objective after conversion is {} but should be {} ({}): {}", after.describe(), want.describe(), if maximize { "negated" } else { "unchanged" }, describe_inst(&inst)));
                }
                let mut a = m.clone();
                let mut b = inst.clone();
                a.objective = None;
                b.objective = None;
                a.sense = 0;
                b.sense = 0;
                // "constraints and variables untouched"; description, recorded parameters and hints are not in the
                // statement, and an absent sub-message and an empty one say the same
                for x in [&mut a, &mut b] {
                    if x.description == Some(Default::default()) {
                        x.description = None;
                    }
                    if x.parameters == Some(Default::default()) {
                        x.parameters = None;
                    }
                    if x.constraint_hints == Some(Default::default()) {
                        x.constraint_hints = None;
                    }
                }
                if a != b {
                    return fail("C15/min/other-fields", format!("constraints/variables/other fields changed: {}", describe_inst(&inst)));
                }
                let mut twice = m.clone();
                twice.as_minimization_problem();
                if twice != m {
                    return fail("C15/min/not-idempotent", format!("second application changed the instance: {}", describe_inst(&inst)));
                }
                Ok(())
            }
            1 => {
                ctx.label("mode=evaluated-samples");
                let regime = Regime::Dyadic;
                // a handful of samples, or (as a sampler with many reads returns them) 33..900 samples sharing three
                // objective values, listed in a scrambled (not ascending) order of ids inside each value entry
                let many = t.p(30);
                let n = if many { *t.pick(&[33usize, 40, 64, 65, 100, 256, 300, 900]) } else { 1 + t.choice(8) };
                let _many_seed = t.byte() as u64;
                let unrelaxed = t.coin();
                let tie = t.p(90);
                let place: Vec<u8> = (0..8).map(|_| t.byte()).collect();
                let mut cfg = InstCfg::new(regime);
                cfg.max_active = 2;
                cfg.max_removed = 2;
                cfg.func.max_degree = 2;
                cfg.func.max_terms = 4;
                let mut gi = gen_instance(t, &cfg, ctx);
                gi.inst.sense = if maximize { SENSE_MAX } else { SENSE_MIN };
                let mut states: Vec<v1::State> = vec![];
                for i in 0..n {
                    if tie && i > 0 && t.coin() {
                        states.push(states[t.choice(states.len())].clone());
                    } else {
                        states.push(gen_inst_state(t, &gi, regime, true));
                    }
                }
                // make feasibility patterns: with respect to the first state, place active constraints to hold
                // and (sometimes) removed constraints to fail
                let na = gi.inst.constraints.len();
                for i in 0..(na + gi.inst.removed_constraints.len()) {
                    let b = place[i % place.len()];
                    let target = match b % 4 {
                        0 => continue,
                        1 => 0.0,
                        2 => -1.0,
                        _ => 2.0,
                    };
                    let st = states[(b as usize / 4) % states.len()].clone();
                    let c = if i < na { &mut gi.inst.constraints[i] } else { gi.inst.removed_constraints[i - na].constraint.as_mut().unwrap() };
                    place_constraint_value(c, &st, target);
                }
                if tie {
                    // constant objective on a subset: ties
                    if t.coin() {
                        gi.inst.objective = Some(crate::mk::fconst(1.0));
                    }
                }
                let inst = gi.inst.clone();
                let mut samples = v1::Samples::default();
                let ids: Vec<u64> = (0..n as u64).map(|i| i * 7 + 3).collect();
                for (i, st) in states.iter().enumerate() {
                    samples.add_sample(ids[i], st.clone());
                }
                fp_instance(ctx, &inst);
                for st in &states {
                    ctx.fp_state(st);
                }
                ctx.fp(&[unrelaxed as u8]);
                ctx.sample_with(|| json!({"mode": if unrelaxed {"best_feasible_unrelaxed"} else {"best_feasible"}, "instance": describe_inst(&inst), "states": states.iter().map(sorted_state).collect::<Vec<_>>()}));
                // oracle table from the reference model
                let mut table_rel: BTreeMap<u64, (f64, bool)> = BTreeMap::new();
                let mut table_all: BTreeMap<u64, (f64, bool)> = BTreeMap::new();
                for (i, st) in states.iter().enumerate() {
                    match model::evaluate(&inst, st) {
                        Ok(m) => {
                            let (Some(fr), Some(fa)) = (m.feasible_relaxed, m.feasible) else {
                                ctx.exclude("borderline flag");
                                return Ok(());
                            };
                            if m.objective_margin != 0.0 {
                                ctx.exclude("objective not exactly representable");
                                return Ok(());
                            }
                            let o = q_to_f64(&m.objective);
                            table_rel.insert(ids[i], (o, fr));
                            table_all.insert(ids[i], (o, fa));
                        }
                        Err(_) => {
                            ctx.exclude("state rejected by the reference");
                            return Ok(());
                        }
                    }
                }
                let (ss, _) = match inst.evaluate_samples(&samples) {
                    Ok(x) => x,
                    Err(e) => return fail("C15/samples/evaluate-samples-err", format!("evaluate_samples failed: {e:#} for {}", describe_inst(&inst))),
                };
                let relset: BTreeSet<u64> = table_rel.iter().filter(|(_, v)| v.1).map(|(k, _)| *k).collect();
                let allset: BTreeSet<u64> = table_all.iter().filter(|(_, v)| v.1).map(|(k, _)| *k).collect();
                if relset != allset {
                    ctx.label("relaxed!=unrelaxed");
                }
                let mixed = !allset.is_empty() && allset.len() < n;
                if mixed {
                    ctx.label("mixed-feasibility");
                }
                if (if unrelaxed { &allset } else { &relset }).is_empty() {
                    ctx.label("none-feasible");
                }
                let objs: Vec<u64> = table_rel.values().map(|v| v.0.to_bits()).collect();
                if objs.iter().collect::<BTreeSet<_>>().len() < objs.len() {
                    ctx.label("tie");
                }
                if n >= 3 && mixed && relset != allset {
                    ctx.nontrivial();
                }
                let what = || format!("{} on instance {} with states {:?}", if unrelaxed { "best_feasible_unrelaxed" } else { "best_feasible" }, describe_inst(&inst), states.iter().map(sorted_state).collect::<Vec<_>>());
                let (chosen, sol) = if unrelaxed { (ss.best_feasible_unrelaxed_id(), ss.best_feasible_unrelaxed()) } else { (ss.best_feasible_id(), ss.best_feasible()) };
                let table = if unrelaxed { &table_all } else { &table_rel };
                check_choice("C15/samples", chosen.as_ref().map(|x| *x).map_err(|e| format!("{e:#}")), table, maximize, &what)?;
                match (chosen, sol) {
                    (Ok(id), Ok(sol)) => {
                        let g = ss.get(id).map_err(|e| crate::driver::Failure { signature: "C15/samples/get-err".into(), message: format!("get({id}) failed: {e:#}") })?;
                        compare_solutions("C15/samples/solution", &sol, &g)?;
                        Ok(())
                    }
                    (Err(_), Err(_)) => Ok(()),
                    (a, b) => fail("C15/samples/id-solution-disagree", format!("id accessor {:?} and solution accessor {:?} disagree: {}", a.is_ok(), b.is_ok(), what())),
                }
            }
            _ => {
                ctx.label("mode=handbuilt");
                let legacy = t.coin();
                ctx.label(if legacy { "legacy-1.6" } else { "new-style" });
                // a handful of samples, or (as a sampler with many reads returns them) 33..900 samples sharing three
                // objective values, listed in a scrambled (not ascending) order of ids inside each value entry
                let many = t.p(30);
                let n = if many { *t.pick(&[33usize, 40, 64, 65, 100, 256, 300, 900]) } else { 1 + t.choice(8) };
                let many_seed = t.byte() as u64;
                let unrelaxed = t.coin();
                let mut pairs: Vec<(u64, f64)> = vec![];
                let mut rel: BTreeMap<u64, bool> = BTreeMap::new();
                let mut all: BTreeMap<u64, bool> = BTreeMap::new();
                let base = *t.pick(&[0u64, 10, 1 << 40]);
                // objective pools: small dyadics (ties), values one ulp apart, and infinities
                let pool_kind = t.weighted(&[6, 3, 2]);
                let near: [f64; 8] = [0.3, 0.30000000000000004, 0.1 + 0.2, 1.0, 1.0000000000000002, 0.0, 1e-16, -1e-16];
                let infs: [f64; 5] = [f64::INFINITY, f64::NEG_INFINITY, 0.0, 1e308, -1e308];
                match pool_kind {
                    1 => ctx.label("objectives-one-ulp-apart"),
                    2 => ctx.label("infinite-objective"),
                    _ => {}
                }
                for i in 0..n {
                    let id = base + i as u64 * 2;
                    if many {
                        let h = |k: u64| ((derived_coeff(many_seed ^ k, i as u64) * 16.0) as i64 + 64) as u64;
                        pairs.push((id, [0.5, 1.0, 1.5][(h(1) % 3) as usize]));
                        let fr = h(2) % 3 != 0;
                        rel.insert(id, fr);
                        all.insert(id, fr && h(3) % 2 == 0);
                        continue;
                    }
                    let o = match pool_kind {
                        0 => t.int_around(0, -3, 3) as f64 / 2.0,
                        1 => *t.pick(&near),
                        _ => *t.pick(&infs),
                    };
                    pairs.push((id, o));
                    let fr = t.coin();
                    let fa = fr && t.coin(); // all-constraints feasibility implies remaining-constraints feasibility
                    rel.insert(id, fr);
                    all.insert(id, fa);
                }
                let mut ss = v1::SampleSet::default();
                ss.sense = if maximize { SENSE_MAX } else { SENSE_MIN };
                ss.objectives = Some(if many {
                    ctx.label("many-samples-sharing-values-in-scrambled-id-order");
                    let mut scrambled = pairs.clone();
                    scrambled.sort_by_key(|(id, _)| ((derived_coeff(many_seed ^ 7, *id) * 16.0) as i64, *id));
                    let mut sv = v1::SampledValues::default();
                    for (id, v) in &scrambled {
                        match sv.entries.iter_mut().find(|e| e.value == *v) {
                            Some(e) => e.ids.push(*id),
                            None => {
                                let mut e = v1::sampled_values::SampledValuesEntry::default();
                                e.value = *v;
                                e.ids = vec![*id];
                                sv.entries.push(e);
                            }
                        }
                    }
                    sv
                } else {
                    sampled_values(&pairs, t)
                });
                if legacy {
                    ss.feasible = rel.iter().map(|(k, v)| (*k, *v)).collect();
                    #[allow(deprecated)]
                    {
                        ss.feasible_unrelaxed = all.iter().map(|(k, v)| (*k, *v)).collect();
                    }
                } else {
                    ss.feasible_relaxed = rel.iter().map(|(k, v)| (*k, *v)).collect();
                    ss.feasible = all.iter().map(|(k, v)| (*k, *v)).collect();
                }
                // decision variables of the set: one sampled normally, and one FIXED variable (recorded value) whose optional
                // per-sample table is absent / present but empty / present but listing only some of the samples
                {
                    let mut free = v1::SampledDecisionVariable::default();
                    let mut dv = v1::DecisionVariable::default();
                    dv.id = 1;
                    dv.kind = KIND_CONTINUOUS;
                    free.decision_variable = Some(dv);
                    let mut sv = v1::SampledValues::default();
                    let mut e = v1::sampled_values::SampledValuesEntry::default();
                    e.value = 0.5;
                    e.ids = pairs.iter().map(|p| p.0).collect();
                    sv.entries.push(e);
                    free.samples = Some(sv);
                    ss.decision_variables.push(free);
                    let mut fixed = v1::SampledDecisionVariable::default();
                    let mut dv = v1::DecisionVariable::default();
                    dv.id = 2;
                    dv.kind = KIND_CONTINUOUS;
                    dv.substituted_value = Some(1.25);
                    fixed.decision_variable = Some(dv);
                    match many_seed % 3 {
                        0 => {}
                        1 => {
                            fixed.samples = Some(v1::SampledValues::default());
                            ctx.label("fixed-variable-with-an-empty-sample-table");
                        }
                        _ => {
                            let mut sv = v1::SampledValues::default();
                            let mut e = v1::sampled_values::SampledValuesEntry::default();
                            e.value = 1.25;
                            e.ids = pairs.iter().map(|p| p.0).take(pairs.len() / 2).collect();
                            sv.entries.push(e);
                            fixed.samples = Some(sv);
                            ctx.label("fixed-variable-with-a-partial-sample-table");
                        }
                    }
                    ss.decision_variables.push(fixed);
                }
                // through bytes, as another release would have written them
                let bytes = ss.encode_to_vec();
                let ss = match v1::SampleSet::decode(bytes.as_slice()) {
                    Ok(s) => s,
                    Err(e) => return fail("C15/handbuilt/decode", format!("decode failed: {e}")),
                };
                ctx.fp_dbg(&pairs);
                ctx.fp_dbg(&rel);
                ctx.fp_dbg(&all);
                ctx.fp(&[legacy as u8, unrelaxed as u8, maximize as u8]);
                ctx.sample_with(|| json!({"mode": "hand-built SampleSet", "encoding": if legacy {"1.6 (feasible + feasible_unrelaxed)"} else {"current (feasible_relaxed + feasible)"}, "objectives": format!("{:?}", pairs), "feasible_remaining": format!("{:?}", rel), "feasible_all": format!("{:?}", all), "maximize": maximize, "request": if unrelaxed {"all constraints"} else {"remaining constraints"}}));
                let table: BTreeMap<u64, (f64, bool)> = pairs.iter().map(|(id, o)| (*id, (*o, if unrelaxed { all[id] } else { rel[id] }))).collect();
                let relset: BTreeSet<u64> = rel.iter().filter(|(_, v)| **v).map(|(k, _)| *k).collect();
                let allset: BTreeSet<u64> = all.iter().filter(|(_, v)| **v).map(|(k, _)| *k).collect();
                if relset != allset {
                    ctx.label("relaxed!=unrelaxed");
                }
                let mixed = !allset.is_empty() && allset.len() < n;
                if mixed {
                    ctx.label("mixed-feasibility");
                }
                if table.values().all(|v| !v.1) {
                    ctx.label("none-feasible");
                }
                let objs: Vec<u64> = pairs.iter().map(|v| v.1.to_bits()).collect();
                if objs.iter().collect::<BTreeSet<_>>().len() < objs.len() {
                    ctx.label("tie");
                }
                if n >= 3 && mixed && relset != allset {
                    ctx.nontrivial();
                }
                let what = || format!("{} on hand-built {} sample set: objectives {:?}, feasible(remaining) {:?}, feasible(all) {:?}, maximize={maximize}", if unrelaxed { "best_feasible_unrelaxed" } else { "best_feasible" }, if legacy { "1.6-style" } else { "current-style" }, pairs, rel, all);
                let chosen = if unrelaxed { ss.best_feasible_unrelaxed_id() } else { ss.best_feasible_id() };
                check_choice(&format!("C15/handbuilt/{}", if legacy { "legacy" } else { "current" }), chosen.as_ref().map(|x| *x).map_err(|e| format!("{e:#}")), &table, maximize, &what)?;
                let sol = if unrelaxed { ss.best_feasible_unrelaxed() } else { ss.best_feasible() };
                match (chosen, sol) {
                    (Ok(id), Ok(sol)) => {
                        let stv = sol.state.as_ref().map(|s| (s.entries.get(&1).copied(), s.entries.get(&2).copied()));
                        if stv != Some((Some(0.5), Some(1.25))) {
                            return fail("C15/handbuilt/solution-state", format!("the returned solution reports (x1, x2) = {stv:?}, the set says x1 = 0.5 for every sample and x2 is fixed at 1.25: {}", what()));
                        }
                        if sol.objective != table[&id].0 {
                            return fail("C15/handbuilt/solution-objective", format!("returned solution has objective {} but sample {id} has {}: {}", sol.objective, table[&id].0, what()));
                        }
                        if sol.feasible != all[&id] || sol.feasible_relaxed != Some(rel[&id]) {
                            return fail("C15/handbuilt/solution-flags", format!("returned solution has flags feasible={} relaxed={:?}, sample {id} has all={} remaining={}: {}", sol.feasible, sol.feasible_relaxed, all[&id], rel[&id], what()));
                        }
                        Ok(())
                    }
                    (Err(_), Err(_)) => Ok(()),
                    (a, b) => fail("C15/handbuilt/id-solution-disagree", format!("id accessor ok={} but solution accessor ok={}: {}", a.is_ok(), b.is_ok(), what())),
                }
            }
        }
    }
}
