//! C16 Interval bounds enclose every attainable value.

use crate::driver::{fail, Ctx, PResult, Property, Tier};
use crate::exact::*;
use crate::gen::func::*;
use crate::tape::Tape;
use num::{Signed, Zero};
use ommx::v1;
use ommx::{Bound, Bounds, VariableID};
use serde_json::json;
use std::collections::BTreeMap;

pub struct C16;

type Iv = (f64, f64);

fn endpoints() -> Vec<f64> {
    vec![f64::NEG_INFINITY, -1e6, -7.25, -1.0, -0.5, -1e-9, -0.0, 0.0, 1e-9, 0.5, 1.0, 3.0, 1234.5, 1e6, f64::INFINITY]
}

/// all valid intervals over the endpoint classes
fn class_intervals() -> Vec<Iv> {
    let e = endpoints();
    let mut v = vec![];
    for a in &e {
        for b in &e {
            if *a <= *b && *a != f64::INFINITY && *b != f64::NEG_INFINITY {
                v.push((*a, *b));
            }
        }
    }
    v
}

/// points placed in an interval: both ends, 0 if inside, interior points, far points on infinite sides
fn placed_points(iv: Iv) -> Vec<f64> {
    let (lo, hi) = iv;
    let mut p = vec![];
    if lo.is_finite() {
        p.push(lo);
    }
    if hi.is_finite() {
        p.push(hi);
    }
    if lo <= 0.0 && 0.0 <= hi {
        p.push(0.0);
    }
    if lo.is_finite() && hi.is_finite() {
        p.push(lo + (hi - lo) / 2.0);
        p.push(lo + (hi - lo) / 4.0);
    } else if lo.is_finite() {
        for k in [0, 3, 10, 20] {
            p.push(lo + 2f64.powi(k));
        }
    } else if hi.is_finite() {
        for k in [0, 3, 10, 20] {
            p.push(hi - 2f64.powi(k));
        }
    } else {
        for k in [0, 3, 10, 20] {
            p.push(2f64.powi(k));
            p.push(-(2f64.powi(k)));
        }
    }
    p.retain(|x| x.is_finite() && *x >= lo && *x <= hi);
    p
}

fn mk(iv: Iv) -> Bound {
    Bound::new(iv.0, iv.1).expect("generator: valid interval")
}

fn valid(b: &Bound) -> bool {
    let (l, u) = (b.lower(), b.upper());
    !(l.is_nan() || u.is_nan() || l == f64::INFINITY || u == f64::NEG_INFINITY || l > u)
}

/// exact containment with relative slack `rel` (0 = exact)
fn contains(b: &Bound, v: &Q, rel: f64) -> bool {
    let slack = if rel == 0.0 { Q::zero() } else { q(rel) * (v.abs() + qi(1)) };
    let lo_ok = b.lower() == f64::NEG_INFINITY || q(b.lower()) - slack.clone() <= *v;
    let hi_ok = b.upper() == f64::INFINITY || *v <= q(b.upper()) + slack;
    lo_ok && hi_ok
}

fn dyadicish(x: f64) -> bool {
    // few significant bits: products of up to 8 such numbers stay exact? no - use exactness only for small integers / halves
    x.is_infinite() || (x * 8.0).fract() == 0.0 && x.abs() <= 64.0
}

fn check_ops(a: Iv, b: Iv, scalars: &[f64], ctx: &mut Ctx) -> PResult {
    let (ba, bb) = (mk(a), mk(b));
    let pa = placed_points(a);
    let pb = placed_points(b);
    let exact_mode = [a.0, a.1, b.0, b.1].iter().all(|x| dyadicish(*x));
    let rel = if exact_mode { 0.0 } else { 1e-9 };
    if a.0.is_infinite() || a.1.is_infinite() || b.0.is_infinite() || b.1.is_infinite() || (a.0 < 0.0 && a.1 > 0.0) {
        ctx.nontrivial();
    }
    let zero = |iv: Iv| iv.0 == 0.0 && iv.1 == 0.0;
    let inf = |iv: Iv| iv.0.is_infinite() || iv.1.is_infinite();
    if (zero(a) && inf(b)) || (zero(b) && inf(a)) || ((a.0 == 0.0 || a.1 == 0.0) && inf(b)) || ((b.0 == 0.0 || b.1 == 0.0) && inf(a)) {
        ctx.label("0*inf");
    }
    // sum
    let s = ba + bb;
    if !valid(&s) {
        return fail("C16/add/invalid-interval", format!("{a:?} + {b:?} = {s:?}"));
    }
    for x in &pa {
        for y in &pb {
            let v = q(*x) + q(*y);
            if !contains(&s, &v, rel) {
                return fail("C16/add/not-enclosed", format!("{x} in {a:?}, {y} in {b:?}, but {x}+{y} = {} is outside {a:?}+{b:?} = {s:?}", q_to_f64(&v)));
            }
        }
    }
    // product
    let p = ba * bb;
    if !valid(&p) {
        return fail("C16/mul/invalid-interval", format!("{a:?} * {b:?} = {p:?}"));
    }
    for x in &pa {
        for y in &pb {
            let v = q(*x) * q(*y);
            if !contains(&p, &v, rel) {
                return fail("C16/mul/not-enclosed", format!("{x} in {a:?}, {y} in {b:?}, but {x}*{y} = {} is outside {a:?}*{b:?} = {p:?}", q_to_f64(&v)));
            }
        }
    }
    // integer powers of a
    for e in 0u8..=8 {
        let r = ba.pow(e);
        if !valid(&r) {
            return fail("C16/pow/invalid-interval", format!("{a:?}^{e} = {r:?}"));
        }
        if e % 2 == 1 && a.0 < 0.0 && a.1 > 0.0 {
            ctx.label("odd-power-crossing");
        }
        if e % 2 == 0 && e > 0 && a.1 <= 0.0 && a.0 < 0.0 {
            ctx.label("even-power-negative");
        }
        if e >= 4 {
            ctx.label("exponent>=4");
        }
        for x in &pa {
            if x.abs() > 1e6 {
                continue;
            }
            let mut v = qi(1);
            for _ in 0..e {
                v *= q(*x);
            }
            // powi rounds: allow relative slack unless everything is a small dyadic
            let rel_p = if exact_mode && x.abs() <= 8.0 { 0.0 } else { 1e-9 };
            if !contains(&r, &v, rel_p) {
                return fail("C16/pow/not-enclosed", format!("{x} in {a:?}, but {x}^{e} = {:e} is outside {a:?}^{e} = {r:?}", q_to_f64(&v)));
            }
        }
    }
    // scaling by non-zero numbers, adding numbers
    for c in scalars {
        if *c == 0.0 {
            continue;
        }
        let r = ba * *c;
        let r2 = *c * ba;
        // every spelling of the operation (b * c, c * b, b *= c, and likewise for the other operators) is held to the
        // statement itself - a valid interval enclosing the pointwise results - not to agreement with another spelling
        let mut m = ba;
        m *= *c;
        for (form, r) in [("b * c", &r), ("c * b", &r2), ("b *= c", &m)] {
            if !valid(r) {
                return fail(if form == "b *= c" { "C16/scale/assign-form-differs" } else { "C16/scale/invalid-interval" }, format!("{a:?} scaled by {c} ({form}) = {r:?}"));
            }
            for x in &pa {
                let v = q(*x) * q(*c);
                if !contains(r, &v, rel.max(if dyadicish(*c) { 0.0 } else { 1e-9 })) {
                    return fail(if form == "b *= c" { "C16/scale/assign-form-differs" } else { "C16/scale/not-enclosed" }, format!("{x} in {a:?}, but {c}*{x} = {} is outside {a:?} scaled by {c} ({form}) = {r:?}", q_to_f64(&v)));
                }
            }
        }
        {
            let mut m2 = ba;
            m2 *= bb;
            let mut m3 = ba;
            m3 += bb;
            if !valid(&m2) || !valid(&m3) {
                return fail("C16/mul/assign-form-differs", format!("b = {a:?}; b *= {b:?} gives {m2:?}; b += {b:?} gives {m3:?}"));
            }
            for x in &pa {
                for y in &pb {
                    let v = q(*x) * q(*y);
                    if !contains(&m2, &v, rel) {
                        return fail("C16/mul/assign-form-differs", format!("b = {a:?}; b *= {b:?} gives {m2:?}, which does not enclose {x}*{y} (the binary form gives {p:?})"));
                    }
                    let v = q(*x) + q(*y);
                    if !contains(&m3, &v, rel) {
                        return fail("C16/add/assign-form-differs", format!("b = {a:?}; b += {b:?} gives {m3:?}, which does not enclose {x}+{y} (the binary form gives {s:?})"));
                    }
                }
            }
            let mut m4 = ba;
            m4 += *c;
            if !valid(&m4) {
                return fail("C16/shift/assign-form-differs", format!("b = {a:?}; b += {c} gives {m4:?}"));
            }
            for x in &pa {
                let v = q(*x) + q(*c);
                if !contains(&m4, &v, rel.max(if dyadicish(*c) { 0.0 } else { 1e-9 })) {
                    return fail("C16/shift/assign-form-differs", format!("b = {a:?}; b += {c} gives {m4:?}, which does not enclose {x}+{c}"));
                }
            }
        }
        let r = ba + *c;
        if !valid(&r) {
            return fail("C16/shift/invalid-interval", format!("{a:?} + {c} = {r:?}"));
        }
        for x in &pa {
            let v = q(*x) + q(*c);
            if !contains(&r, &v, rel.max(if dyadicish(*c) { 0.0 } else { 1e-9 })) {
                return fail("C16/shift/not-enclosed", format!("{x} in {a:?}, but {x}+{c} = {} is outside {a:?}+{c} = {r:?}", q_to_f64(&v)));
            }
        }
    }
    // moving an end: a request that would invert the interval (or NaN) is refused and leaves a valid, unchanged
    // interval behind; an accepted request moves exactly that end
    for (v, lower_end) in [(b.0, true), (b.1, true), (b.0, false), (b.1, false), (f64::NAN, true), (f64::NAN, false)] {
        let mut m = ba;
        let r = if lower_end { m.set_lower(v) } else { m.set_upper(v) };
        match r {
            Err(_) => {
                if m != ba {
                    return fail("C16/setter/refused-but-modified", format!("{}({v}) on {a:?} was refused but left {m:?} behind", if lower_end { "set_lower" } else { "set_upper" }));
                }
            }
            Ok(()) => {
                let want = if lower_end { (v, a.1) } else { (a.0, v) };
                if !valid(&m) || m.lower() != want.0 || m.upper() != want.1 {
                    return fail("C16/setter/accepted-wrong-result", format!("{}({v}) on {a:?} gives {m:?}", if lower_end { "set_lower" } else { "set_upper" }));
                }
            }
        }
    }
    Ok(())
}

fn gen_interval(t: &mut Tape) -> Iv {
    let e = endpoints();
    let pick = |t: &mut Tape| -> f64 {
        if t.p(150) {
            *t.pick(&e)
        } else if t.coin() {
            t.int_around(0, -64, 64) as f64 / 8.0
        } else {
            let v = t.real();
            v.clamp(-1e6, 1e6)
        }
    };
    let (a, b) = (pick(t), pick(t));
    let (lo, hi) = if a <= b { (a, b) } else { (b, a) };
    let lo = if lo == f64::INFINITY { 0.0 } else { lo };
    let hi = if hi == f64::NEG_INFINITY { 0.0 } else { hi };
    if lo <= hi {
        (lo, hi)
    } else {
        (hi, lo)
    }
}

fn scale_function(f: &v1::Function, s: f64) -> v1::Function {
    use v1::function::Function as FE;
    let lin = |l: &v1::Linear| {
        let mut l = l.clone();
        for t in l.terms.iter_mut() {
            t.coefficient *= s;
        }
        l.constant *= s;
        l
    };
    let mut f = f.clone();
    f.function = match f.function.take() {
        Some(FE::Constant(c)) => Some(FE::Constant(c * s)),
        Some(FE::Linear(l)) => Some(FE::Linear(lin(&l))),
        Some(FE::Quadratic(mut qd)) => {
            for v in qd.values.iter_mut() {
                *v *= s;
            }
            qd.linear = qd.linear.as_ref().map(lin);
            Some(FE::Quadratic(qd))
        }
        Some(FE::Polynomial(mut p)) => {
            for t in p.terms.iter_mut() {
                t.coefficient *= s;
            }
            Some(FE::Polynomial(p))
        }
        other => other,
    };
    f
}

fn gcd(a: i64, b: i64) -> i64 {
    if b == 0 {
        a.abs()
    } else {
        gcd(b, a % b)
    }
}

impl Property for C16 {
    fn id(&self) -> &'static str {
        "C16"
    }
    fn rule(&self) -> &'static str {
        "sweep = every ordered pair of intervals over the endpoint classes {-inf, -1e6, -7.25, -1, -0.5, -1e-9, -0, 0, 1e-9, 0.5, 1, 3, 1234.5, 1e6, +inf} x {+, *, ^0..8, scaling, shift} x placed points (ends, 0, interior, far points), compound-assignment forms, set_lower / set_upper; random = intervals with random reals | function (degree<=4, any representation, <=4 variables with ids from the whole u64 range, also scaled below machine epsilon) x box (finite, half-infinite, unbounded, degenerate, sign-crossing, variables missing from the box) x points on corners/faces/interior | as_integer_bound (also finite endpoints up to 1.5e300) | content_factor of rational-coefficient functions (denominators<=60); \
         oracle = exact rational pointwise values, and for functions that are affine after merging the exact range over the box (attained at corners; infinite on unbounded sides); non-trivial = an operand with an infinite end or a sign-crossing interval, or exponent>=4; distinct = sha256(case)"
    }
    fn required_labels(&self) -> Vec<String> {
        ["0*inf", "odd-power-crossing", "even-power-negative", "unnormalised-function", "missing-bound", "mode=ops", "mode=evaluate-bound", "mode=integer-bound", "mode=content-factor", "exponent>=4", "content-zero-function", "infinite-box-side", "sub-epsilon-coefficients", "affine-range-oracle", "affine-range-unbounded", "integer-bound-huge-endpoint", "id=u64::MAX"].iter().map(|s| s.to_string()).collect()
    }
    fn cases(&self, tier: Tier) -> usize {
        match tier {
            Tier::Quick => 60_000,
            Tier::Thorough => 2_000_000,
        }
    }
    fn tape_max(&self) -> usize {
        256
    }
    fn assumptions(&self) -> Vec<String> {
        vec![
            "scaling by 0.0 is excluded by the statement; as_integer_bound is only applied to intervals that contain an integer; magnitudes <= 1e6 so that eighth powers do not overflow".into(),
            "containment is exact when all endpoints are small dyadic numbers and relative 1e-9 otherwise".into(),
        ]
    }
    fn sweep_len(&self, _tier: Tier) -> usize {
        let n = class_intervals().len();
        n * n
    }
    fn sweep_description(&self) -> Option<String> {
        Some(format!("all {}^2 ordered pairs of endpoint-class intervals x {{+, *, ^0..8, scale by +-2, +-0.5, shift}} x placed points", class_intervals().len()))
    }
    fn sweep_case(&self, _tier: Tier, i: usize, ctx: &mut Ctx) -> PResult {
        let iv = class_intervals();
        let n = iv.len();
        let (a, b) = (iv[i / n], iv[i % n]);
        ctx.label("mode=ops");
        ctx.fp_dbg(&(a.0.to_bits(), a.1.to_bits(), b.0.to_bits(), b.1.to_bits()));
        ctx.sample_with(|| json!({"sweep": true, "a": format!("{a:?}"), "b": format!("{b:?}")}));
        check_ops(a, b, &[2.0, -2.0, 0.5, -0.5, 1e-9, -1e6], ctx)
    }

    fn run(&self, t: &mut Tape, ctx: &mut Ctx) -> PResult {
        let mode = t.weighted(&[4, 8, 3, 4]);
        match mode {
            0 => {
                ctx.label("mode=ops");
                let a = gen_interval(t);
                let b = gen_interval(t);
                let c = {
                    let v = t.real();
                    if v == 0.0 {
                        1.0
                    } else {
                        v.clamp(-1e6, 1e6)
                    }
                };
                ctx.fp_dbg(&(a.0.to_bits(), a.1.to_bits(), b.0.to_bits(), b.1.to_bits(), c.to_bits()));
                ctx.sample_with(|| json!({"mode": "interval operations", "a": format!("{a:?}"), "b": format!("{b:?}"), "scalar": c}));
                check_ops(a, b, &[c, -c], ctx)
            }
            1 => {
                ctx.label("mode=evaluate-bound");
                let regime = if t.p(100) { Regime::General } else { Regime::Dyadic };
                let nv = 1 + t.choice(4);
                let ids: Vec<u64> = if t.p(70) {
                    // ids from the whole range (0, 2^53 + 1, u64::MAX - 1, u64::MAX ...)
                    let mut pool = ID_POOL.to_vec();
                    t.shuffle(&mut pool);
                    pool.truncate(nv);
                    if pool.contains(&u64::MAX) {
                        ctx.label("id=u64::MAX");
                    }
                    pool
                } else {
                    (0..nv as u64).map(|i| i * 3 + 1).collect()
                };
                let cfg = FuncCfg { regime, allow_unset: true, max_terms: 6, ..FuncCfg::default() };
                let tiny = regime == Regime::General && t.p(40);
                let mut f = gen_function(t, &ids, &cfg, ctx);
                if tiny {
                    // the same function scaled down so that every coefficient is far below machine epsilon (as left
                    // behind by `f * 1e-17`): over a wide or unbounded box its values are still of ordinary size
                    f = scale_function(&f, *t.pick(&[1e-17, 8.673617379884035e-19]));
                    ctx.label("sub-epsilon-coefficients");
                }
                let unnorm = ["repeated-term", "lower-triangular", "explicit-zero", "symmetric-split", "unsorted-monomial", "multi-const", "dup-quad-position"].iter().any(|l| ctx.labels.iter().any(|x| x == l));
                if unnorm {
                    ctx.label("unnormalised-function");
                }
                // box
                let mut bounds = Bounds::new();
                let mut ivs: BTreeMap<u64, Iv> = BTreeMap::new();
                for id in &ids {
                    if t.p(40) {
                        ctx.label("missing-bound");
                        ivs.insert(*id, (f64::NEG_INFINITY, f64::INFINITY));
                        continue;
                    }
                    let mut iv = gen_interval(t);
                    if regime == Regime::Dyadic {
                        // keep finite ends small dyadic
                        let fix = |x: f64| if x.is_infinite() { x } else { ((x.clamp(-8.0, 8.0)) * 8.0).round() / 8.0 };
                        iv = (fix(iv.0), fix(iv.1));
                        if iv.0 > iv.1 {
                            iv = (iv.1, iv.0);
                        }
                    }
                    if iv.0.is_infinite() || iv.1.is_infinite() {
                        ctx.label("infinite-box-side");
                    }
                    bounds.insert(VariableID::from(*id), mk(iv));
                    ivs.insert(*id, iv);
                }
                ctx.fp_msg(&f);
                ctx.fp_dbg(&ivs.iter().map(|(k, v)| (*k, v.0.to_bits(), v.1.to_bits())).collect::<Vec<_>>());
                if ivs.values().any(|iv| iv.0.is_infinite() || iv.1.is_infinite() || (iv.0 < 0.0 && iv.1 > 0.0)) {
                    ctx.nontrivial();
                }
                ctx.sample_with(|| json!({"mode": "Function::evaluate_bound", "function": fn_json(&f), "box": format!("{:?}", ivs)}));
                let b = f.evaluate_bound(&bounds);
                if !valid(&b) {
                    return fail("C16/evaluate-bound/invalid-interval", format!("evaluate_bound of {f:?} over {ivs:?} = {b:?}"));
                }
                let p = Poly::from_function(&f);
                // a function that is affine after merging attains its supremum and infimum over the box at corners
                // that can be named exactly; an enclosure of all values must reach both (infinite when a variable
                // with a non-zero coefficient is unbounded on the relevant side)
                if p.degree() <= 1 {
                    let mut sup = Q::zero();
                    let mut inf = Q::zero();
                    let mut mag = Q::zero();
                    let (mut sup_inf, mut inf_inf) = (false, false);
                    for (m, c) in &p.terms {
                        if m.is_empty() {
                            sup += c.clone();
                            inf += c.clone();
                            mag += c.abs();
                            continue;
                        }
                        let (lo, hi) = ivs[&m[0]];
                        let (up_end, down_end) = if *c > Q::zero() { (hi, lo) } else { (lo, hi) };
                        if up_end.is_infinite() {
                            sup_inf = true;
                        } else {
                            sup += c.clone() * q(up_end);
                            mag += (c.clone() * q(up_end)).abs();
                        }
                        if down_end.is_infinite() {
                            inf_inf = true;
                        } else {
                            inf += c.clone() * q(down_end);
                            mag += (c.clone() * q(down_end)).abs();
                        }
                    }
                    ctx.label("affine-range-oracle");
                    if sup_inf || inf_inf {
                        ctx.label("affine-range-unbounded");
                    }
                    // relative to the magnitudes involved, plus an absolute floor for products that underflow
                    // (rounding happens on the raw, un-merged terms: 6 - 6 + 1e-16 may come out as 0)
                    let mut rawmag = Q::zero();
                    for (ids_, c) in raw_terms(&f) {
                        let mut tq = q(c).abs();
                        for id in &ids_ {
                            let (lo, hi) = ivs[id];
                            let e = [lo, hi].iter().filter(|x| x.is_finite()).fold(0.0f64, |a, x| a.max(x.abs()));
                            tq *= q(e.max(1.0));
                        }
                        rawmag += tq;
                    }
                    let slack = q(1e-9) * (mag + rawmag) + q(1e-290);
                    let hi_ok = if sup_inf { b.upper() == f64::INFINITY } else { b.upper() == f64::INFINITY || q(b.upper()) + slack.clone() >= sup };
                    let lo_ok = if inf_inf { b.lower() == f64::NEG_INFINITY } else { b.lower() == f64::NEG_INFINITY || q(b.lower()) - slack.clone() <= inf };
                    if !hi_ok || !lo_ok {
                        return fail(
                            "C16/evaluate-bound/affine-range-not-enclosed",
                            format!(
                                "f = {f:?} over box {ivs:?}: computed bound {b:?} does not reach the exact range [{}, {}] of the affine function",
                                if inf_inf { "-inf".to_string() } else { format!("{:e}", q_to_f64(&inf)) },
                                if sup_inf { "+inf".to_string() } else { format!("{:e}", q_to_f64(&sup)) }
                            ),
                        );
                    }
                }
                // points: corners / faces / interior chosen by the tape (bounded count)
                let raw = raw_terms(&f);
                let npts = 12;
                for _ in 0..npts {
                    let mut st = QState::new();
                    let mut fst = v1::State::default();
                    for id in &ids {
                        let pts = placed_points(ivs[id]);
                        let mut x = *t.pick(&pts);
                        if regime == Regime::Dyadic && ((x * 8.0).fract() != 0.0 || x.abs() > 1024.0) {
                            x = pts[0];
                        }
                        if x.abs() > 1e4 {
                            x = x.signum() * 1e4;
                            let iv = ivs[id];
                            if x < iv.0 || x > iv.1 {
                                x = pts[0];
                            }
                        }
                        st.insert(*id, q(x));
                        fst.entries.insert(*id, x);
                    }
                    let v = p.eval(&st).unwrap();
                    let exact_ok = regime == Regime::Dyadic && eval_is_provably_exact(&raw, &fst);
                    let ok = if exact_ok {
                        contains(&b, &v, 0.0)
                    } else {
                        // tolerance relative to the condition of the evaluation
                        let abs = p.eval_abs(&st).unwrap();
                        let mut rawabs = Q::zero();
                        for (ids_, c) in &raw {
                            let mut tq = q(*c).abs();
                            for id in ids_ {
                                tq *= st[id].abs();
                            }
                            rawabs += tq;
                        }
                        let slack = q(1e-9) * (rawabs + abs + qi(1));
                        let lo_ok = b.lower() == f64::NEG_INFINITY || q(b.lower()) - slack.clone() <= v;
                        let hi_ok = b.upper() == f64::INFINITY || v <= q(b.upper()) + slack;
                        lo_ok && hi_ok
                    };
                    if !ok {
                        return fail(
                            "C16/evaluate-bound/not-enclosed",
                            format!("f = {f:?} over box {ivs:?}: computed bound {b:?} does not contain f({:?}) = {:e}", fst.entries.iter().collect::<BTreeMap<_, _>>(), q_to_f64(&v)),
                        );
                    }
                }
                Ok(())
            }
            2 => {
                ctx.label("mode=integer-bound");
                let big = t.p(48);
                let mut iv = gen_interval(t);
                if big {
                    // finite endpoints of large magnitude (as produced by products and powers of ordinary boxes): beyond
                    // 2^53 every double is an integer, beyond 2^63 it no longer fits a machine integer
                    let m = *t.pick(&[9.007199254740992e15, 9.3e18, 1e19, 1e20, 1.5e300]);
                    match t.choice(3) {
                        0 => iv.1 = m,
                        1 => iv.0 = -m,
                        _ => iv = (-m, m),
                    }
                    ctx.label("integer-bound-huge-endpoint");
                }
                // must contain an integer
                let has_int = if iv.0.is_infinite() || iv.1.is_infinite() { true } else { iv.0.ceil() <= iv.1.floor() };
                if !has_int {
                    ctx.label("integer-bound-skipped-no-integer");
                    return Ok(());
                }
                ctx.fp_dbg(&(iv.0.to_bits(), iv.1.to_bits(), "int"));
                if iv.0.is_infinite() || iv.1.is_infinite() || (iv.0 < 0.0 && iv.1 > 0.0) {
                    ctx.nontrivial();
                }
                ctx.sample_with(|| json!({"mode": "as_integer_bound", "interval": format!("{iv:?}")}));
                let r = mk(iv).as_integer_bound();
                if !valid(&r) {
                    return fail("C16/integer-bound/invalid-interval", format!("as_integer_bound({iv:?}) = {r:?}"));
                }
                for e in [r.lower(), r.upper()] {
                    if e.is_finite() && e.fract() != 0.0 {
                        return fail("C16/integer-bound/non-integer-end", format!("as_integer_bound({iv:?}) = {r:?}"));
                    }
                }
                // every integer of the original is kept: check integers near both ends and around zero
                let mut ks: Vec<f64> = vec![];
                if iv.0.is_finite() {
                    for d in 0..3 {
                        ks.push(iv.0.ceil() + d as f64);
                    }
                }
                if iv.1.is_finite() {
                    for d in 0..3 {
                        ks.push(iv.1.floor() - d as f64);
                    }
                }
                ks.extend([0.0, 1.0, -1.0, 1e9, -1e9, 1e19, -1e19, 9.3e18, -9.3e18]);
                for k in ks {
                    if k >= iv.0 && k <= iv.1 && !(r.lower() <= k && k <= r.upper()) {
                        return fail("C16/integer-bound/integer-lost", format!("integer {k} lies in {iv:?} but not in as_integer_bound = {r:?}"));
                    }
                }
                Ok(())
            }
            _ => {
                ctx.label("mode=content-factor");
                let n = t.choice(9);
                let ids: Vec<u64> = vec![1, 2, 3, 5];
                let mut terms: Vec<(Vec<u64>, (i64, i64))> = vec![];
                let mut seen = std::collections::BTreeSet::new();
                for _ in 0..n {
                    let d = t.choice(4);
                    let mut m: Vec<u64> = (0..d).map(|_| *t.pick(&ids)).collect();
                    m.sort_unstable();
                    if !seen.insert(m.clone()) {
                        continue;
                    }
                    let den = 1 + t.choice(60) as i64;
                    let num = {
                        let k = t.int_around(1, -240, 240);
                        if k == 0 {
                            1
                        } else {
                            k
                        }
                    };
                    let g = gcd(num, den);
                    terms.push((m, (num / g, den / g)));
                }
                let fterms: Vec<(Vec<u64>, f64)> = terms.iter().map(|(m, (p, q_))| (m.clone(), *p as f64 / *q_ as f64)).collect();
                let cfg = FuncCfg { regime: Regime::General, allow_unset: false, allow_dup_quad_pos: false, unnormalised: false, ..FuncCfg::default() };
                let f = render(t, &fterms, &cfg, ctx);
                ctx.fp_msg(&f);
                ctx.fp_str("content");
                if terms.is_empty() {
                    ctx.label("content-zero-function");
                }
                if terms.len() >= 2 {
                    ctx.nontrivial();
                }
                ctx.sample_with(|| json!({"mode": "content_factor", "coefficients": format!("{:?}", terms)}));
                let a = match f.content_factor() {
                    Ok(a) => a,
                    Err(e) => return fail("C16/content-factor/err", format!("content_factor failed ({e:#}) for rational coefficients {terms:?}")),
                };
                // expected: lcm(q_i) / gcd(p_i)
                let mut l: i64 = 1;
                let mut g: i64 = 0;
                for (_, (p, q_)) in &terms {
                    l = l / gcd(l, *q_) * *q_;
                    g = gcd(g, *p);
                }
                let want = if terms.is_empty() { qi(1) } else { qfrac(l, g.max(1)) };
                let rel = (q(a) - want.clone()).abs() / want.clone();
                if !(a > 0.0) || rel > q(1e-12) {
                    return fail("C16/content-factor/not-minimal-multiplier", format!("content_factor = {a}, expected lcm(q)/gcd(p) = {} for coefficients {terms:?}", q_to_f64(&want)));
                }
                for (m, (p, q_)) in &terms {
                    let v = q(a) * q(*p as f64 / *q_ as f64);
                    let r = v.round();
                    if (v.clone() - r.clone()).abs() > q(1e-9) * (r.abs() + qi(1)) {
                        return fail("C16/content-factor/not-integral", format!("a * c = {} is not integral for monomial {m:?}, a = {a}, coefficients {terms:?}", q_to_f64(&v)));
                    }
                }
                Ok(())
            }
        }
    }
}
