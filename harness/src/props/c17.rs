//! C17 MPS files are read as the problem they describe.

use crate::driver::{fail, Ctx, PResult, Property, Tier};
use crate::exact::*;
use crate::gen::mps_text::*;
use crate::model::*;
use crate::tape::Tape;
use num::Signed;
use ommx::v1;
use serde_json::json;
use std::collections::BTreeMap;
use std::io::Write;

pub struct C17;

fn load(text: &str, l: &Layout, case_tag: u64) -> Result<v1::Instance, String> {
    if l.gzip {
        // the gzip member header may carry optional fields (the gzip tool stores the file name and time, others a
        // comment or an extra field)
        let mut b = flate2::GzBuilder::new();
        let opt = (case_tag / 5) % 4;
        if opt & 1 != 0 {
            b = b.filename("model.mps").mtime(1_700_000_000);
        }
        if opt & 2 != 0 {
            b = b.comment("written by a test").extra(vec![1u8, 2, 3, 4]);
        }
        let mut enc = b.write(Vec::new(), flate2::Compression::new(3));
        enc.write_all(text.as_bytes()).unwrap();
        let bytes = enc.finish().unwrap();
        if case_tag % 5 == 0 {
            // through a real file
            let dir = std::path::Path::new("/verif/target/tmp");
            let _ = std::fs::create_dir_all(dir);
            static N: std::sync::atomic::AtomicU64 = std::sync::atomic::AtomicU64::new(0);
            // load_file reads gzip-compressed MPS whatever the file is called (C18 pairs it with write_file under the same names)
            let ext = [".mps.gz", ".mps", "", ".gz", ".MPS"][((case_tag / 20) % 5) as usize];
            let p = dir.join(format!("c17-{}-{}{ext}", std::process::id(), N.fetch_add(1, std::sync::atomic::Ordering::SeqCst)));
            std::fs::write(&p, &bytes).map_err(|e| format!("io: {e}"))?;
            let r = ommx::mps::load_file(&p).map_err(|e| format!("{e}"));
            let _ = std::fs::remove_file(&p);
            r
        } else {
            ommx::mps::load_zipped_reader(bytes.as_slice()).map_err(|e| format!("{e}"))
        }
    } else {
        ommx::mps::load_raw_reader(text.as_bytes()).map_err(|e| format!("{e}"))
    }
}

fn domain_of(v: &v1::DecisionVariable) -> Option<Domain> {
    let (lo, hi) = match &v.bound {
        Some(b) => (b.lower, b.upper),
        None => (f64::NEG_INFINITY, f64::INFINITY),
    };
    if lo.is_nan() || hi.is_nan() {
        return None;
    }
    let conv = |x: f64| if x.is_infinite() { None } else { Some(q(x)) };
    let (mut lo, mut hi) = (conv(lo), conv(hi));
    let integral = match v.kind {
        KIND_BINARY => {
            // binary = integer in [0,1] intersected with the stored bound
            lo = Some(lo.map(|x| x.max(qi(0))).unwrap_or_else(|| qi(0)));
            hi = Some(hi.map(|x| x.min(qi(1))).unwrap_or_else(|| qi(1)));
            true
        }
        KIND_INTEGER => true,
        KIND_CONTINUOUS => false,
        _ => return None,
    };
    Some(Domain { integral, lo, hi })
}

/// integral domains are compared through their integer hull
fn norm(d: &Domain) -> Domain {
    if !d.integral {
        return d.clone();
    }
    Domain { integral: true, lo: d.lo.as_ref().map(|x| x.ceil()), hi: d.hi.as_ref().map(|x| x.floor()) }
}

fn close(a: &Q, b: &Q, exact: bool) -> bool {
    if exact {
        a == b
    } else {
        (a.clone() - b.clone()).abs() <= q(4.0 * f64::EPSILON) * (b.abs() + qi(1))
    }
}

fn poly_close(a: &Poly, b: &Poly, exact: bool) -> bool {
    let keys: std::collections::BTreeSet<&Mono> = a.terms.keys().chain(b.terms.keys()).collect();
    keys.into_iter().all(|k| close(&a.coeff(k), &b.coeff(k), exact))
}

pub fn check_loaded(lp: &Lp, inst: &v1::Instance, what: &dyn Fn() -> String) -> PResult {
    // every number of the file is held as the double nearest to its text, so single numbers compare exactly; only the
    // computed end of a ranged row with decimal numbers (one floating-point addition) gets a tolerance
    let exact = true;
    let _ = all_dyadic(lp);
    // variables by name
    if inst.decision_variables.len() != lp.cols.len() {
        return fail("C17/variable-count", format!("{} decision variables for {} columns: {}", inst.decision_variables.len(), lp.cols.len(), what()));
    }
    let mut id_of_col: BTreeMap<usize, u64> = BTreeMap::new();
    let mut col_of_id: BTreeMap<u64, usize> = BTreeMap::new();
    for (ci, c) in lp.cols.iter().enumerate() {
        let found: Vec<&v1::DecisionVariable> = inst.decision_variables.iter().filter(|v| v.name.as_deref() == Some(c.name.as_str())).collect();
        if found.len() != 1 {
            return fail("C17/variable-name", format!("{} variables carry the column name {:?}: {}", found.len(), c.name, what()));
        }
        let v = found[0];
        if col_of_id.insert(v.id, ci).is_some() {
            return fail("C17/variable-id-repeated", format!("variable id {} used twice: {}", v.id, what()));
        }
        id_of_col.insert(ci, v.id);
        let want = norm(&expected_domain(c));
        let Some(got) = domain_of(v) else {
            return fail("C17/variable-kind", format!("column {:?}: unusable kind/bound {:?}/{:?}: {}", c.name, v.kind, v.bound, what()));
        };
        let got = norm(&got);
        let same = got.integral == want.integral
            && match (&got.lo, &want.lo) {
                (None, None) => true,
                (Some(a), Some(b)) => close(a, b, exact),
                _ => false,
            }
            && match (&got.hi, &want.hi) {
                (None, None) => true,
                (Some(a), Some(b)) => close(a, b, exact),
                _ => false,
            };
        if !same {
            let f = |d: &Domain| format!("{} [{}, {}]", if d.integral { "integer" } else { "real" }, d.lo.as_ref().map(|x| q_to_f64(x).to_string()).unwrap_or("-inf".into()), d.hi.as_ref().map(|x| q_to_f64(x).to_string()).unwrap_or("+inf".into()));
            return fail(
                format!("C17/domain/bound={}{}", bound_keyword(&c.bound), if c.integer { "/integer-marker" } else { "" }),
                format!("column {:?} (bound spec {}, integer marker {}): file describes {} but the instance has kind {} bound {:?} = {}: {}", c.name, bound_keyword(&c.bound), c.integer, f(&want), v.kind, v.bound.as_ref().map(|b| (b.lower, b.upper)), f(&got), what()),
            );
        }
    }
    // sense
    let want_sense = if lp.maximize { SENSE_MAX } else { SENSE_MIN };
    if inst.sense != want_sense {
        return fail("C17/sense", format!("sense {} but the file says {}: {}", inst.sense, if lp.maximize { "MAX" } else { "MIN" }, what()));
    }
    // polynomials over column indices
    let remap = |f: &Option<v1::Function>| -> Option<Poly> {
        let p = Poly::from_opt_function(f);
        let mut r = Poly::zero();
        for (k, c) in &p.terms {
            let mut kk = vec![];
            for id in k {
                kk.push(*col_of_id.get(id)? as u64);
            }
            r.add_term(kk, c.clone());
        }
        Some(r)
    };
    let Some(obj) = remap(&inst.objective) else {
        return fail("C17/objective-unknown-variable", format!("objective uses an id that is no column: {}", what()));
    };
    let want_obj = expected_objective(lp);
    if !poly_close(&obj, &want_obj, exact) {
        let sig = if obj.coeff(&[]) != want_obj.coeff(&[]) && lp.obj_name != "OBJ" { "C17/objective-constant/foreign-objective-name" } else if obj.coeff(&[]) != want_obj.coeff(&[]) { "C17/objective-constant" } else { "C17/objective" };
        return fail(sig, format!("objective is {} but the file describes {} (columns numbered in file order): {}", obj.describe(), want_obj.describe(), what()));
    }
    // constraints: multiset of (equality, polynomial); names
    let want_c = expected_constraints(lp);
    if inst.constraints.len() != want_c.len() {
        return fail("C17/constraint-count", format!("{} constraints, expected {}: {}", inst.constraints.len(), want_c.len(), what()));
    }
    let mut ids = std::collections::BTreeSet::new();
    let mut got_c: Vec<(bool, Poly, Option<String>)> = vec![];
    for c in &inst.constraints {
        if !ids.insert(c.id) {
            return fail("C17/constraint-id-repeated", format!("constraint id {} used twice: {}", c.id, what()));
        }
        let eq = match c.equality {
            EQ_ZERO => true,
            LE_ZERO => false,
            _ => return fail("C17/constraint-equality-unspecified", format!("constraint {:?} has equality {}: {}", c.name, c.equality, what())),
        };
        let Some(p) = remap(&c.function) else {
            return fail("C17/constraint-unknown-variable", format!("constraint {:?} uses an id that is no column: {}", c.name, what()));
        };
        got_c.push((eq, p, c.name.clone()));
    }
    let mut used = vec![false; got_c.len()];
    for (eq, p, row, computed_constant) in &want_c {
        let exact = !*computed_constant;
        // prefer a constraint that carries the row name
        let mut hit = None;
        for pass in 0..2 {
            for (i, g) in got_c.iter().enumerate() {
                if used[i] || g.0 != *eq || !poly_close(&g.1, p, exact) {
                    continue;
                }
                if pass == 0 && g.2.as_deref() != Some(row.as_str()) {
                    continue;
                }
                hit = Some(i);
                break;
            }
            if hit.is_some() {
                break;
            }
        }
        match hit {
            Some(i) => used[i] = true,
            None => {
                let r = lp.rows.iter().find(|r| &r.name == row).unwrap();
                return fail(
                    format!("C17/constraint/row={}{}", r.kind, match &r.range { Some(n) if n.value > qi(0) => "/range+", Some(_) => "/range-", None => "" }),
                    format!("no constraint equal to {} {} 0 for row {:?} (kind {}, rhs {:?}, range {:?}); instance has {:?}: {}", p.describe(), if *eq { "=" } else { "<=" }, row, r.kind, r.rhs.as_ref().map(|n| &n.text), r.range.as_ref().map(|n| &n.text), got_c.iter().map(|g| (g.0, g.1.describe(), g.2.clone())).collect::<Vec<_>>(), what()),
                );
            }
        }
    }
    // every row name is carried by some constraint
    for r in &lp.rows {
        if !got_c.iter().any(|g| g.2.as_deref() == Some(r.name.as_str())) {
            return fail("C17/constraint-name", format!("no constraint carries the row name {:?}: {}", r.name, what()));
        }
    }
    Ok(())
}

const INJECTS: [(Inject, &str); 11] = [
    (Inject::UnknownRowInColumns, "unknown-row-columns"),
    (Inject::UnknownRowInRanges, "unknown-row-ranges"),
    (Inject::BadRowType, "bad-row-type"),
    (Inject::BadBoundType, "bad-bound-type"),
    (Inject::BadMarker, "bad-marker"),
    (Inject::BadSense, "bad-sense"),
    (Inject::BadHeader, "bad-header"),
    (Inject::BadNumberColumns, "bad-number-columns"),
    (Inject::BadNumberRhs, "bad-number-rhs"),
    (Inject::BadNumberRanges, "bad-number-ranges"),
    (Inject::BadNumberBounds, "bad-number-bounds"),
];

impl Property for C17 {
    fn id(&self) -> &'static str {
        "C17"
    }
    fn rule(&self) -> &'static str {
        "case = abstract LP/MIP model (<=6 columns, <=5 rows of types E/L/G, RHS incl. on the objective row, positive/negative RANGES, integer-marker blocks, one bound spec per column out of {none, UP, negative UP, LO, LO+UP, FX, MI, PL, FR, BV, LI, UI, MI+UP}, either sense, objective row named OBJ or differently) rendered by an independent writer in a tape-chosen layout (3/5-field lines, 1-4 leading blanks, tabs, comments, blank lines, OBJSENSE inline / own line / absent, number formats incl. decimals that are not dyadic, explicit zero entries, numeric-looking names, comments that look like content, plain / gzip reader / gzip file, gzip header with optional fields) | one injected error (undeclared row, unknown row/bound/marker/sense keyword, unknown section, unparsable number per section); \
         oracle = the abstract model: matching by name, exact polynomials with every file number expected verbatim (nearest double; one rounding allowed only for the computed end of a ranged row), value domains; non-trivial = >=2 row types and >=2 distinct bound specs, or an error case; distinct = sha256(file text)"
    }
    fn required_labels(&self) -> Vec<String> {
        let mut v: Vec<String> = ["row=E", "row=L", "row=G", "range+@E", "range-@E", "range+@L", "range-@L", "range+@G", "range-@G", "5-field", "objsense-own-line", "objsense-absent", "foreign-objective-name", "obj-constant", "gzip", "tabs", "comments", "integer-marker", "objsense-gap", "row-named-like-range-twin", "numeric-looking-column-name", "numeric-looking-row-name", "explicit-zero-entry", "column-with-only-zero-entries", "comments-that-look-like-content", "gzip-header-with-optional-fields", "gzip-file-not-named-.mps.gz", "ranged-row-with-decimal-numbers", "row-named-MARKER", "row-named-like-a-keyword", "column-named-like-a-keyword", "name-starting-with-a-star", "vector-names-starting-with-a-star"].iter().map(|s| s.to_string()).collect();
        for b in ["none", "UP", "UP-negative", "LO", "LO+UP", "FX", "MI", "PL", "FR", "BV", "LI", "UI", "MI+UP"] {
            v.push(format!("bound={b}"));
        }
        for (_, n) in INJECTS.iter() {
            v.push(format!("error={n}"));
        }
        v
    }
    fn cases(&self, tier: Tier) -> usize {
        match tier {
            Tier::Quick => 150_000,
            Tier::Thorough => 3_000_000,
        }
    }
    fn tape_max(&self) -> usize {
        512
    }
    fn assumptions(&self) -> Vec<String> {
        vec![
            "not generated (no agreed meaning / outside the statement): UP 0 without LO, RHS or RANGES entries for the objective row other than its constant, RANGES value 0, several N rows, tab-indented lines, names starting with the SDK's OMMX_ prefixes, bound lines without a bound-set name".into(),
            "integer domains are compared through their integer hull; binary = integer in [0,1] intersected with the stored bound".into(),
        ]
    }

    fn run(&self, t: &mut Tape, ctx: &mut Ctx) -> PResult {
        let inj = if t.p(48) { Some(t.choice(INJECTS.len())) } else { None };
        let tag = t.u16() as u64;
        let lp = gen_lp(t, ctx);
        let layout = gen_layout(t, &lp, ctx);
        if lp.cols.iter().any(|c| c.integer) {
            ctx.label("integer-marker");
        }
        let inject = inj.map(|i| INJECTS[i].0.clone()).unwrap_or(Inject::None);
        let text = write_mps(&lp, &layout, &inject);
        ctx.fp_str(&text);
        ctx.fp(&[layout.gzip as u8]);
        if layout.gzip && (tag / 5) % 4 != 0 {
            ctx.label("gzip-header-with-optional-fields");
        }
        if layout.gzip && tag % 5 == 0 && (tag / 20) % 5 != 0 {
            ctx.label("gzip-file-not-named-.mps.gz");
        }
        let kinds: std::collections::BTreeSet<char> = lp.rows.iter().map(|r| r.kind).collect();
        let specs: std::collections::BTreeSet<&str> = lp.cols.iter().map(|c| bound_keyword(&c.bound)).collect();
        if (kinds.len() >= 2 && specs.len() >= 2) || inj.is_some() {
            ctx.nontrivial();
        }
        ctx.sample_with(|| json!({"file": text, "gzip": layout.gzip, "injected_error": format!("{:?}", inject)}));
        let what = || format!("file ({}):\n{}", if layout.gzip { "gzip" } else { "plain" }, text);
        let r = load(&text, &layout, tag);
        if let Some(i) = inj {
            ctx.label(format!("error={}", INJECTS[i].1));
            return match r {
                Err(_) => Ok(()),
                Ok(_) => fail(format!("C17/error-accepted/{}", INJECTS[i].1), format!("malformed file was accepted ({}): {}", INJECTS[i].1, what())),
            };
        }
        let inst = match r {
            Ok(i) => i,
            Err(e) => return fail("C17/wellformed-rejected", format!("well-formed file rejected ({e}): {}", what())),
        };
        check_loaded(&lp, &inst, &what)
    }
}
