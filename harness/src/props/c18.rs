//! C18 Writing an instance as MPS and reading it back returns the same problem.

use crate::driver::{fail, Ctx, PResult, Property, Tier};
use crate::exact::*;
use crate::gen::func::*;
use crate::gen::inst::*;
use crate::model::*;
use crate::props::c05::{describe_inst, fp_instance};
use crate::tape::Tape;
use ommx::v1;
use serde_json::json;
use std::collections::{BTreeMap, BTreeSet};
use std::sync::atomic::{AtomicU64, Ordering};

pub struct C18;

static COUNTER: AtomicU64 = AtomicU64::new(0);

#[derive(Clone, Debug, PartialEq)]
struct Dom {
    integral: bool,
    lo: Option<Q>,
    hi: Option<Q>,
}

fn domain(v: &v1::DecisionVariable) -> Option<Dom> {
    let (lo, hi) = match &v.bound {
        Some(b) => (b.lower, b.upper),
        None => {
            if v.kind == KIND_BINARY {
                (0.0, 1.0)
            } else {
                (f64::NEG_INFINITY, f64::INFINITY)
            }
        }
    };
    if lo.is_nan() || hi.is_nan() {
        return None;
    }
    let conv = |x: f64| if x.is_infinite() { None } else { Some(q(x)) };
    let (mut lo, mut hi) = (conv(lo), conv(hi));
    let integral = match v.kind {
        KIND_BINARY => {
            lo = Some(lo.map(|x| x.max(qi(0))).unwrap_or_else(|| qi(0)));
            hi = Some(hi.map(|x| x.min(qi(1))).unwrap_or_else(|| qi(1)));
            true
        }
        KIND_INTEGER => true,
        KIND_CONTINUOUS => false,
        _ => return None,
    };
    if integral {
        lo = lo.map(|x| x.ceil());
        hi = hi.map(|x| x.floor());
    }
    Some(Dom { integral, lo, hi })
}

fn dom_str(d: &Dom) -> String {
    format!("{} [{}, {}]", if d.integral { "integer" } else { "real" }, d.lo.as_ref().map(|x| q_to_f64(x).to_string()).unwrap_or("-inf".into()), d.hi.as_ref().map(|x| q_to_f64(x).to_string()).unwrap_or("+inf".into()))
}

const BIG: [(usize, usize); 5] = [(12, 10), (60, 60), (120, 100), (200, 150), (300, 200)];

impl Property for C18 {
    fn id(&self) -> &'static str {
        "C18"
    }
    fn rule(&self) -> &'static str {
        "case = linear instance (normalised linear functions, constant-only and absent constraint functions; continuous/integer/binary variables; bounds absent, finite, half-infinite, (-inf,inf), negative, fractional, finite of magnitude 1e20..f64::MAX; binary with bound absent/[0,1]/[0,0]/[1,1]; non-contiguous ids; either sense; unused variables; removed constraints present) -> mps::write_file -> mps::load_file | instance with one nonlinear objective/constraint -> must be refused naming the offender | sweep: dense instances up to 120x100 (thorough 300x200) with full-precision coefficients; \
         oracle = the generated instance itself: polynomials by id, equality kinds, id sets, value domains of the variables that occur with non-zero coefficient; non-trivial = >=1 integer or binary variable and >=1 variable without a finite lower bound; distinct = sha256(instance)"
    }
    fn required_labels(&self) -> Vec<String> {
        ["bound-absent", "binary-no-bound", "neg-bound", "constant-only-constraint", "maximize", "nonlinear-objective", "nonlinear-constraint", "noncontiguous-ids", "removed-constraint", "half-infinite", "unused-variable", "integer-variable", "unsorted-terms", "huge-finite-bound", "sweep=big-dense", "multi-line-description", "file-name-without-.mps.gz", "linear-write-after-refused-write-to-the-same-path", "long-title", "long-non-ascii-title"].iter().map(|s| s.to_string()).collect()
    }
    fn cases(&self, tier: Tier) -> usize {
        match tier {
            Tier::Quick => 60_000,
            Tier::Thorough => 1_000_000,
        }
    }
    fn tape_max(&self) -> usize {
        512
    }
    fn assumptions(&self) -> Vec<String> {
        vec![
            "names/metadata and removed constraints are documented as not preserved; linear functions are normalised (each variable once, no explicit zeros); semi-continuous / semi-integer kinds are not generated".into(),
            "temporary files live under /verif/target/tmp and are removed per case".into(),
        ]
    }

    fn sweep_len(&self, tier: Tier) -> usize {
        match tier {
            Tier::Quick => 3,
            Tier::Thorough => BIG.len(),
        }
    }
    fn sweep_description(&self) -> Option<String> {
        Some("dense linear instances of 12x10, 60x60, 120x100 (thorough: also 200x150, 300x200) variables x constraints with full-precision coefficients (files far larger than any internal buffer of the writer / compressor)".into())
    }
    fn sweep_case(&self, _tier: Tier, i: usize, ctx: &mut Ctx) -> PResult {
        let (nv, nc) = BIG[i];
        ctx.label("sweep=big-dense");
        ctx.nontrivial();
        ctx.fp_dbg(&("big", nv, nc));
        ctx.sample_with(|| json!({"sweep": "dense linear instance", "variables": nv, "constraints": nc}));
        let coef = |a: u64, b: u64| -> f64 {
            use sha2::{Digest, Sha256};
            let mut h = Sha256::new();
            h.update(a.to_le_bytes());
            h.update(b.to_le_bytes());
            let d = h.finalize();
            let x = u64::from_le_bytes(d[..8].try_into().unwrap());
            ((x as f64) / 18446744073709551616.0 - 0.5) * 2000.0
        };
        let mut inst = v1::Instance::default();
        inst.sense = if i % 2 == 1 { SENSE_MAX } else { SENSE_MIN };
        let ids: Vec<u64> = (0..nv as u64).map(|k| 3 * k + 2).collect();
        for (k, id) in ids.iter().enumerate() {
            let mut v = v1::DecisionVariable::default();
            v.id = *id;
            v.kind = [KIND_CONTINUOUS, KIND_INTEGER, KIND_BINARY, KIND_CONTINUOUS, KIND_INTEGER][k % 5];
            v.bound = match (v.kind, k % 7) {
                (KIND_BINARY, 0 | 1 | 2) => None,
                (KIND_BINARY, _) => Some(crate::mk::bound(0.0, 1.0)),
                (_, 0) => None,
                (_, 1) => Some(crate::mk::bound(-3.25, 7.5)),
                (_, 2) => Some(crate::mk::bound(0.0, f64::INFINITY)),
                (_, 3) => Some(crate::mk::bound(f64::NEG_INFINITY, 4.0)),
                (_, 4) => Some(crate::mk::bound(-1e6, -2.0)),
                (_, 5) => Some(crate::mk::bound(f64::NEG_INFINITY, f64::INFINITY)),
                _ => Some(crate::mk::bound(coef(k as u64, 7777), coef(k as u64, 7777) + 10.0)),
            };
            inst.decision_variables.push(v);
        }
        let row = |r: u64| crate::mk::flin(crate::mk::linear(ids.iter().map(|id| (*id, coef(r, *id))).collect(), coef(r, 999_999)));
        inst.objective = Some(row(u64::MAX));
        for j in 0..nc as u64 {
            let mut c = v1::Constraint::default();
            c.id = 2 * j + 1;
            c.equality = if j % 3 == 0 { EQ_ZERO } else { LE_ZERO };
            c.function = Some(row(j));
            inst.constraints.push(c);
        }
        let used: BTreeSet<u64> = ids.iter().copied().collect();
        check_roundtrip(&inst, &used, false, i as u8, None)
    }

    fn run(&self, t: &mut Tape, ctx: &mut Ctx) -> PResult {
        let regime = if t.coin() { Regime::General } else { Regime::Dyadic };
        let nonlinear = if t.p(40) { 1 + t.choice(2) } else { 0 };
        let huge = if t.p(40) { 1 + t.choice(3) } else { 0 };
        let mut cfg = InstCfg::new(regime);
        cfg.allow_deps = false;
        cfg.allow_fixed = false;
        cfg.func = FuncCfg { regime, allow_unset: false, unnormalised: false, allow_zero_coeff: false, max_degree: 1, max_terms: 5, ..FuncCfg::default() };
        cfg.metadata = false;
        let shuffle_seed: Vec<u8> = (0..8).map(|_| t.byte()).collect();
        let gi = gen_instance(t, &cfg, ctx);
        let mut inst = gi.inst.clone();
        // each variable occurs once per function, but the order of the terms in the message is arbitrary
        // (the MPS reader itself returns terms in hash-map order)
        {
            use v1::function::Function as F;
            let mut tp = Tape::new(&shuffle_seed);
            let mut unsorted = false;
            for f in inst.objective.iter_mut().chain(inst.constraints.iter_mut().filter_map(|c| c.function.as_mut())) {
                if let Some(F::Linear(l)) = &mut f.function {
                    tp.shuffle(&mut l.terms);
                    if l.terms.windows(2).any(|w| w[0].id > w[1].id) {
                        unsorted = true;
                    }
                }
            }
            if unsorted {
                ctx.label("unsorted-terms");
            }
        }
        // free-text metadata (not preserved by the format, but it must not disturb the file either)
        if huge == 0 && shuffle_seed[0] % 4 == 0 {
            let mut d = v1::instance::Description::default();
            // short names, and long titles (60..200 bytes) in which multi-byte characters straddle every byte offset
            d.name = Some(match shuffle_seed[1] as usize % 7 {
                0 => "knapsack".to_string(),
                1 => "two words".to_string(),
                2 => "NAME".to_string(),
                3 => "ROWS".to_string(),
                4 => "生産計画と在庫管理の最適化問題（多期間・多品目・多拠点モデル）その二".to_string(),
                5 => format!("{}-région-Île-de-France-été-{}", "a".repeat(40 + shuffle_seed[3] as usize % 30), "é".repeat(30)),
                _ => "x".repeat(64 + shuffle_seed[3] as usize % 140),
            });
            if d.name.as_ref().map(|n| n.len() > 64).unwrap_or(false) {
                ctx.label("long-title");
                if !d.name.as_ref().unwrap().is_ascii() {
                    ctx.label("long-non-ascii-title");
                }
            }
            d.description = Some(["one line", "first line\nsecond line", "* starts like a comment\nENDATA", "ends with a newline\n", ""][shuffle_seed[2] as usize % 5].to_string());
            d.authors = vec!["A B".into()];
            if d.description.as_deref().map(|x| x.contains('\n')).unwrap_or(false) {
                ctx.label("multi-line-description");
            }
            inst.description = Some(d);
            for v in inst.decision_variables.iter_mut().take(2) {
                v.name = Some("x y\tz".into());
                v.description = Some("RHS\nBOUNDS".into());
            }
            for c in inst.constraints.iter_mut().take(1) {
                c.name = Some("N OBJ".into());
                c.description = Some("a\nb".into());
            }
        }
        // a finite bound of very large magnitude is still a finite bound
        if huge != 0 {
            let m = *t.pick(&[1e20, 1e30, 1e35, f64::MAX]);
            for v in inst.decision_variables.iter_mut().filter(|v| v.kind != KIND_BINARY && gi.used_pool.contains(&v.id)).take(1) {
                let (lo, hi) = v.bound.as_ref().map(|b| (b.lower, b.upper)).unwrap_or((f64::NEG_INFINITY, f64::INFINITY));
                v.bound = Some(match huge {
                    1 => crate::mk::bound(if lo.is_finite() { lo } else { -3.0 }, m),
                    2 => crate::mk::bound(-m, if hi.is_finite() { hi } else { 5.0 }),
                    _ => crate::mk::bound(-m, m),
                });
                ctx.label("huge-finite-bound");
            }
        }
        // ids of constraints fit into u64 text; ensure sense is valid
        if inst.sense == SENSE_MAX {
            ctx.label("maximize");
        }
        let mut nl_target: Option<u64> = None;
        match nonlinear {
            1 => {
                let id = gi.used_pool[0];
                inst.objective = Some(crate::mk::fquad({
                    let mut qd = v1::Quadratic::default();
                    qd.rows = vec![id];
                    qd.columns = vec![id];
                    qd.values = vec![2.0];
                    qd.linear = Some(crate::mk::linear(vec![(id, 1.0)], 0.5));
                    qd
                }));
                ctx.label("nonlinear-objective");
            }
            2 => {
                if let Some(c) = inst.constraints.last_mut() {
                    let id = gi.used_pool[0];
                    c.function = Some(crate::mk::fpoly(crate::mk::polynomial(vec![(vec![id, id, id], 1.5), (vec![id], 1.0)])));
                    nl_target = Some(c.id);
                    ctx.label("nonlinear-constraint");
                }
            }
            _ => {}
        }
        // labels
        let used: BTreeSet<u64> = {
            let mut s = BTreeSet::new();
            for f in inst.objective.iter().chain(inst.constraints.iter().filter_map(|c| c.function.as_ref())) {
                for (ids, c) in raw_terms(f) {
                    if c != 0.0 {
                        s.extend(ids);
                    }
                }
            }
            s
        };
        let mut nt_int = false;
        let mut nt_nolower = false;
        for v in &inst.decision_variables {
            if !used.contains(&v.id) {
                ctx.label("unused-variable");
                continue;
            }
            if v.kind == KIND_INTEGER {
                ctx.label("integer-variable");
            }
            if v.kind != KIND_CONTINUOUS {
                nt_int = true;
            }
            match &v.bound {
                None => {
                    ctx.label(if v.kind == KIND_BINARY { "binary-no-bound" } else { "bound-absent" });
                    if v.kind != KIND_BINARY {
                        nt_nolower = true;
                    }
                }
                Some(b) => {
                    if b.lower < 0.0 || b.upper < 0.0 {
                        ctx.label("neg-bound");
                    }
                    if b.lower.is_infinite() != b.upper.is_infinite() {
                        ctx.label("half-infinite");
                    }
                    if b.lower.is_infinite() {
                        nt_nolower = true;
                    }
                }
            }
        }
        if inst.constraints.iter().any(|c| c.function.as_ref().map(|f| syntactic_ids(f).is_empty()).unwrap_or(true)) {
            ctx.label("constant-only-constraint");
        }
        if inst.constraints.windows(2).any(|w| w[0].id.wrapping_add(1) != w[1].id) {
            ctx.label("noncontiguous-ids");
        }
        if nt_int && nt_nolower {
            ctx.nontrivial();
        }
        if nonlinear != 0 {
            ctx.nontrivial();
        }
        fp_instance(ctx, &inst);
        ctx.sample_with(|| json!({"instance": describe_inst(&inst), "nonlinear_case": nonlinear}));
        let what = || format!("instance {}", describe_inst(&inst));

        let is_nl_obj = nonlinear == 1;
        let is_nl_con = nonlinear == 2 && nl_target.is_some();
        if !(is_nl_obj || is_nl_con) {
            if shuffle_seed[3] % 6 != 0 {
                ctx.label("file-name-without-.mps.gz");
            }
            return check_roundtrip(&inst, &used, true, shuffle_seed[3], None);
        }
        let dir = std::path::Path::new("/verif/target/tmp");
        let _ = std::fs::create_dir_all(dir);
        let path = dir.join(format!("c18-{}-{}.mps.gz", std::process::id(), COUNTER.fetch_add(1, Ordering::SeqCst)));
        let w = ommx::mps::write_file(&inst, &path);
        let refusal: PResult = {
            match w {
                Ok(()) => fail(if is_nl_obj { "C18/nonlinear-objective-accepted" } else { "C18/nonlinear-constraint-accepted" }, format!("write_file accepted a nonlinear instance: {}", what())),
                Err(e) => {
                    use ommx::mps::MpsWriteError as E;
                    match (&e, is_nl_obj) {
                        (E::InvalidObjectiveType { .. }, true) => Ok(()),
                        (E::InvalidConstraintType { name, .. }, false) => {
                            let id = nl_target.unwrap();
                            if name.ends_with(&format!("_{id}")) || name.ends_with(&id.to_string()) {
                                Ok(())
                            } else {
                                fail("C18/nonlinear-error-names-wrong-constraint", format!("error names {name:?}, offending constraint id is {id}: {}", what()))
                            }
                        }
                        _ => fail("C18/nonlinear-wrong-error-kind", format!("error {e} does not name the offender ({}): {}", if is_nl_obj { "objective" } else { "constraint" }, what())),
                    }
                }
            }
        };
        if refusal.is_err() || shuffle_seed[4] % 2 == 0 {
            let _ = std::fs::remove_file(&path);
            return refusal;
        }
        // the refused attempt must not stand in the way of the next, legitimate write to the same path
        ctx.label("linear-write-after-refused-write-to-the-same-path");
        let lin = gi.inst.clone();
        let mut used_lin = BTreeSet::new();
        for f in lin.objective.iter().chain(lin.constraints.iter().filter_map(|c| c.function.as_ref())) {
            for (ids, c) in raw_terms(f) {
                if c != 0.0 {
                    used_lin.extend(ids);
                }
            }
        }
        check_roundtrip(&lin, &used_lin, true, 0, Some(path))
    }
}

/// write `inst` as MPS, load it back, compare (`show_text`: include the written file in a failure report)
fn check_roundtrip(inst: &v1::Instance, used: &BTreeSet<u64>, show_text: bool, style: u8, at: Option<std::path::PathBuf>) -> PResult {
    {
        let what = || if show_text { format!("instance {}", describe_inst(inst)) } else { format!("instance with {} variables, {} constraints", inst.decision_variables.len(), inst.constraints.len()) };
        let dir = std::path::Path::new("/verif/target/tmp");
        let _ = std::fs::create_dir_all(dir);
        // write_file and load_file belong together whatever the file is called
        let ext = [".mps.gz", ".mps", "", ".gz", ".MPS", ".txt"][style as usize % 6];
        let path = at.unwrap_or_else(|| dir.join(format!("c18-{}-{}{ext}", std::process::id(), COUNTER.fetch_add(1, Ordering::SeqCst))));
        let w = ommx::mps::write_file(inst, &path);
        if let Err(e) = w {
            let _ = std::fs::remove_file(&path);
            return fail("C18/write-err", format!("write_file failed ({e}) for a linear instance: {}", what()));
        }
        let text = {
            // keep the file text for the report
            use std::io::Read;
            let mut s = String::new();
            if let Ok(f) = std::fs::File::open(&path) {
                let _ = flate2::read::GzDecoder::new(f).read_to_string(&mut s);
            }
            if !show_text && s.len() > 2000 {
                s.truncate(2000);
                s.push_str("\n[... truncated]");
            }
            s
        };
        let r = ommx::mps::load_file(&path);
        let _ = std::fs::remove_file(&path);
        let back = match r {
            Ok(i) => i,
            Err(e) => return fail("C18/load-err", format!("load_file failed ({e}) on the SDK's own output:\n{text}\n{}", what())),
        };
        let what2 = || format!("{}\n written file:\n{text}", what());
        if back.sense != inst.sense {
            return fail("C18/sense", format!("sense {} -> {}: {}", inst.sense, back.sense, what2()));
        }
        let o1 = Poly::from_opt_function(&inst.objective);
        let o2 = Poly::from_opt_function(&back.objective);
        if o1 != o2 {
            return fail("C18/objective", format!("objective {} -> {}: {}", o1.describe(), o2.describe(), what2()));
        }
        let ids1: BTreeSet<u64> = inst.constraints.iter().map(|c| c.id).collect();
        let ids2: BTreeSet<u64> = back.constraints.iter().map(|c| c.id).collect();
        if ids1 != ids2 || back.constraints.len() != inst.constraints.len() {
            return fail("C18/constraint-ids", format!("constraint ids {ids1:?} -> {ids2:?}: {}", what2()));
        }
        for c in &inst.constraints {
            let b = back.constraints.iter().find(|x| x.id == c.id).unwrap();
            if b.equality != c.equality {
                return fail("C18/constraint-equality", format!("constraint {} equality {} -> {}: {}", c.id, c.equality, b.equality, what2()));
            }
            let p1 = Poly::from_opt_function(&c.function);
            let p2 = Poly::from_opt_function(&b.function);
            if p1 != p2 {
                return fail("C18/constraint-function", format!("constraint {}: {} -> {}: {}", c.id, p1.describe(), p2.describe(), what2()));
            }
        }
        let back_vars: BTreeMap<u64, &v1::DecisionVariable> = back.decision_variables.iter().map(|v| (v.id, v)).collect();
        for v in &inst.decision_variables {
            if !used.contains(&v.id) {
                continue;
            }
            let Some(b) = back_vars.get(&v.id) else {
                return fail("C18/variable-lost", format!("variable {} (used with a non-zero coefficient) is missing after the round trip: {}", v.id, what2()));
            };
            let (Some(d1), Some(d2)) = (domain(v), domain(b)) else {
                return fail("C18/variable-kind", format!("variable {} has an unusable kind/bound after the round trip: {:?}: {}", v.id, b, what2()));
            };
            if d1 != d2 {
                let facet = match (&v.bound, v.kind) {
                    (None, KIND_BINARY) => "binary-bound-absent",
                    (None, _) => "bound-absent",
                    _ => "bound-present",
                };
                return fail(
                    format!("C18/domain/{facet}"),
                    format!("variable {} (kind {}, bound {:?}): value domain {} became {} (kind {}, bound {:?}): {}", v.id, v.kind, v.bound.as_ref().map(|b| (b.lower, b.upper)), dom_str(&d1), dom_str(&d2), b.kind, b.bound.as_ref().map(|b| (b.lower, b.upper)), what2()),
                );
            }
        }
        Ok(())
    }
}
