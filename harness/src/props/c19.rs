//! C19 QPLIB files are read as the problem they describe.

use crate::driver::{fail, Ctx, PResult, Property, Tier};
use crate::exact::*;
use crate::gen::qplib_text::*;
use crate::model::*;
use crate::tape::Tape;
use ommx::v1;
use serde_json::json;
use std::collections::BTreeMap;
use std::sync::atomic::{AtomicU64, Ordering};

pub struct C19;

static COUNTER: AtomicU64 = AtomicU64::new(0);

fn load_text(text: &str) -> Result<v1::Instance, String> {
    let dir = std::path::Path::new("/verif/target/tmp");
    let _ = std::fs::create_dir_all(dir);
    let p = dir.join(format!("c19-{}-{}.qplib", std::process::id(), COUNTER.fetch_add(1, Ordering::SeqCst)));
    std::fs::write(&p, text).map_err(|e| format!("io: {e}"))?;
    // Display (with causes), and when that does not carry a line number the Debug rendering of each error of the chain
    // (cheap, unlike anyhow's own Debug): the statement asks for errors "carrying the line number", not for a wording
    let r = ommx::qplib::load_file(&p).map_err(|e| {
        let d = format!("{e:#}");
        if d.to_lowercase().contains("line") {
            d
        } else {
            format!("{d} || {}", e.chain().map(|c| format!("{c:?}")).collect::<Vec<_>>().join(" | "))
        }
    });
    let _ = std::fs::remove_file(&p);
    r
}

/// Does the rendered error carry line number `line`? Accepted: the word "line" (any case, also `line_num`,
/// `line no.`, `line:` ...) followed within a few non-digit characters by exactly that number.
fn carries_line(e: &str, line: usize) -> bool {
    let low = e.to_lowercase();
    let b = low.as_bytes();
    let mut i = 0;
    while let Some(pos) = low[i..].find("line") {
        let mut j = i + pos + 4;
        let mut skipped = 0;
        while j < b.len() && !b[j].is_ascii_digit() && skipped < 12 && b[j] != b'\n' {
            j += 1;
            skipped += 1;
        }
        let start = j;
        while j < b.len() && b[j].is_ascii_digit() {
            j += 1;
        }
        if j > start && low[start..j].parse::<usize>().ok() == Some(line) {
            return true;
        }
        i = i + pos + 4;
    }
    false
}

fn code_name(code: usize) -> String {
    [OBJ_KINDS[code / 30], VAR_KINDS[(code / 6) % 5], CON_KINDS[code % 6]].iter().collect()
}

fn check_loaded(qp: &Qp, inst: &v1::Instance, what: &dyn Fn() -> String) -> PResult {
    // variables
    if inst.decision_variables.len() != qp.n {
        return fail("C19/variable-count", format!("{} variables, file declares {}: {}", inst.decision_variables.len(), qp.n, what()));
    }
    let ev = expected_vars(qp);
    // The statement does not fix an id scheme: the k-th variable of the file is matched with the variable of k-th
    // smallest id (the SDK uses the 0-based index today; a 1-based or gapped numbering would be as good). Ids must be distinct.
    let mut sorted_ids: Vec<u64> = inst.decision_variables.iter().map(|v| v.id).collect();
    sorted_ids.sort_unstable();
    if sorted_ids.windows(2).any(|w| w[0] == w[1]) {
        return fail("C19/variable-id", format!("variable ids are not distinct: {sorted_ids:?}: {}", what()));
    }
    let rank: BTreeMap<u64, u64> = sorted_ids.iter().enumerate().map(|(k, id)| (*id, k as u64)).collect();
    let by_rank = |f: &Option<v1::Function>| -> Result<Poly, u64> {
        let p = Poly::from_opt_function(f);
        let mut out = Poly::zero();
        for (ids, c) in &p.terms {
            let mut m = vec![];
            for id in ids {
                m.push(*rank.get(id).ok_or(*id)?);
            }
            out.add_term(m, c.clone());
        }
        Ok(out)
    };
    for (i, (ty, lo, hi)) in ev.iter().enumerate() {
        let v = inst.decision_variables.iter().find(|v| v.id == sorted_ids[i]).unwrap();
        let (blo, bhi) = match &v.bound {
            Some(b) => (b.lower, b.upper),
            None => (f64::NEG_INFINITY, f64::INFINITY),
        };
        let conv = |x: f64| if x.is_infinite() { None } else { Some(q(x)) };
        let (mut glo, mut ghi) = (conv(blo), conv(bhi));
        let gint = match v.kind {
            KIND_BINARY => {
                glo = Some(glo.map(|x| x.max(qi(0))).unwrap_or_else(|| qi(0)));
                ghi = Some(ghi.map(|x| x.min(qi(1))).unwrap_or_else(|| qi(1)));
                true
            }
            KIND_INTEGER => true,
            KIND_CONTINUOUS => false,
            _ => return fail("C19/variable-kind", format!("variable {i} has kind {}: {}", v.kind, what())),
        };
        let (mut wlo, mut whi) = (lo.clone(), hi.clone());
        let wint = *ty != 0;
        if *ty == 2 {
            wlo = Some(wlo.map(|x| x.max(qi(0))).unwrap_or_else(|| qi(0)));
            whi = Some(whi.map(|x| x.min(qi(1))).unwrap_or_else(|| qi(1)));
        }
        let hull = |int: bool, lo: Option<Q>, hi: Option<Q>| if int { (lo.map(|x| x.ceil()), hi.map(|x| x.floor())) } else { (lo, hi) };
        let (glo, ghi) = hull(gint, glo, ghi);
        let (wlo, whi) = hull(wint, wlo, whi);
        if gint != wint || glo != wlo || ghi != whi {
            return fail(
                format!("C19/variable-domain/type={ty}"),
                format!("variable {i}: file declares type {ty} bounds [{:?}, {:?}], instance has kind {} bound ({blo}, {bhi}): {}", lo.as_ref().map(q_to_f64), hi.as_ref().map(q_to_f64), v.kind, what()),
            );
        }
        let want_name = qp.var_names.iter().find(|x| x.0 == i).map(|x| x.1.clone());
        if v.name != want_name {
            return fail("C19/variable-name", format!("variable {i} has name {:?}, file says {:?}: {}", v.name, want_name, what()));
        }
    }
    let want_sense = if qp.maximize { SENSE_MAX } else { SENSE_MIN };
    if inst.sense != want_sense {
        return fail("C19/sense", format!("sense {} but the file says {}: {}", inst.sense, if qp.maximize { "maximize" } else { "minimize" }, what()));
    }
    let obj = match by_rank(&inst.objective) {
        Ok(p) => p,
        Err(id) => return fail("C19/undefined-variable-used", format!("the objective uses id {id}, which is no decision variable: {}", what())),
    };
    let want = expected_objective(qp);
    if obj != want {
        // facet: diagonal entries
        let mut diag_only = true;
        let keys: std::collections::BTreeSet<&Mono> = obj.terms.keys().chain(want.terms.keys()).collect();
        for k in keys {
            if obj.coeff(k) != want.coeff(k) && !(k.len() == 2 && k[0] == k[1]) {
                diag_only = false;
            }
        }
        return fail(
            if diag_only { "C19/objective/diagonal-entries" } else { "C19/objective" },
            format!("objective is {} but 1/2 x'Q0 x + b0'x + q0 = {}: {}", obj.describe(), want.describe(), what()),
        );
    }
    // constraints: multiset of polynomials, all <= 0, ids distinct
    let want_c = expected_constraints(qp);
    let mut ids = std::collections::BTreeSet::new();
    let mut got: Vec<Poly> = vec![];
    for c in &inst.constraints {
        if !ids.insert(c.id) {
            return fail("C19/constraint-id-repeated", format!("constraint id {} used twice: {}", c.id, what()));
        }
        if c.equality != LE_ZERO {
            return fail("C19/constraint-equality", format!("constraint {} is not a <= 0 constraint: {}", c.id, what()));
        }
        got.push(match by_rank(&c.function) {
            Ok(p) => p,
            Err(id) => return fail("C19/undefined-variable-used", format!("constraint {} uses id {id}, which is no decision variable: {}", c.id, what())),
        });
    }
    if got.len() != want_c.len() {
        return fail("C19/constraint-count", format!("{} constraints, expected {} (one per finite side): got {:?}, expected {:?}: {}", got.len(), want_c.len(), got.iter().map(|p| p.describe()).collect::<Vec<_>>(), want_c.iter().map(|p| p.describe()).collect::<Vec<_>>(), what()));
    }
    let mut used = vec![false; got.len()];
    for w in &want_c {
        match (0..got.len()).find(|i| !used[*i] && &got[*i] == w) {
            Some(i) => used[i] = true,
            None => {
                // facet: only diagonal coefficients differ from some candidate?
                let diag = got.iter().enumerate().any(|(i, g)| {
                    !used[i] && {
                        let keys: std::collections::BTreeSet<&Mono> = g.terms.keys().chain(w.terms.keys()).collect();
                        keys.into_iter().all(|k| g.coeff(k) == w.coeff(k) || (k.len() == 2 && k[0] == k[1]))
                    }
                });
                return fail(
                    if diag { "C19/constraint/diagonal-entries" } else { "C19/constraint" },
                    format!("no constraint equal to {} <= 0; instance has {:?}: {}", w.describe(), got.iter().map(|p| p.describe()).collect::<Vec<_>>(), what()),
                );
            }
        }
    }
    Ok(())
}

fn run_case(t: &mut Tape, code: usize, ctx: &mut Ctx) -> PResult {
    let err_mode = if t.p(56) { 1 + t.choice(3) } else { 0 }; // 1 token garbage, 2 type/sense, 3 truncation sweep
    let style = t.byte();
    let pick = t.u16();
    let crlf = t.p(56);
    ctx.label(format!("code={}", code_name(code)));
    let qp = gen_qp(t, code, ctx);
    let (comments, blanks, trailing) = (style & 1 == 1, style & 2 == 2, style & 4 == 4);
    if comments {
        ctx.label("comments");
    }
    if trailing {
        ctx.label("trailing-text");
    }
    // DOS line endings: the same lines, the same line numbers
    let eol = |w: Written| -> Written { if crlf { Written { text: w.text.replace('\n', "\r\n"), ..w } } else { w } };
    if crlf {
        ctx.label("crlf-line-endings");
    }
    if (style >> 3) & 16 != 0 {
        ctx.label("tab-separated-entries");
    }
    if qp.cons.iter().any(|c| [&c.lower, &c.upper].iter().any(|s| matches!(s, Some(Side::Finite(v)) if v.text.contains('.') && !v.text.ends_with(".5") && !v.text.ends_with(".25") && !v.text.ends_with(".75")))) {
        ctx.label("decimal-constraint-sides");
    }
    let clean = eol(write_qplib(&qp, comments, blanks, trailing, style >> 3, &QInject::None));
    ctx.fp_str(&clean.text);
    ctx.fp(&[err_mode as u8]);
    ctx.fp(&pick.to_le_bytes());
    let has_diag = qp.q0.iter().any(|e| e.0 == e.1) || qp.cons.iter().any(|c| c.q.iter().any(|e| e.0 == e.1));
    let has_off = qp.q0.iter().any(|e| e.0 != e.1) || qp.cons.iter().any(|c| c.q.iter().any(|e| e.0 != e.1));
    let both_sides = qp.cons.iter().any(|c| {
        let up = c.upper.as_ref().unwrap_or(&qp.cu_default);
        let lo = c.lower.as_ref().unwrap_or(&qp.cl_default);
        matches!(up, Side::Finite(_)) && matches!(lo, Side::Finite(_))
    });
    let inf_side = qp.cons.iter().any(|c| {
        let up = c.upper.as_ref().unwrap_or(&qp.cu_default);
        let lo = c.lower.as_ref().unwrap_or(&qp.cl_default);
        !matches!(up, Side::Finite(_)) || !matches!(lo, Side::Finite(_))
    });
    if both_sides {
        ctx.label("both-sides");
    }
    if inf_side {
        ctx.label("infinite-side");
    }
    if has_diag {
        ctx.label("diagonal-entry");
    }
    if (has_diag && has_off) || both_sides || err_mode != 0 {
        ctx.nontrivial();
    }
    ctx.sample_with(|| json!({"file": clean.text, "error_mode": err_mode}));
    match err_mode {
        0 => {
            let what = || format!("file:\n{}", clean.text);
            let inst = match load_text(&clean.text) {
                Ok(i) => i,
                Err(e) => return fail("C19/wellformed-rejected", format!("well-formed file rejected ({e}): {}", what())),
            };
            check_loaded(&qp, &inst, &what)
        }
        1 | 2 => {
            let (inject, class) = if err_mode == 2 {
                match pick % 3 {
                    0 => (QInject::TypeWrongLetter, "type-wrong-letter".to_string()),
                    1 => (QInject::TypeTooShort, "type-too-short".to_string()),
                    _ => (QInject::BadSense, "bad-sense".to_string()),
                }
            } else {
                let cands: Vec<&(String, usize)> = clean.tokens.iter().filter(|t| !t.0.starts_with("vname-entry") && !t.0.starts_with("cname-entry") && t.0 != "type" && t.0 != "sense").collect();
                let tk = cands[(pick as usize * cands.len()) >> 16];
                let class = tk.0.split("-entry").next().unwrap().to_string() + if tk.0.contains("-entry") { "-entry" } else { "" };
                (QInject::Token(tk.0.clone()), format!("bad-{class}"))
            };
            ctx.label(format!("error={class}"));
            let bad = eol(write_qplib(&qp, comments, blanks, trailing, style >> 3, &inject));
            let tok = match &inject {
                QInject::Token(id) => id.clone(),
                QInject::BadSense => "sense".to_string(),
                _ => "type".to_string(),
            };
            let line = bad.tokens.iter().find(|t| t.0 == tok).map(|t| t.1).unwrap();
            let what = || format!("file with injected error {class} at line {line}:\n{}", bad.text);
            match load_text(&bad.text) {
                Ok(_) => fail(format!("C19/error-accepted/{class}"), format!("malformed file accepted: {}", what())),
                Err(e) => {
                    if !carries_line(&e, line) {
                        return fail(format!("C19/error-line/{class}"), format!("error {e:?} does not carry line number {line}: {}", what()));
                    }
                    Ok(())
                }
            }
        }
        _ => {
            ctx.label("error=truncation");
            // premature end of file after every line
            let lines: Vec<&str> = clean.text.lines().collect();
            for k in 1..lines.len() {
                let nl = if crlf { "\r\n" } else { "\n" };
                let mut trunc = lines[..k].join(nl);
                trunc.push_str(nl);
                match load_text(&trunc) {
                    Ok(_) => return fail("C19/truncation-accepted", format!("file truncated after line {k} of {} was accepted:\n{trunc}", lines.len())),
                    Err(e) => {
                        if !carries_line(&e, k) {
                            return fail("C19/truncation-line", format!("file truncated after line {k}: error {e:?} does not carry line number {k}:\n{trunc}"));
                        }
                    }
                }
            }
            Ok(())
        }
    }
}

impl Property for C19 {
    fn id(&self) -> &'static str {
        "C19"
    }
    fn rule(&self) -> &'static str {
        "sweep = each of the 4x5x6 = 120 problem-type codes x 3 fixed contents; random = code chosen by the tape x abstract QP (<=5 variables, <=4 constraints, lower-triangle Q entries incl. diagonal, default and non-default b0 incl. explicit 0, constant, two-sided constraints with finite / at-threshold / beyond-threshold sides, bounds likewise, variable types for M and G, names incl. exponent-like fragments, decimal sides, matrices scaled by 2^-60 / 2^40) rendered by an independent writer (comments !/#/% also between entry lines, blank lines, trailing text, capitalisation, TAB-separated entries, CRLF) | one injected error (garbage in any numeric token, bad type code, bad sense) or truncation after every line; \
         oracle = the abstract model, error location = physical line recorded by the writer; non-trivial = diagonal and off-diagonal entries together, or a constraint with two finite sides, or an error case; distinct = sha256(file text, mode)"
    }
    fn required_labels(&self) -> Vec<String> {
        let mut v: Vec<String> = (0..120).map(|c| format!("code={}", code_name(c))).collect();
        v.extend(["default-b0!=0", "infinite-side", "both-sides", "names", "diagonal-entry", "error=truncation", "error=type-wrong-letter", "error=type-too-short", "error=bad-sense", "error=bad-n", "error=bad-q0-entry", "error=bad-infinity", "error=bad-cl-entry", "error=bad-type-entry", "comments", "trailing-text", "integer-01-bounds", "matrix-entries-below-epsilon", "crlf-line-endings", "name-with-exponent-like-fragment", "tab-separated-entries", "decimal-constraint-sides", "name-starting-like-a-number-with-d-inside", "non-default-starting-point-entries", "starting-multiplier-for-a-constraint-index-beyond-the-variables", "constraints-but-no-linear-constraint-term", "name-with-a-remark-character", "name-is-x-plus-own-position"].iter().map(|s| s.to_string()));
        v
    }
    fn cases(&self, tier: Tier) -> usize {
        match tier {
            Tier::Quick => 80_000,
            Tier::Thorough => 1_000_000,
        }
    }
    fn tape_max(&self) -> usize {
        512
    }
    fn assumptions(&self) -> Vec<String> {
        vec![
            "not generated (no documented expectation): several blanks between the fields of entry lines, leading blanks on entry lines, index 0 / out-of-range indices, counts larger than the entries present, upper-triangle entries, lower sides at +threshold".into(),
            "files are loaded through qplib::load_file from temporary files under /verif/target/tmp".into(),
        ]
    }
    fn sweep_len(&self, _tier: Tier) -> usize {
        360
    }
    fn sweep_description(&self) -> Option<String> {
        Some("all 120 problem-type codes (objective L/D/C/Q x variables C/B/M/I/G x constraints N/B/L/D/C/Q) x 3 fixed pseudo-random contents each".into())
    }
    fn sweep_case(&self, _tier: Tier, i: usize, ctx: &mut Ctx) -> PResult {
        let code = i % 120;
        // fixed content per index (deterministic byte sequence, independent of the seed)
        let mut x: u64 = 0x9E3779B97F4A7C15u64.wrapping_mul(i as u64 + 1);
        let mut bytes = vec![0u8; 2]; // err_mode draw: p(56) false
        for _ in 0..300 {
            x ^= x << 13;
            x ^= x >> 7;
            x ^= x << 17;
            bytes.push((x >> 24) as u8);
        }
        bytes[0] = 0;
        let mut t = Tape::new(&bytes);
        ctx.label("sweep");
        run_case(&mut t, code, ctx)
    }

    fn run(&self, t: &mut Tape, ctx: &mut Ctx) -> PResult {
        let code = t.choice(120);
        run_case(t, code, ctx)
    }
}
