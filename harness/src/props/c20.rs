//! C20 Artifacts return what was stored in them.

use crate::driver::{fail, Ctx, PResult, Property, Tier};
use crate::gen::func::*;
use crate::gen::inst::*;
use crate::tape::Tape;
use chrono::{Local, TimeZone};
use ommx::artifact::{media_types, Artifact, Builder, InstanceAnnotations, ParametricInstanceAnnotations, SampleSetAnnotations, SolutionAnnotations};
use ommx::ocipkg::{self, oci_spec::image::MediaType, Digest};
use ommx::v1;
use ommx::Evaluate;
use serde_json::json;
use std::collections::{BTreeMap, HashMap};
use std::sync::atomic::{AtomicU64, Ordering};

pub struct C20;

static COUNTER: AtomicU64 = AtomicU64::new(0);

#[derive(Clone, Debug)]
enum Layer {
    Instance(v1::Instance, HashMap<String, String>),
    Parametric(v1::ParametricInstance, HashMap<String, String>),
    Solution(v1::State, HashMap<String, String>),
    SampleSet(v1::SampleSet, HashMap<String, String>),
}

impl Layer {
    fn kind(&self) -> usize {
        match self {
            Layer::Instance(..) => 0,
            Layer::Parametric(..) => 1,
            Layer::Solution(..) => 2,
            Layer::SampleSet(..) => 3,
        }
    }
    fn ann(&self) -> &HashMap<String, String> {
        match self {
            Layer::Instance(_, a) | Layer::Parametric(_, a) | Layer::Solution(_, a) | Layer::SampleSet(_, a) => a,
        }
    }
    fn media(&self) -> MediaType {
        match self {
            Layer::Instance(..) => media_types::v1_instance(),
            Layer::Parametric(..) => media_types::v1_parametric_instance(),
            Layer::Solution(..) => media_types::v1_solution(),
            Layer::SampleSet(..) => media_types::v1_sample_set(),
        }
    }
}

const FOREIGN_TYPES: [&str; 3] = ["application/json", "application/vnd.numpy", "application/vnd.apache.parquet"];
const KIND_NAMES: [&str; 4] = ["instance", "parametric-instance", "solution", "sample-set"];
const TEXTS: [&str; 6] = ["knapsack", "a title with spaces", "MIT", "日本語のタイトル", "x=1;y=2", ""];

fn gen_text(t: &mut Tape) -> String {
    (*t.pick(&TEXTS)).to_string()
}

/// 1..3 comma-free author names in any order; blanks at either end are part of a name
const AUTHORS: [&str; 9] = ["Alice A.", "Bob", " Alice", "Bob ", "  two blanks", "D. E.", "x=1;y=2", "日本語", ""];
fn gen_authors(t: &mut Tape, ctx: &mut Ctx) -> Vec<String> {
    let n = 1 + t.choice(3);
    let v: Vec<String> = (0..n).map(|_| (*t.pick(&AUTHORS)).to_string()).collect();
    if v[0].starts_with(' ') {
        ctx.label("first-author-starts-with-blank");
    }
    if v.iter().skip(1).any(|a| a.starts_with(' ') || a.ends_with(' ')) {
        ctx.label("author-with-outer-blank");
    }
    v
}

fn gen_time(t: &mut Tape) -> chrono::DateTime<Local> {
    let mut secs = 1_600_000_000i64 + t.u32() as i64 % 100_000_000;
    let nanos = if t.coin() { t.u32() % 1_000_000_000 } else { 0 };
    // times before the epoch are times too (negative second counts, with and without a sub-second part)
    if t.p(48) {
        secs = -(t.u32() as i64 % 2_000_000_000) - 1;
    }
    Local.timestamp_opt(secs, nanos).single().unwrap_or_else(|| Local.timestamp_opt(1_700_000_000, 0).unwrap())
}

fn some_digest(t: &mut Tape) -> Digest {
    let b = [t.byte(), t.byte(), 7u8];
    Digest::from_buf_sha256(&b)
}

/// annotation maps are built through the typed setters; the expected accessor results are checked right away
fn gen_instance_ann(t: &mut Tape, ctx: &mut Ctx) -> Result<InstanceAnnotations, String> {
    let mut a = InstanceAnnotations::default();
    if t.coin() {
        let v = gen_text(t);
        a.set_title(v.clone());
        if a.title().ok() != Some(&v) {
            return Err("title".into());
        }
    }
    if t.coin() {
        let authors = gen_authors(t, ctx);
        a.set_authors(authors.clone());
        let back: Vec<String> = a.authors().map_err(|e| e.to_string())?.map(|s| s.to_string()).collect();
        if back != authors {
            return Err(format!("authors {authors:?} -> {back:?}"));
        }
    }
    if t.coin() {
        let tm = gen_time(t);
        a.set_created(tm);
        if a.created().ok() != Some(tm) {
            return Err(format!("created {tm:?} -> {:?}", a.created()));
        }
        ctx.label("created-time");
    }
    if t.coin() {
        let v = gen_text(t);
        a.set_license(v.clone());
        if a.license().ok() != Some(&v) {
            return Err("license".into());
        }
    }
    if t.coin() {
        let v = gen_text(t);
        a.set_dataset(v.clone());
        if a.dataset().ok() != Some(&v) {
            return Err("dataset".into());
        }
    }
    if t.coin() {
        let n = t.u16() as usize;
        a.set_variables(n);
        a.set_constraints(n / 3);
        if a.variables().ok() != Some(n) || a.constraints().ok() != Some(n / 3) {
            return Err("counts".into());
        }
    }
    if t.coin() {
        a.set_other("org.example.custom".into(), gen_text(t));
        ctx.label("user-defined-key");
    }
    Ok(a)
}

fn gen_parametric_ann(t: &mut Tape, ctx: &mut Ctx) -> Result<ParametricInstanceAnnotations, String> {
    let mut a = ParametricInstanceAnnotations::default();
    if t.coin() {
        let v = gen_text(t);
        a.set_title(v.clone());
        if a.title().ok() != Some(&v) {
            return Err("title".into());
        }
    }
    if t.coin() {
        let authors = gen_authors(t, ctx);
        a.set_authors(authors.clone());
        let back: Vec<String> = a.authors().map_err(|e| e.to_string())?.map(|s| s.to_string()).collect();
        if back != authors {
            return Err(format!("authors {authors:?} -> {back:?}"));
        }
    }
    if t.coin() {
        let tm = gen_time(t);
        a.set_created(tm);
        if a.created().ok() != Some(tm) {
            return Err("created".into());
        }
    }
    if t.coin() {
        let v = gen_text(t);
        a.set_license(v.clone());
        a.set_dataset(v.clone());
        if a.license().ok() != Some(&v) || a.dataset().ok() != Some(&v) {
            return Err("license/dataset".into());
        }
    }
    if t.coin() {
        let n = t.byte() as usize;
        a.set_variables(n);
        a.set_constraints(n + 1);
        if a.variables().ok() != Some(n) || a.constraints().ok() != Some(n + 1) {
            return Err("counts".into());
        }
    }
    if t.coin() {
        a.set_other("org.example.k".into(), gen_text(t));
        ctx.label("user-defined-key");
    }
    Ok(a)
}

fn gen_solution_ann(t: &mut Tape) -> Result<SolutionAnnotations, String> {
    let mut a = SolutionAnnotations::default();
    if t.coin() {
        let (s, e) = (gen_time(t), gen_time(t));
        a.set_start(s);
        a.set_end(e);
        if a.start().ok() != Some(s) || a.end().ok() != Some(e) {
            return Err("start/end".into());
        }
    }
    if t.coin() {
        let d = some_digest(t);
        a.set_instance(d.clone());
        if a.instance().map(|x| x.to_string()).ok() != Some(d.to_string()) {
            return Err("instance digest".into());
        }
    }
    if t.coin() {
        let d = some_digest(t);
        a.set_solver(d.clone());
        if a.solver().map(|x| x.to_string()).ok() != Some(d.to_string()) {
            return Err("solver digest".into());
        }
    }
    if t.coin() {
        let p: BTreeMap<String, f64> = [("time_limit".to_string(), 1.5), ("gap".to_string(), 0.25)].into_iter().collect();
        a.set_parameters(&p).map_err(|e| e.to_string())?;
        let back: BTreeMap<String, f64> = a.parameters().map_err(|e| e.to_string())?;
        if back != p {
            return Err("parameters".into());
        }
    }
    if t.coin() {
        a.set_other("org.example.solver-note".into(), gen_text(t));
    }
    Ok(a)
}

fn gen_sampleset_ann(t: &mut Tape) -> Result<SampleSetAnnotations, String> {
    let mut a = SampleSetAnnotations::default();
    if t.coin() {
        let (s, e) = (gen_time(t), gen_time(t));
        a.set_start(s);
        a.set_end(e);
        if a.start().ok() != Some(s) || a.end().ok() != Some(e) {
            return Err("start/end".into());
        }
    }
    if t.coin() {
        let d = some_digest(t);
        a.set_instance(d.clone());
        a.set_solver(d.clone());
        if a.instance().map(|x| x.to_string()).ok() != Some(d.to_string()) || a.solver().map(|x| x.to_string()).ok() != Some(d.to_string()) {
            return Err("digests".into());
        }
    }
    if t.coin() {
        let p = vec![1u32, 2, 3];
        a.set_parameters(&p).map_err(|e| e.to_string())?;
        let back: Vec<u32> = a.parameters().map_err(|e| e.to_string())?;
        if back != p {
            return Err("parameters".into());
        }
    }
    if t.coin() {
        a.set_other("org.example.note".into(), gen_text(t));
    }
    Ok(a)
}

fn tmp_path(tag: &str) -> std::path::PathBuf {
    let dir = std::path::Path::new("/verif/target/tmp");
    let _ = std::fs::create_dir_all(dir);
    dir.join(format!("c20-{}-{}-{tag}.ommx", std::process::id(), COUNTER.fetch_add(1, Ordering::SeqCst)))
}

fn check_artifact<B: ocipkg::image::Image>(sig: &str, art: &mut Artifact<B>, layers: &[Layer], n_foreign: usize, what: &dyn Fn() -> String) -> PResult {
    let manifest = match art.get_manifest() {
        Ok(m) => m,
        Err(e) => return fail(format!("{sig}/manifest-err"), format!("get_manifest failed: {e:#}: {}", what())),
    };
    // layers of other media types (as the Python SDK adds them: JSON, numpy, parquet) live next to the OMMX layers
    // and do not concern the typed getters
    let all_descs = manifest.layers().clone();
    let descs: Vec<_> = all_descs.iter().filter(|d| !FOREIGN_TYPES.iter().any(|f| d.media_type().to_string() == *f)).cloned().collect();
    if all_descs.len() - descs.len() != n_foreign {
        return fail(format!("{sig}/foreign-layer-count"), format!("{} layers of foreign media types in the manifest, {n_foreign} were added: {}", all_descs.len() - descs.len(), what()));
    }
    if descs.len() != layers.len() {
        return fail(format!("{sig}/layer-count"), format!("{} layers in the manifest, {} were added: {}", descs.len(), layers.len(), what()));
    }
    for (i, (d, l)) in descs.iter().zip(layers.iter()).enumerate() {
        if d.media_type() != &l.media() {
            return fail(format!("{sig}/media-type-or-order"), format!("layer {i} has media type {} but a {} was added at that position: {}", d.media_type(), KIND_NAMES[l.kind()], what()));
        }
        let ann: HashMap<String, String> = d.annotations().as_ref().cloned().unwrap_or_default();
        if &ann != l.ann() {
            return fail(format!("{sig}/annotations/{}", KIND_NAMES[l.kind()]), format!("layer {i} ({}) carries annotations {:?}, stored {:?}: {}", KIND_NAMES[l.kind()], ann, l.ann(), what()));
        }
        let digest = match Digest::new(d.digest()) {
            Ok(x) => x,
            Err(e) => return fail(format!("{sig}/digest-parse"), format!("descriptor digest unusable: {e:#}")),
        };
        // annotations reachable through the digest must be those of some layer of this kind with this digest
        let same: Vec<&Layer> = descs.iter().zip(layers.iter()).filter(|(d2, l2)| d2.digest() == d.digest() && l2.kind() == l.kind()).map(|x| x.1).collect();
        let ann_ok = |a: HashMap<String, String>| same.iter().any(|l2| l2.ann() == &a);
        // own kind
        let identical_other_kind = descs.iter().zip(layers.iter()).any(|(d2, l2)| d2.digest() == d.digest() && l2.kind() != l.kind());
        let facet = if identical_other_kind { "/identical-blob-of-other-kind" } else { "" };
        match l {
            Layer::Instance(m, _) => match art.get_instance(&digest) {
                Ok((x, a)) => {
                    if &x != m || !ann_ok(a.into_inner()) {
                        return fail(format!("{sig}/instance-content"), format!("layer {i}: get_instance returned a different message/annotations: {}", what()));
                    }
                }
                Err(e) => return fail(format!("{sig}/get-own-kind-err/instance{facet}"), format!("layer {i}: get_instance(digest) failed: {e:#}: {}", what())),
            },
            Layer::Parametric(m, _) => match art.get_parametric_instance(&digest) {
                Ok((x, a)) => {
                    if &x != m || !ann_ok(a.into_inner()) {
                        return fail(format!("{sig}/parametric-content"), format!("layer {i}: get_parametric_instance returned a different message/annotations: {}", what()));
                    }
                }
                Err(e) => return fail(format!("{sig}/get-own-kind-err/parametric-instance{facet}"), format!("layer {i}: get_parametric_instance(digest) failed: {e:#}: {}", what())),
            },
            Layer::Solution(m, _) => match art.get_solution(&digest) {
                Ok((x, a)) => {
                    if &x != m || !ann_ok(a.into_inner()) {
                        return fail(format!("{sig}/solution-content"), format!("layer {i}: get_solution returned a different message/annotations: {}", what()));
                    }
                }
                Err(e) => return fail(format!("{sig}/get-own-kind-err/solution{facet}"), format!("layer {i}: get_solution(digest) failed: {e:#}: {}", what())),
            },
            Layer::SampleSet(m, _) => match art.get_sample_set(&digest) {
                Ok((x, a)) => {
                    if &x != m || !ann_ok(a.into_inner()) {
                        return fail(format!("{sig}/sample-set-content"), format!("layer {i}: get_sample_set returned a different message/annotations: {}", what()));
                    }
                }
                Err(e) => return fail(format!("{sig}/get-own-kind-err/sample-set{facet}"), format!("layer {i}: get_sample_set(digest) failed: {e:#}: {}", what())),
            },
        }
        // other kinds must be refused, unless a layer of that kind with identical bytes exists
        for k in 0..4 {
            if k == l.kind() {
                continue;
            }
            let exists = descs.iter().zip(layers.iter()).any(|(d2, l2)| d2.digest() == d.digest() && l2.kind() == k);
            if exists {
                continue;
            }
            // the untyped getter in between (as a tool that first inspects the blob would call it) must not change the answer
            if (i + k) % 2 == 0 {
                if let Err(e) = art.get_layer(&digest) {
                    return fail(format!("{sig}/get-layer-err"), format!("layer {i}: get_layer(digest) failed: {e:#}: {}", what()));
                }
            }
            let ok = match k {
                0 => art.get_instance(&digest).is_ok(),
                1 => art.get_parametric_instance(&digest).is_ok(),
                2 => art.get_solution(&digest).is_ok(),
                _ => art.get_sample_set(&digest).is_ok(),
            };
            if ok {
                return fail(format!("{sig}/wrong-kind-accepted/{}-as-{}", KIND_NAMES[l.kind()], KIND_NAMES[k]), format!("layer {i} is a {} but could be read as a {}: {}", KIND_NAMES[l.kind()], KIND_NAMES[k], what()));
            }
        }
    }
    // unknown digest
    let unknown = Digest::from_buf_sha256(b"no such layer in this artifact");
    if art.get_instance(&unknown).is_ok() || art.get_solution(&unknown).is_ok() || art.get_parametric_instance(&unknown).is_ok() || art.get_sample_set(&unknown).is_ok() {
        return fail(format!("{sig}/unknown-digest-accepted"), format!("a digest that is not in the artifact was accepted: {}", what()));
    }
    // a digest with another algorithm but the hex part of a stored layer is not the digest of any layer
    if let Some(d) = descs.first() {
        if let Some(hex) = d.digest().strip_prefix("sha256:") {
            for alg in ["sha512", "blake3"] {
                if let Ok(alt) = Digest::new(&format!("{alg}:{hex}")) {
                    if art.get_layer(&alt).is_ok() || art.get_instance(&alt).is_ok() || art.get_solution(&alt).is_ok() || art.get_parametric_instance(&alt).is_ok() || art.get_sample_set(&alt).is_ok() {
                        return fail(format!("{sig}/foreign-algorithm-digest-accepted"), format!("digest {alt} (same hex as a stored layer, other algorithm) was accepted: {}", what()));
                    }
                }
            }
            // a part of a stored digest (its tail, its head, all but one digit) is not that digest
            for part in [hex[hex.len() - 12..].to_string(), hex[..12].to_string(), hex[..hex.len() - 1].to_string()] {
                if let Ok(alt) = Digest::new(&format!("sha256:{part}")) {
                    let typed_ok = match layers.first().map(|l| l.kind()) {
                        Some(0) => art.get_instance(&alt).is_ok(),
                        Some(1) => art.get_parametric_instance(&alt).is_ok(),
                        Some(2) => art.get_solution(&alt).is_ok(),
                        _ => art.get_sample_set(&alt).is_ok(),
                    };
                    if art.get_layer(&alt).is_ok() || typed_ok {
                        return fail(format!("{sig}/partial-digest-accepted"), format!("digest {alt} (a part of the digest of a stored layer) was accepted: {}", what()));
                    }
                }
            }
        }
    }
    // list accessors
    match art.get_instances() {
        Ok(v) => {
            let want: Vec<(&v1::Instance, &HashMap<String, String>)> = layers.iter().filter_map(|l| if let Layer::Instance(m, a) = l { Some((m, a)) } else { None }).collect();
            if v.len() != want.len() || v.iter().zip(want.iter()).any(|(a, b)| &a.1 != b.0) {
                return fail(format!("{sig}/get-instances"), format!("get_instances returned {} entries / different content, {} instances were added: {}", v.len(), want.len(), what()));
            }
            for (i, ((d, _), (_, ann))) in v.iter().zip(want.iter()).enumerate() {
                let got: HashMap<String, String> = d.annotations().as_ref().cloned().unwrap_or_default();
                if d.media_type() != &media_types::v1_instance() || &got != *ann {
                    return fail(format!("{sig}/get-instances-descriptor"), format!("get_instances entry {i} carries media type {} and annotations {:?}; the {i}-th added instance has annotations {:?}: {}", d.media_type(), got, ann, what()));
                }
            }
        }
        Err(e) => return fail(format!("{sig}/get-instances-err"), format!("get_instances failed: {e:#}")),
    }
    match art.get_solutions() {
        Ok(v) => {
            let want: Vec<(&v1::State, &HashMap<String, String>)> = layers.iter().filter_map(|l| if let Layer::Solution(m, a) = l { Some((m, a)) } else { None }).collect();
            if v.len() != want.len() || v.iter().zip(want.iter()).any(|(a, b)| &a.1 != b.0) {
                return fail(format!("{sig}/get-solutions"), format!("get_solutions returned {} entries / different content, {} solutions were added: {}", v.len(), want.len(), what()));
            }
            for (i, ((d, _), (_, ann))) in v.iter().zip(want.iter()).enumerate() {
                let got: HashMap<String, String> = d.annotations().as_ref().cloned().unwrap_or_default();
                if d.media_type() != &media_types::v1_solution() || &got != *ann {
                    return fail(format!("{sig}/get-solutions-descriptor"), format!("get_solutions entry {i} carries media type {} and annotations {:?}; the {i}-th added solution has annotations {:?}: {}", d.media_type(), got, ann, what()));
                }
            }
        }
        Err(e) => return fail(format!("{sig}/get-solutions-err"), format!("get_solutions failed: {e:#}")),
    }
    // per-kind descriptor lists
    for k in 0..4 {
        let mt = [media_types::v1_instance(), media_types::v1_parametric_instance(), media_types::v1_solution(), media_types::v1_sample_set()][k].clone();
        match art.get_layer_descriptors(&mt) {
            Ok(v) => {
                let n = layers.iter().filter(|l| l.kind() == k).count();
                if v.len() != n {
                    return fail(format!("{sig}/layer-descriptors"), format!("{} descriptors of kind {}, {} were added: {}", v.len(), KIND_NAMES[k], n, what()));
                }
            }
            Err(e) => return fail(format!("{sig}/layer-descriptors-err"), format!("get_layer_descriptors failed: {e:#}")),
        }
    }
    Ok(())
}

impl Property for C20 {
    fn id(&self) -> &'static str {
        "C20"
    }
    fn rule(&self) -> &'static str {
        "case = history of 0..6 add operations over {instance, parametric instance, solution state, sample set} with generated messages (including default/empty ones and the same message added twice, a variables-only template as instance and as parametric instance, 1.6-layout sample sets, foreign layers of other media types in between) and annotation maps built through the typed setters (title, comma-free authors, creation time with sub-second part (also before 1970), authors with outer blanks, licence, dataset, counts, start/end, digests, JSON parameters, user-defined keys incl. non-ASCII values), built as an unnamed local OCI archive, checked after build() and after re-opening the file | a non-OMMX image built with ocipkg's own builders (foreign artifact type; plain image manifest without artifactType, with and without a layer claiming an OMMX media type); \
         the process runs under a local time zone other than UTC (NST3:30 for even VERIF_SEED, JST-9 for odd; recorded in replay files); \
         oracle = in-memory model: ordered list of (media type, message, annotations); non-trivial = >=3 layers of >=2 kinds with a non-empty annotation map; distinct = sha256(history)"
    }
    fn required_labels(&self) -> Vec<String> {
        ["kind=instance", "kind=parametric-instance", "kind=solution", "kind=sample-set", "empty-message", "same-message-twice", "wrong-kind-request", "non-ommx-image", "non-ommx-image-without-artifact-type", "zero-layers", "created-time", "user-defined-key", "identical-blob-different-kind", "identical-nonempty-blob-different-kind", "reopened", "first-author-starts-with-blank", "author-with-outer-blank", "sample-set-in-1.6-layout", "foreign-layers-in-between"].iter().map(|s| s.to_string()).collect()
    }
    fn cases(&self, tier: Tier) -> usize {
        match tier {
            Tier::Quick => 5_000,
            Tier::Thorough => 150_000,
        }
    }
    fn tape_max(&self) -> usize {
        768
    }
    fn assumptions(&self) -> Vec<String> {
        vec![
            "local unnamed OCI archives only (no registry, no network); author names are comma-free".into(),
            "when the same message is stored twice under one kind, the annotations obtained through the digest may be those of either copy".into(),
        ]
    }

    fn run(&self, t: &mut Tape, ctx: &mut Ctx) -> PResult {
        let n = t.weighted(&[1, 2, 3, 3, 3, 2, 2]); // 0..6 layers
        let foreign_mask: u8 = if t.p(60) { t.byte() } else { 0 };
        let non_ommx = t.p(20);
        let non_ommx_variant = t.choice(3);
        let plan: Vec<(u8, u8)> = (0..n).map(|_| (t.byte(), t.byte())).collect();
        if non_ommx {
            ctx.label("non-ommx-image");
            ctx.nontrivial();
            ctx.fp_str("non-ommx");
            let path = tmp_path("foreign");
            let _ = std::fs::remove_file(&path);
            if non_ommx_variant != 0 {
                // an ordinary image manifest: no artifactType field at all (optional in the OCI image manifest), with or
                // without a layer that claims the media type of an OMMX instance
                ctx.label("non-ommx-image-without-artifact-type");
                ctx.fp(&[non_ommx_variant as u8]);
                let r = (|| -> anyhow::Result<Vec<&'static str>> {
                    use ocipkg::image::ImageBuilder;
                    use ocipkg::oci_spec::image::{DescriptorBuilder, ImageManifestBuilder};
                    let mut layout = ocipkg::image::OciArchiveBuilder::new_unnamed(path.clone())?;
                    let config = layout.add_empty_json()?;
                    let mut layer_list = vec![];
                    if non_ommx_variant == 1 {
                        let (digest, size) = layout.add_blob(b"not an ommx message")?;
                        layer_list.push(DescriptorBuilder::default().media_type(media_types::v1_instance()).digest(digest.to_string()).size(size).build()?);
                    }
                    let manifest = ImageManifestBuilder::default().schema_version(2_u32).config(config).layers(layer_list).build()?;
                    let _ = layout.build(manifest)?;
                    // (an implementation that refuses such an image already when it is opened has reported the error too)
                    let Ok(mut a) = Artifact::from_oci_archive(&path) else {
                        return Ok(vec![]);
                    };
                    let mut accepted = vec![];
                    if a.get_manifest().is_ok() {
                        accepted.push("get_manifest");
                    }
                    if a.get_layer_descriptors(&media_types::v1_instance()).is_ok() {
                        accepted.push("get_layer_descriptors");
                    }
                    Ok(accepted)
                })();
                let _ = std::fs::remove_file(&path);
                ctx.sample_with(|| json!({"case": "image without artifactType: get_manifest must fail", "variant": non_ommx_variant}));
                return match r {
                    Ok(v) if v.is_empty() => Ok(()),
                    Ok(v) => fail("C20/non-ommx-manifest-accepted/no-artifact-type", format!("{v:?} succeeded on an image whose manifest has no artifactType (variant {non_ommx_variant})")),
                    Err(e) => fail("C20/non-ommx-infra", format!("could not build the plain image: {e:#}")),
                };
            }
            let r = (|| -> anyhow::Result<bool> {
                let archive = ocipkg::image::OciArchiveBuilder::new_unnamed(path.clone())?;
                let mut b = ocipkg::image::OciArtifactBuilder::new(archive, MediaType::Other("application/vnd.example.something".to_string()))?;
                b.add_layer(MediaType::Other("application/octet-stream".to_string()), b"hello", HashMap::new())?;
                let built = b.build()?;
                let ok1 = match Artifact::new(built) {
                    Ok(mut a) => a.get_manifest().is_ok(),
                    Err(_) => false,
                };
                // (an implementation that refuses such an image already when it is opened has reported the error too)
                let Ok(mut a2) = Artifact::from_oci_archive(&path) else {
                    return Ok(ok1);
                };
                let ok2 = a2.get_manifest().is_ok();
                // ... also when other requests were served from the same handle before (whatever they answered):
                // by-digest lookups that find nothing, a lookup of the one stored layer, the list accessors
                let mut a3 = Artifact::from_oci_archive(&path)?;
                let nothing = Digest::from_buf_sha256(b"no such layer");
                let stored = Digest::from_buf_sha256(b"hello");
                let _ = a3.get_solution(&nothing);
                let _ = a3.get_instance(&nothing);
                let _ = a3.get_layer(&stored);
                let _ = a3.get_sample_set(&stored);
                let ok3 = a3.get_manifest().is_ok();
                let mut a4 = Artifact::from_oci_archive(&path)?;
                let _ = a4.get_instances();
                let _ = a4.get_solutions();
                let ok4 = a4.get_manifest().is_ok();
                Ok(ok1 || ok2 || ok3 || ok4)
            })();
            let _ = std::fs::remove_file(&path);
            ctx.sample_with(|| json!({"case": "non-OMMX image: get_manifest must fail"}));
            return match r {
                Ok(false) => Ok(()),
                Ok(true) => fail("C20/non-ommx-manifest-accepted", "get_manifest succeeded on an image whose artifact type is not the OMMX one".to_string()),
                Err(e) => fail("C20/non-ommx-infra", format!("could not build the foreign image: {e:#}")),
            };
        }
        // messages
        let regime = Regime::Dyadic;
        let mut cfg = InstCfg::new(regime);
        cfg.max_vars = 3;
        cfg.max_active = 2;
        cfg.max_removed = 1;
        cfg.func.max_terms = 3;
        let mut layers: Vec<Layer> = vec![];
        let mut twin: Option<v1::Instance> = None;
        for (a, b) in &plan {
            let kind = (*a % 4) as usize;
            let shape = *b % 5; // 0 empty/default, 1 repeat an earlier message of this kind, else generated
            let ann_result: Result<HashMap<String, String>, String> = match kind {
                0 => gen_instance_ann(t, ctx).map(|x| x.into_inner()),
                1 => gen_parametric_ann(t, ctx).map(|x| x.into_inner()),
                2 => gen_solution_ann(t).map(|x| x.into_inner()),
                _ => gen_sampleset_ann(t).map(|x| x.into_inner()),
            };
            let ann = match ann_result {
                Ok(a) => a,
                Err(e) => return fail(format!("C20/annotation-accessor/{}", KIND_NAMES[kind]), format!("annotation accessor does not return what was set: {e}")),
            };
            ctx.label(format!("kind={}", KIND_NAMES[kind]));
            let earlier = layers.iter().find(|l| l.kind() == kind).cloned();
            let layer = match (kind, shape, earlier) {
                (_, 1, Some(l)) => {
                    ctx.label("same-message-twice");
                    match l {
                        Layer::Instance(m, _) => Layer::Instance(m, ann),
                        Layer::Parametric(m, _) => Layer::Parametric(m, ann),
                        Layer::Solution(m, _) => Layer::Solution(m, ann),
                        Layer::SampleSet(m, _) => Layer::SampleSet(m, ann),
                    }
                }
                (0 | 1, 2, _) => {
                    // a template without objective, constraints and sense: as a plain instance and as a parametric
                    // instance it is the same non-empty byte string (the two messages share their field numbers)
                    if twin.is_none() {
                        let mut m = gen_instance(t, &cfg, ctx).inst;
                        m.objective = None;
                        m.constraints.clear();
                        m.sense = 0;
                        m.parameters = None;
                        twin = Some(m);
                    }
                    let m = twin.clone().unwrap();
                    ctx.label("variables-only-template");
                    if kind == 0 {
                        Layer::Instance(m, ann)
                    } else {
                        Layer::Parametric(m.into(), ann)
                    }
                }
                (0, 0, _) => {
                    ctx.label("empty-message");
                    Layer::Instance(v1::Instance::default(), ann)
                }
                (1, 0, _) => {
                    ctx.label("empty-message");
                    Layer::Parametric(v1::ParametricInstance::default(), ann)
                }
                (2, 0, _) => {
                    ctx.label("empty-message");
                    Layer::Solution(v1::State::default(), ann)
                }
                (3, 0, _) => {
                    ctx.label("empty-message");
                    Layer::SampleSet(v1::SampleSet::default(), ann)
                }
                (0, _, _) => Layer::Instance(gen_instance(t, &cfg, ctx).inst, ann),
                (1, _, _) => Layer::Parametric(gen_instance(t, &cfg, ctx).inst.into(), ann),
                (2, _, _) => Layer::Solution(gen_state(t, [1u64, 2, 5], regime), ann),
                _ => {
                    let gi = gen_instance(t, &cfg, ctx);
                    let mut samples = v1::Samples::default();
                    for i in 0..(1 + t.choice(3)) {
                        samples.add_sample(i as u64, gen_inst_state(t, &gi, regime, true));
                    }
                    match gi.inst.evaluate_samples(&samples) {
                        Ok((mut ss, _)) => {
                            if t.p(80) {
                                // the layout written by the 1.6 release: `feasible` = relaxed feasibility,
                                // `feasible_unrelaxed` = feasibility for all constraints; stored as it is, returned as it is
                                #[allow(deprecated)]
                                {
                                    ss.feasible_unrelaxed = std::mem::take(&mut ss.feasible);
                                    ss.feasible = std::mem::take(&mut ss.feasible_relaxed);
                                }
                                ctx.label("sample-set-in-1.6-layout");
                            }
                            Layer::SampleSet(ss, ann)
                        }
                        Err(_) => Layer::SampleSet(v1::SampleSet::default(), ann),
                    }
                }
            };
            layers.push(layer);
        }
        if layers.is_empty() {
            ctx.label("zero-layers");
        }
        // identical bytes under different kinds?
        {
            use prost::Message;
            let blobs: Vec<(usize, Vec<u8>)> = layers
                .iter()
                .map(|l| match l {
                    Layer::Instance(m, _) => (0, m.encode_to_vec()),
                    Layer::Parametric(m, _) => (1, m.encode_to_vec()),
                    Layer::Solution(m, _) => (2, m.encode_to_vec()),
                    Layer::SampleSet(m, _) => (3, m.encode_to_vec()),
                })
                .collect();
            for (i, a) in blobs.iter().enumerate() {
                for b in &blobs[i + 1..] {
                    if a.0 != b.0 && a.1 == b.1 {
                        ctx.label("identical-blob-different-kind");
                        if !a.1.is_empty() {
                            ctx.label("identical-nonempty-blob-different-kind");
                        }
                    }
                }
            }
            for (k, b) in &blobs {
                ctx.fp(&[*k as u8]);
                ctx.fp(&if b.len() > 64 { sha2_digest(b) } else { b.clone() });
            }
            for l in &layers {
                let mut a: Vec<(&String, &String)> = l.ann().iter().collect();
                a.sort();
                ctx.fp_dbg(&a);
            }
        }
        let kinds: std::collections::BTreeSet<usize> = layers.iter().map(|l| l.kind()).collect();
        if layers.len() >= 3 && kinds.len() >= 2 && layers.iter().any(|l| !l.ann().is_empty()) {
            ctx.nontrivial();
        }
        if !layers.is_empty() {
            ctx.label("wrong-kind-request");
        }
        let summary = || {
            format!(
                "history: {:?}",
                layers.iter().map(|l| format!("add_{}(message of {} bytes, annotations {:?})", KIND_NAMES[l.kind()].replace('-', "_"), layer_len(l), { let mut a: Vec<_> = l.ann().iter().collect(); a.sort(); a })).collect::<Vec<_>>()
            )
        };
        ctx.sample_with(|| json!({"history": summary()}));
        let n_foreign = (0..layers.len()).filter(|li| foreign_mask >> (li % 8) & 1 == 1).count();
        if n_foreign > 0 {
            ctx.label("foreign-layers-in-between");
        }
        ctx.fp(&[foreign_mask]);
        // build
        let path = tmp_path("a");
        let _ = std::fs::remove_file(&path);
        let built = (|| -> anyhow::Result<Artifact<ocipkg::image::OciArchive>> {
            let mut b = Builder::new_archive_unnamed(path.clone())?;
            for (li, l) in layers.iter().enumerate() {
                if foreign_mask >> (li % 8) & 1 == 1 {
                    b.add_layer(MediaType::Other(FOREIGN_TYPES[li % FOREIGN_TYPES.len()].to_string()), b"{\"k\": [1, 2, 3]}", HashMap::from([("org.ommx.user.note".to_string(), "not an ommx layer".to_string())]))?;
                }
                match l.clone() {
                    Layer::Instance(m, a) => b.add_instance(m, InstanceAnnotations::from(a))?,
                    Layer::Parametric(m, a) => b.add_parametric_instance(m, ParametricInstanceAnnotations::from(a))?,
                    Layer::Solution(m, a) => b.add_solution(m, SolutionAnnotations::from(a))?,
                    Layer::SampleSet(m, a) => b.add_sample_set(m, SampleSetAnnotations::from(a))?,
                }
            }
            b.build()
        })();
        let mut art = match built {
            Ok(a) => a,
            Err(e) => {
                let _ = std::fs::remove_file(&path);
                return fail("C20/build-err", format!("building the archive failed: {e:#}: {}", summary()));
            }
        };
        let r1 = check_artifact("C20/built", &mut art, &layers, n_foreign, &summary);
        drop(art);
        let r = r1.and_then(|_| {
            ctx.label("reopened");
            match Artifact::from_oci_archive(&path) {
                Ok(mut a2) => check_artifact("C20/reopened", &mut a2, &layers, n_foreign, &summary),
                Err(e) => fail("C20/reopen-err", format!("from_oci_archive failed: {e:#}: {}", summary())),
            }
        });
        let _ = std::fs::remove_file(&path);
        r
    }
}

fn layer_len(l: &Layer) -> usize {
    use prost::Message;
    match l {
        Layer::Instance(m, _) => m.encoded_len(),
        Layer::Parametric(m, _) => m.encoded_len(),
        Layer::Solution(m, _) => m.encoded_len(),
        Layer::SampleSet(m, _) => m.encoded_len(),
    }
}

fn sha2_digest(b: &[u8]) -> Vec<u8> {
    use sha2::{Digest as _, Sha256};
    Sha256::digest(b).to_vec()
}
