pub mod c01;

use crate::driver::Property;

pub fn all() -> Vec<Box<dyn Property>> {
    vec![Box::new(c01::C01)]
}
