//! Choice tape: the single source of randomness for every generator.
//!
//! A tape is a byte string read left to right. Every draw maps the next byte(s)
//! *monotonically* onto the requested range, an exhausted tape yields zeros, and zero
//! always means the simplest choice. Shrinking the tape (deleting / lowering bytes)
//! therefore shrinks the case. The same generators are driven by proptest (random
//! `Vec<u8>`), by libFuzzer (fuzzer bytes) and by replay (saved bytes).

#[derive(Clone)]
pub struct Tape<'a> {
    data: &'a [u8],
    pos: usize,
}

impl<'a> Tape<'a> {
    pub fn new(data: &'a [u8]) -> Self {
        Tape { data, pos: 0 }
    }

    pub fn consumed(&self) -> usize {
        self.pos.min(self.data.len())
    }

    pub fn exhausted(&self) -> bool {
        self.pos >= self.data.len()
    }

    #[inline]
    pub fn byte(&mut self) -> u8 {
        let b = self.data.get(self.pos).copied().unwrap_or(0);
        self.pos += 1;
        b
    }

    pub fn u16(&mut self) -> u16 {
        ((self.byte() as u16) << 8) | self.byte() as u16
    }

    pub fn u32(&mut self) -> u32 {
        ((self.u16() as u32) << 16) | self.u16() as u32
    }

    pub fn u64(&mut self) -> u64 {
        ((self.u32() as u64) << 32) | self.u32() as u64
    }

    /// Uniform-ish choice in `0..n` (n >= 1), monotone in the tape bytes.
    pub fn choice(&mut self, n: usize) -> usize {
        debug_assert!(n >= 1);
        if n <= 1 {
            return 0;
        }
        if n <= 256 {
            (self.byte() as usize * n) >> 8
        } else if n <= 65536 {
            (self.u16() as usize * n) >> 16
        } else {
            ((self.u32() as u128 * n as u128) >> 32) as usize
        }
    }

    /// Integer in `lo..=hi`, smallest tape value gives `lo`.
    pub fn int(&mut self, lo: i64, hi: i64) -> i64 {
        debug_assert!(lo <= hi);
        let n = (hi - lo) as u64 + 1;
        lo + self.choice(n as usize) as i64
    }

    /// Integer in `lo..=hi` where the simplest (tape zero) value is the one nearest to `origin`.
    pub fn int_around(&mut self, origin: i64, lo: i64, hi: i64) -> i64 {
        debug_assert!(lo <= origin && origin <= hi);
        let n = (hi - lo) as usize + 1;
        let k = self.choice(n) as i64;
        // 0 -> origin, 1 -> origin+1, 2 -> origin-1, ... clipped into the range
        let mut up = origin;
        let mut down = origin;
        let mut cur = origin;
        for step in 0..k {
            let go_up = if up >= hi {
                false
            } else if down <= lo {
                true
            } else {
                step % 2 == 0
            };
            if go_up {
                up += 1;
                cur = up;
            } else {
                down -= 1;
                cur = down;
            }
        }
        cur
    }

    /// true with probability num/256; tape zero gives false.
    pub fn p(&mut self, num: u32) -> bool {
        (self.byte() as u32) >= 256 - num.min(256)
    }

    pub fn coin(&mut self) -> bool {
        self.p(128)
    }

    /// Index with the given weights; tape zero gives index 0.
    pub fn weighted(&mut self, weights: &[u32]) -> usize {
        let total: u32 = weights.iter().sum();
        debug_assert!(total > 0);
        let mut x = self.choice(total as usize) as u32;
        for (i, w) in weights.iter().enumerate() {
            if x < *w {
                return i;
            }
            x -= *w;
        }
        weights.len() - 1
    }

    pub fn pick<'b, T>(&mut self, items: &'b [T]) -> &'b T {
        &items[self.choice(items.len())]
    }

    /// Fisher-Yates driven by the tape; an all-zero tape leaves the order unchanged.
    pub fn shuffle<T>(&mut self, v: &mut [T]) {
        let n = v.len();
        for i in 0..n.saturating_sub(1) {
            let j = i + self.choice(n - i);
            v.swap(i, j);
        }
    }

    /// Split 0..n into a random subset mask.
    pub fn subset(&mut self, n: usize, p: u32) -> Vec<bool> {
        (0..n).map(|_| self.p(p)).collect()
    }

    /// Dyadic rational k/den with |k| <= kmax, tape zero gives 1.
    pub fn dyadic(&mut self, kmax: i64, den: f64) -> f64 {
        let k = self.int_around(den as i64, -kmax, kmax);
        k as f64 / den
    }

    /// "Any finite real" of moderate magnitude: class-based, tape zero gives 1.0.
    pub fn real(&mut self) -> f64 {
        match self.weighted(&[4, 6, 3, 2, 2, 2]) {
            0 => self.int_around(1, -9, 9) as f64,
            1 => {
                // random mantissa, exponent in [-12, 12]
                let m = 1.0 + (self.u32() as f64) / 4294967296.0;
                let e = self.int_around(0, -12, 12) as i32;
                let s = if self.coin() { -1.0 } else { 1.0 };
                s * m * 2f64.powi(e)
            }
            2 => {
                // decimal fractions, not representable
                let k = self.int_around(1, -999, 999) as f64;
                k / *self.pick(&[10.0, 100.0, 1000.0, 3.0, 7.0])
            }
            3 => {
                // around machine epsilon
                let s = if self.coin() { -1.0 } else { 1.0 };
                s * f64::EPSILON * *self.pick(&[0.5, 1.0, 2.0, 0.999, 1.001])
            }
            4 => {
                // large
                let s = if self.coin() { -1.0 } else { 1.0 };
                s * *self.pick(&[1e6, 123456.789, 1e5, 65536.0])
            }
            _ => {
                // tiny
                let s = if self.coin() { -1.0 } else { 1.0 };
                s * *self.pick(&[1e-6, 1e-9, 1e-300, 3.0e-7])
            }
        }
    }
}

/// Deterministic tape minimiser: repeatedly tries deleting blocks, zeroing blocks and
/// lowering single bytes while `fails` keeps returning true. Bounded by `budget` calls.
pub fn minimise(tape: &[u8], budget: usize, mut fails: impl FnMut(&[u8]) -> bool) -> Vec<u8> {
    let mut cur = tape.to_vec();
    let mut calls = 0usize;
    let mut try_it = |cand: &[u8], calls: &mut usize| -> bool {
        if *calls >= budget {
            return false;
        }
        *calls += 1;
        fails(cand)
    };
    // strip trailing zeros first (they are implied)
    while cur.last() == Some(&0) {
        cur.pop();
    }
    loop {
        let mut improved = false;
        // delete blocks
        let mut block = (cur.len() / 2).max(1);
        while block >= 1 {
            let mut i = 0;
            while i + block <= cur.len() {
                let mut cand = cur.clone();
                cand.drain(i..i + block);
                if try_it(&cand, &mut calls) {
                    cur = cand;
                    improved = true;
                } else {
                    i += block;
                }
            }
            if block == 1 {
                break;
            }
            block /= 2;
        }
        // zero blocks / bytes
        let mut block = (cur.len() / 2).max(1);
        while block >= 1 {
            let mut i = 0;
            while i + block <= cur.len() {
                if cur[i..i + block].iter().any(|b| *b != 0) {
                    let mut cand = cur.clone();
                    for b in &mut cand[i..i + block] {
                        *b = 0;
                    }
                    if try_it(&cand, &mut calls) {
                        cur = cand;
                        improved = true;
                    }
                }
                i += block;
            }
            if block == 1 {
                break;
            }
            block /= 2;
        }
        // lower bytes (binary search towards 0)
        for i in 0..cur.len() {
            if cur[i] == 0 {
                continue;
            }
            let mut lo = 0u8; // known-not-failing-or-untested lower limit
            let mut hi = cur[i]; // known failing
            while lo < hi {
                let mid = lo + (hi - lo) / 2;
                let mut cand = cur.clone();
                cand[i] = mid;
                if try_it(&cand, &mut calls) {
                    hi = mid;
                    improved = true;
                } else {
                    lo = mid + 1;
                }
            }
            cur[i] = hi;
        }
        while cur.last() == Some(&0) {
            cur.pop();
        }
        if !improved || calls >= budget {
            break;
        }
    }
    cur
}

pub fn to_hex(b: &[u8]) -> String {
    b.iter().map(|x| format!("{:02x}", x)).collect()
}

pub fn from_hex(s: &str) -> Option<Vec<u8>> {
    let s = s.trim();
    if s.len() % 2 != 0 {
        return None;
    }
    (0..s.len() / 2)
        .map(|i| u8::from_str_radix(&s[2 * i..2 * i + 2], 16).ok())
        .collect()
}
