//! Independent protobuf machinery for C07: a schema model, a proto3 text parser, a reader for
//! protoc's serialized descriptors embedded in the Python bindings, a reader for the
//! `#[prost(...)]` attributes of the generated Rust file, and a schema-driven dynamic codec.
//! Nothing here uses prost or protoc.

use crate::tape::Tape;
use std::collections::BTreeMap;

#[derive(Clone, Debug, PartialEq, Eq)]
pub enum Ty {
    U64,
    I64,
    F64,
    Bool,
    Str,
    Enum(String),
    Msg(String),
}

#[derive(Clone, Debug, PartialEq, Eq)]
pub enum Label {
    Singular,
    Optional,
    Repeated,
    Map(Box<Ty>, Box<Ty>),
}

#[derive(Clone, Debug, PartialEq, Eq)]
pub struct Field {
    pub name: String,
    pub number: u32,
    pub ty: Ty,
    pub label: Label,
    pub oneof: Option<String>,
}

#[derive(Clone, Debug, PartialEq, Eq, Default)]
pub struct Msg {
    pub fields: Vec<Field>,
}

#[derive(Clone, Debug, PartialEq, Eq, Default)]
pub struct Schema {
    pub msgs: BTreeMap<String, Msg>,
    pub enums: BTreeMap<String, Vec<(String, i32)>>,
}

// ---------------------------------------------------------------------------------------
// proto3 text parser (subset actually used by the schema)
// ---------------------------------------------------------------------------------------

#[derive(Clone, Debug, PartialEq)]
enum Tok {
    Id(String),
    Num(i64),
    Str(String),
    Sym(char),
}

fn tokenize(src: &str) -> Result<Vec<Tok>, String> {
    let b: Vec<char> = src.chars().collect();
    let mut i = 0;
    let mut out = vec![];
    while i < b.len() {
        let c = b[i];
        if c.is_whitespace() {
            i += 1;
        } else if c == '/' && i + 1 < b.len() && b[i + 1] == '/' {
            while i < b.len() && b[i] != '\n' {
                i += 1;
            }
        } else if c == '/' && i + 1 < b.len() && b[i + 1] == '*' {
            i += 2;
            while i + 1 < b.len() && !(b[i] == '*' && b[i + 1] == '/') {
                i += 1;
            }
            i += 2;
        } else if c.is_ascii_alphabetic() || c == '_' {
            let s = i;
            while i < b.len() && (b[i].is_ascii_alphanumeric() || b[i] == '_' || b[i] == '.') {
                i += 1;
            }
            out.push(Tok::Id(b[s..i].iter().collect()));
        } else if c.is_ascii_digit() || (c == '-' && i + 1 < b.len() && b[i + 1].is_ascii_digit()) {
            let s = i;
            i += 1;
            while i < b.len() && b[i].is_ascii_digit() {
                i += 1;
            }
            let t: String = b[s..i].iter().collect();
            out.push(Tok::Num(t.parse().map_err(|e| format!("bad number {t}: {e}"))?));
        } else if c == '"' {
            i += 1;
            let s = i;
            while i < b.len() && b[i] != '"' {
                i += 1;
            }
            out.push(Tok::Str(b[s..i].iter().collect()));
            i += 1;
        } else {
            out.push(Tok::Sym(c));
            i += 1;
        }
    }
    Ok(out)
}

struct RawField {
    name: String,
    number: u32,
    ty: String,
    label: u8, // 0 singular 1 optional 2 repeated 3 map
    map_kv: Option<(String, String)>,
    oneof: Option<String>,
}

struct P {
    t: Vec<Tok>,
    i: usize,
}

impl P {
    fn peek(&self) -> Option<&Tok> {
        self.t.get(self.i)
    }
    fn next(&mut self) -> Result<Tok, String> {
        let x = self.t.get(self.i).cloned().ok_or("unexpected end of .proto")?;
        self.i += 1;
        Ok(x)
    }
    fn id(&mut self) -> Result<String, String> {
        match self.next()? {
            Tok::Id(s) => Ok(s),
            x => Err(format!("expected identifier, got {x:?}")),
        }
    }
    fn num(&mut self) -> Result<i64, String> {
        match self.next()? {
            Tok::Num(n) => Ok(n),
            x => Err(format!("expected number, got {x:?}")),
        }
    }
    fn sym(&mut self, c: char) -> Result<(), String> {
        match self.next()? {
            Tok::Sym(x) if x == c => Ok(()),
            x => Err(format!("expected '{c}', got {x:?}")),
        }
    }
    fn skip_options(&mut self) -> Result<(), String> {
        if self.peek() == Some(&Tok::Sym('[')) {
            while self.next()? != Tok::Sym(']') {}
        }
        Ok(())
    }
}

/// parse one file; returns (package, raw messages (full name -> fields), enums)
fn parse_file(src: &str, raw: &mut BTreeMap<String, Vec<RawField>>, enums: &mut BTreeMap<String, Vec<(String, i32)>>) -> Result<(), String> {
    let mut p = P { t: tokenize(src)?, i: 0 };
    let mut package = String::new();
    while p.peek().is_some() {
        let kw = p.id()?;
        match kw.as_str() {
            "syntax" => {
                p.sym('=')?;
                let s = p.next()?;
                if s != Tok::Str("proto3".into()) {
                    return Err(format!("unsupported syntax {s:?}"));
                }
                p.sym(';')?;
            }
            "package" => {
                package = p.id()?;
                p.sym(';')?;
            }
            "import" => {
                if p.peek() == Some(&Tok::Id("public".into())) {
                    p.next()?;
                }
                p.next()?;
                p.sym(';')?;
            }
            "option" => {
                while p.next()? != Tok::Sym(';') {}
            }
            "message" => parse_message(&mut p, &package, raw, enums)?,
            "enum" => parse_enum(&mut p, &package, enums)?,
            other => return Err(format!("unsupported top-level statement '{other}'")),
        }
    }
    Ok(())
}

fn parse_enum(p: &mut P, scope: &str, enums: &mut BTreeMap<String, Vec<(String, i32)>>) -> Result<(), String> {
    let name = p.id()?;
    let full = format!("{scope}.{name}");
    p.sym('{')?;
    let mut vals = vec![];
    loop {
        if p.peek() == Some(&Tok::Sym('}')) {
            p.next()?;
            break;
        }
        let vn = p.id()?;
        if vn == "option" || vn == "reserved" {
            while p.next()? != Tok::Sym(';') {}
            continue;
        }
        p.sym('=')?;
        let n = p.num()?;
        p.skip_options()?;
        p.sym(';')?;
        vals.push((vn, n as i32));
    }
    enums.insert(full, vals);
    Ok(())
}

fn parse_message(p: &mut P, scope: &str, raw: &mut BTreeMap<String, Vec<RawField>>, enums: &mut BTreeMap<String, Vec<(String, i32)>>) -> Result<(), String> {
    let name = p.id()?;
    let full = format!("{scope}.{name}");
    p.sym('{')?;
    let mut fields: Vec<RawField> = vec![];
    let mut oneof: Option<String> = None;
    loop {
        if p.peek() == Some(&Tok::Sym('}')) {
            p.next()?;
            if oneof.is_some() {
                oneof = None;
                continue;
            }
            break;
        }
        let first = p.id()?;
        match first.as_str() {
            "message" => {
                parse_message(p, &full, raw, enums)?;
                continue;
            }
            "enum" => {
                parse_enum(p, &full, enums)?;
                continue;
            }
            "oneof" => {
                oneof = Some(p.id()?);
                p.sym('{')?;
                continue;
            }
            "option" | "reserved" => {
                while p.next()? != Tok::Sym(';') {}
                continue;
            }
            _ => {}
        }
        let (label, ty, map_kv) = match first.as_str() {
            "optional" => (1u8, p.id()?, None),
            "repeated" => (2u8, p.id()?, None),
            "map" => {
                p.sym('<')?;
                let k = p.id()?;
                p.sym(',')?;
                let v = p.id()?;
                p.sym('>')?;
                (3u8, String::new(), Some((k, v)))
            }
            _ => (0u8, first, None),
        };
        let fname = p.id()?;
        p.sym('=')?;
        let number = p.num()? as u32;
        p.skip_options()?;
        p.sym(';')?;
        fields.push(RawField { name: fname, number, ty, label, map_kv, oneof: oneof.clone() });
    }
    raw.insert(full, fields);
    Ok(())
}

fn resolve(scope: &str, name: &str, msgs: &BTreeMap<String, Vec<RawField>>, enums: &BTreeMap<String, Vec<(String, i32)>>) -> Result<Ty, String> {
    match name {
        "uint64" => return Ok(Ty::U64),
        "int64" => return Ok(Ty::I64),
        "double" => return Ok(Ty::F64),
        "bool" => return Ok(Ty::Bool),
        "string" => return Ok(Ty::Str),
        "uint32" | "int32" | "sint32" | "sint64" | "fixed32" | "fixed64" | "sfixed32" | "sfixed64" | "float" | "bytes" => return Err(format!("scalar type {name} is not supported by the verification codec (schema changed)")),
        _ => {}
    }
    // search from the innermost scope outwards
    let mut sc = scope.to_string();
    loop {
        let cand = if sc.is_empty() { name.to_string() } else { format!("{sc}.{name}") };
        if msgs.contains_key(&cand) {
            return Ok(Ty::Msg(cand));
        }
        if enums.contains_key(&cand) {
            return Ok(Ty::Enum(cand));
        }
        match sc.rfind('.') {
            Some(i) => sc.truncate(i),
            None => {
                if sc.is_empty() {
                    break;
                }
                sc.clear();
            }
        }
    }
    Err(format!("cannot resolve type {name} in scope {scope}"))
}

pub fn schema_from_proto_dir(dir: &str) -> Result<Schema, String> {
    let mut raw = BTreeMap::new();
    let mut enums = BTreeMap::new();
    let mut files: Vec<_> = std::fs::read_dir(dir).map_err(|e| format!("{dir}: {e}"))?.filter_map(|e| e.ok()).map(|e| e.path()).filter(|p| p.extension().map(|e| e == "proto").unwrap_or(false)).collect();
    files.sort();
    if files.is_empty() {
        return Err(format!("no .proto files in {dir}"));
    }
    for f in files {
        let src = std::fs::read_to_string(&f).map_err(|e| format!("{}: {e}", f.display()))?;
        parse_file(&src, &mut raw, &mut enums).map_err(|e| format!("{}: {e}", f.display()))?;
    }
    let mut s = Schema { msgs: BTreeMap::new(), enums: enums.clone() };
    for (full, rf) in &raw {
        let mut fields = vec![];
        for f in rf {
            let (ty, label) = match f.label {
                3 => {
                    let (k, v) = f.map_kv.clone().unwrap();
                    let kt = resolve(full, &k, &raw, &enums)?;
                    let vt = resolve(full, &v, &raw, &enums)?;
                    (vt.clone(), Label::Map(Box::new(kt), Box::new(vt)))
                }
                l => {
                    let ty = resolve(full, &f.ty, &raw, &enums)?;
                    (ty, [Label::Singular, Label::Optional, Label::Repeated][l as usize].clone())
                }
            };
            fields.push(Field { name: f.name.clone(), number: f.number, ty, label, oneof: f.oneof.clone() });
        }
        fields.sort_by_key(|f| f.number);
        s.msgs.insert(full.clone(), Msg { fields });
    }
    Ok(s)
}

// ---------------------------------------------------------------------------------------
// raw wire reader
// ---------------------------------------------------------------------------------------

#[derive(Clone, Debug)]
pub enum Raw {
    Varint(u64),
    Fixed64(u64),
    Len(Vec<u8>),
    Fixed32(u32),
}

pub fn read_varint(b: &[u8], i: &mut usize) -> Result<u64, String> {
    let mut v: u64 = 0;
    let mut shift = 0;
    loop {
        let x = *b.get(*i).ok_or("truncated varint")?;
        *i += 1;
        if shift < 64 {
            v |= ((x & 0x7f) as u64) << shift;
        }
        if x & 0x80 == 0 {
            return Ok(v);
        }
        shift += 7;
        if shift > 70 {
            return Err("varint too long".into());
        }
    }
}

pub fn read_raw(b: &[u8]) -> Result<Vec<(u32, Raw)>, String> {
    let mut i = 0;
    let mut out = vec![];
    while i < b.len() {
        let key = read_varint(b, &mut i)?;
        let num = (key >> 3) as u32;
        if num == 0 {
            return Err("field number 0".into());
        }
        match key & 7 {
            0 => out.push((num, Raw::Varint(read_varint(b, &mut i)?))),
            1 => {
                let s = b.get(i..i + 8).ok_or("truncated fixed64")?;
                out.push((num, Raw::Fixed64(u64::from_le_bytes(s.try_into().unwrap()))));
                i += 8;
            }
            2 => {
                let n = read_varint(b, &mut i)? as usize;
                let s = b.get(i..i.checked_add(n).ok_or("length overflow")?).ok_or("truncated length-delimited field")?;
                out.push((num, Raw::Len(s.to_vec())));
                i += n;
            }
            5 => {
                let s = b.get(i..i + 4).ok_or("truncated fixed32")?;
                out.push((num, Raw::Fixed32(u32::from_le_bytes(s.try_into().unwrap()))));
                i += 4;
            }
            w => return Err(format!("unsupported wire type {w}")),
        }
    }
    Ok(out)
}

pub fn write_varint(out: &mut Vec<u8>, mut v: u64) {
    loop {
        let b = (v & 0x7f) as u8;
        v >>= 7;
        if v == 0 {
            out.push(b);
            return;
        }
        out.push(b | 0x80);
    }
}

// ---------------------------------------------------------------------------------------
// python bindings: serialized FileDescriptorProto inside *_pb2.py
// ---------------------------------------------------------------------------------------

fn python_bytes_literals(src: &str) -> Result<Vec<u8>, String> {
    let start = src.find("AddSerializedFile(").ok_or("no AddSerializedFile( in file")?;
    let b: Vec<char> = src[start + "AddSerializedFile(".len()..].chars().collect();
    let mut i = 0;
    let mut out: Vec<u8> = vec![];
    loop {
        while i < b.len() && b[i].is_whitespace() {
            i += 1;
        }
        if i >= b.len() {
            return Err("unterminated AddSerializedFile".into());
        }
        if b[i] == ')' {
            break;
        }
        if b[i] != 'b' {
            return Err(format!("expected bytes literal, found {:?}", b[i]));
        }
        i += 1;
        let q = b[i];
        if q != '\'' && q != '"' {
            return Err("expected quote".into());
        }
        i += 1;
        while i < b.len() && b[i] != q {
            if b[i] == '\\' {
                i += 1;
                let c = b[i];
                match c {
                    'n' => out.push(b'\n'),
                    'r' => out.push(b'\r'),
                    't' => out.push(b'\t'),
                    '\\' => out.push(b'\\'),
                    '\'' => out.push(b'\''),
                    '"' => out.push(b'"'),
                    'a' => out.push(7),
                    'b' => out.push(8),
                    'f' => out.push(12),
                    'v' => out.push(11),
                    'x' => {
                        let h: String = b[i + 1..i + 3].iter().collect();
                        out.push(u8::from_str_radix(&h, 16).map_err(|e| format!("bad \\x escape: {e}"))?);
                        i += 2;
                    }
                    '0'..='7' => {
                        let mut v = 0u32;
                        let mut k = 0;
                        while k < 3 && i < b.len() && ('0'..='7').contains(&b[i]) {
                            v = v * 8 + b[i].to_digit(8).unwrap();
                            i += 1;
                            k += 1;
                        }
                        i -= 1;
                        out.push(v as u8);
                    }
                    '\n' => {}
                    other => return Err(format!("unsupported escape \\{other}")),
                }
                i += 1;
            } else {
                let c = b[i];
                if (c as u32) > 127 {
                    return Err("non-ascii char in bytes literal".into());
                }
                out.push(c as u8);
                i += 1;
            }
        }
        i += 1;
    }
    Ok(out)
}

fn get_str(f: &[(u32, Raw)], n: u32) -> Option<String> {
    f.iter().rev().find_map(|(k, v)| match v {
        Raw::Len(b) if *k == n => String::from_utf8(b.clone()).ok(),
        _ => None,
    })
}
fn get_int(f: &[(u32, Raw)], n: u32) -> Option<u64> {
    f.iter().rev().find_map(|(k, v)| match v {
        Raw::Varint(x) if *k == n => Some(*x),
        _ => None,
    })
}
fn get_all(f: &[(u32, Raw)], n: u32) -> Vec<Vec<u8>> {
    f.iter().filter_map(|(k, v)| match v {
        Raw::Len(b) if *k == n => Some(b.clone()),
        _ => None,
    }).collect()
}

struct PyMsg {
    full: String,
    fields: Vec<(String, u32, u64 /*label*/, u64 /*type*/, String /*type_name*/, Option<u64> /*oneof idx*/, bool /*proto3_optional*/)>,
    oneofs: Vec<String>,
    map_entry: bool,
}

fn py_collect_message(bytes: &[u8], scope: &str, msgs: &mut Vec<PyMsg>, enums: &mut BTreeMap<String, Vec<(String, i32)>>) -> Result<(), String> {
    let f = read_raw(bytes)?;
    let name = get_str(&f, 1).ok_or("DescriptorProto without name")?;
    let full = format!("{scope}.{name}");
    let mut fields = vec![];
    for fb in get_all(&f, 2) {
        let ff = read_raw(&fb)?;
        fields.push((
            get_str(&ff, 1).ok_or("field without name")?,
            get_int(&ff, 3).ok_or("field without number")? as u32,
            get_int(&ff, 4).unwrap_or(1),
            get_int(&ff, 5).unwrap_or(0),
            get_str(&ff, 6).unwrap_or_default(),
            get_int(&ff, 9),
            get_int(&ff, 17).unwrap_or(0) != 0,
        ));
    }
    for nb in get_all(&f, 3) {
        py_collect_message(&nb, &full, msgs, enums)?;
    }
    for eb in get_all(&f, 4) {
        py_collect_enum(&eb, &full, enums)?;
    }
    let oneofs: Vec<String> = get_all(&f, 8).iter().map(|b| read_raw(b).ok().and_then(|x| get_str(&x, 1)).unwrap_or_default()).collect();
    let map_entry = get_all(&f, 7).iter().any(|b| read_raw(b).ok().and_then(|x| get_int(&x, 7)).unwrap_or(0) != 0);
    msgs.push(PyMsg { full, fields, oneofs, map_entry });
    Ok(())
}

fn py_collect_enum(bytes: &[u8], scope: &str, enums: &mut BTreeMap<String, Vec<(String, i32)>>) -> Result<(), String> {
    let f = read_raw(bytes)?;
    let name = get_str(&f, 1).ok_or("EnumDescriptorProto without name")?;
    let mut vals = vec![];
    for vb in get_all(&f, 2) {
        let vf = read_raw(&vb)?;
        vals.push((get_str(&vf, 1).ok_or("enum value without name")?, get_int(&vf, 2).unwrap_or(0) as i64 as i32));
    }
    enums.insert(format!("{scope}.{name}"), vals);
    Ok(())
}

fn py_scalar(t: u64) -> Result<Option<Ty>, String> {
    Ok(Some(match t {
        1 => Ty::F64,
        3 => Ty::I64,
        4 => Ty::U64,
        8 => Ty::Bool,
        9 => Ty::Str,
        11 | 14 => return Ok(None),
        other => return Err(format!("descriptor field type {other} is not supported by the verification codec")),
    }))
}

pub fn schema_from_python_dir(dir: &str) -> Result<Schema, String> {
    let mut files: Vec<_> = std::fs::read_dir(dir).map_err(|e| format!("{dir}: {e}"))?.filter_map(|e| e.ok()).map(|e| e.path()).filter(|p| p.file_name().map(|n| n.to_string_lossy().ends_with("_pb2.py")).unwrap_or(false)).collect();
    files.sort();
    if files.is_empty() {
        return Err(format!("no *_pb2.py files in {dir}"));
    }
    let mut pym: Vec<PyMsg> = vec![];
    let mut enums = BTreeMap::new();
    for f in files {
        let src = std::fs::read_to_string(&f).map_err(|e| format!("{}: {e}", f.display()))?;
        let bytes = python_bytes_literals(&src).map_err(|e| format!("{}: {e}", f.display()))?;
        let fd = read_raw(&bytes).map_err(|e| format!("{}: {e}", f.display()))?;
        let package = get_str(&fd, 2).unwrap_or_default();
        if get_str(&fd, 12).as_deref() != Some("proto3") {
            return Err(format!("{}: syntax is not proto3", f.display()));
        }
        for mb in get_all(&fd, 4) {
            py_collect_message(&mb, &package, &mut pym, &mut enums).map_err(|e| format!("{}: {e}", f.display()))?;
        }
        for eb in get_all(&fd, 5) {
            py_collect_enum(&eb, &package, &mut enums).map_err(|e| format!("{}: {e}", f.display()))?;
        }
    }
    let by_name: BTreeMap<String, &PyMsg> = pym.iter().map(|m| (m.full.clone(), m)).collect();
    let mut s = Schema { msgs: BTreeMap::new(), enums };
    let strip = |tn: &str| tn.trim_start_matches('.').to_string();
    for m in &pym {
        if m.map_entry {
            continue;
        }
        let mut fields = vec![];
        for (name, number, label, ty, type_name, oneof_idx, p3opt) in &m.fields {
            let tn = strip(type_name);
            let base = match py_scalar(*ty)? {
                Some(t) => t,
                None => {
                    if *ty == 14 {
                        Ty::Enum(tn.clone())
                    } else {
                        Ty::Msg(tn.clone())
                    }
                }
            };
            // map?
            let (ty2, label2) = if *label == 3 {
                if let (Ty::Msg(n), Some(e)) = (&base, by_name.get(&tn)) {
                    if e.map_entry {
                        let k = e.fields.iter().find(|f| f.1 == 1).ok_or("map entry without key")?;
                        let v = e.fields.iter().find(|f| f.1 == 2).ok_or("map entry without value")?;
                        let kt = py_scalar(k.3)?.ok_or("map key must be scalar")?;
                        let vt = match py_scalar(v.3)? {
                            Some(t) => t,
                            None => {
                                if v.3 == 14 {
                                    Ty::Enum(strip(&v.4))
                                } else {
                                    Ty::Msg(strip(&v.4))
                                }
                            }
                        };
                        let _ = n;
                        (vt.clone(), Label::Map(Box::new(kt), Box::new(vt)))
                    } else {
                        (base.clone(), Label::Repeated)
                    }
                } else {
                    (base.clone(), Label::Repeated)
                }
            } else if *p3opt {
                (base.clone(), Label::Optional)
            } else {
                (base.clone(), Label::Singular)
            };
            let oneof = if *p3opt { None } else { oneof_idx.and_then(|i| m.oneofs.get(i as usize).cloned()) };
            fields.push(Field { name: name.clone(), number: *number, ty: ty2, label: label2, oneof });
        }
        fields.sort_by_key(|f| f.number);
        s.msgs.insert(m.full.clone(), Msg { fields });
    }
    Ok(s)
}

// ---------------------------------------------------------------------------------------
// #[prost(...)] attributes of the generated Rust file, read textually
// ---------------------------------------------------------------------------------------

#[derive(Clone, Debug, PartialEq, Eq)]
pub struct RustField {
    pub name: String,
    pub number: u32,
    pub kind: String, // prost type keyword(s), e.g. "uint64", "message", "map=uint64,double", "enumeration=Equality"
    pub label: String, // "", "optional", "repeated"
}

/// struct name (Rust path relative to the file, e.g. "linear::Term") -> fields;  oneof enums likewise
pub fn rust_attrs(path: &str) -> Result<BTreeMap<String, Vec<RustField>>, String> {
    let src = std::fs::read_to_string(path).map_err(|e| format!("{path}: {e}"))?;
    let mut out: BTreeMap<String, Vec<RustField>> = BTreeMap::new();
    let mut mods: Vec<(String, usize)> = vec![]; // (module name, brace depth at which it was opened)
    let mut depth = 0usize;
    let mut cur: Option<(String, usize)> = None; // (type name, depth)
    let mut pending: Option<String> = None;
    for line in src.lines() {
        let l = line.trim();
        if let Some(rest) = l.strip_prefix("pub mod ") {
            let name = rest.trim_end_matches('{').trim().to_string();
            mods.push((name, depth));
        }
        let prefix = mods.iter().map(|m| m.0.clone()).collect::<Vec<_>>().join("::");
        let qualify = |n: &str| if prefix.is_empty() { n.to_string() } else { format!("{prefix}::{n}") };
        if let Some(rest) = l.strip_prefix("pub struct ").or_else(|| l.strip_prefix("pub enum ")) {
            // an attribute in front of a type (e.g. #[prost(skip_debug)]) is not a field attribute
            pending = None;
            let name = rest.split(|c: char| !c.is_alphanumeric() && c != '_').next().unwrap_or("").to_string();
            cur = Some((qualify(&name), depth));
            out.entry(qualify(&name)).or_default();
        }
        if l.starts_with("#[prost(") {
            pending = Some(l.trim_start_matches("#[prost(").trim_end_matches(")]").to_string());
        } else if let (Some(attr), Some((ty, _))) = (&pending, &cur) {
            // field or oneof-variant line following the attribute
            let fname = if let Some(rest) = l.strip_prefix("pub ") {
                rest.split(':').next().map(|s| s.trim().trim_start_matches("r#").to_string())
            } else if l.chars().next().map(|c| c.is_uppercase()).unwrap_or(false) {
                Some(l.split('(').next().unwrap_or("").to_string())
            } else {
                None
            };
            if let Some(fname) = fname {
                let mut number = 0u32;
                let mut kind = vec![];
                let mut label = String::new();
                let mut tags = String::new();
                for part in split_top(attr) {
                    let part = part.trim();
                    if let Some(t) = part.strip_prefix("tag = ") {
                        number = t.trim_matches('"').parse().unwrap_or(0);
                    } else if let Some(t) = part.strip_prefix("tags = ") {
                        tags = t.trim_matches('"').to_string();
                    } else if part == "optional" || part == "repeated" {
                        label = part.to_string();
                    } else if part == "packed = \"false\"" {
                        kind.push("unpacked".to_string());
                    } else {
                        kind.push(part.replace(' ', "").replace('"', ""));
                    }
                }
                let mut kind = kind.join(";");
                if !tags.is_empty() {
                    kind = format!("{kind};tags={tags}");
                }
                out.get_mut(ty).unwrap().push(RustField { name: fname, number, kind, label });
                pending = None;
            }
        }
        for c in l.chars() {
            if c == '{' {
                depth += 1;
            } else if c == '}' {
                depth = depth.saturating_sub(1);
                if let Some((_, d)) = &cur {
                    if depth == *d {
                        cur = None;
                    }
                }
                if let Some((_, d)) = mods.last() {
                    if depth == *d {
                        mods.pop();
                    }
                }
            }
        }
    }
    Ok(out)
}

fn split_top(s: &str) -> Vec<String> {
    // split on commas that are not inside quotes
    let mut out = vec![];
    let mut cur = String::new();
    let mut inq = false;
    for c in s.chars() {
        if c == '"' {
            inq = !inq;
        }
        if c == ',' && !inq {
            out.push(cur.clone());
            cur.clear();
        } else {
            cur.push(c);
        }
    }
    if !cur.trim().is_empty() {
        out.push(cur);
    }
    out
}

// ---------------------------------------------------------------------------------------
// dynamic values and codec
// ---------------------------------------------------------------------------------------

#[derive(Clone, Debug, PartialEq, Eq, PartialOrd, Ord)]
pub enum DKey {
    U64(u64),
    I64(i64),
    Bool(bool),
    Str(String),
}

#[derive(Clone, Debug, PartialEq)]
pub enum DV {
    U64(u64),
    I64(i64),
    F64(u64), // bits
    Bool(bool),
    Str(String),
    Enum(i32),
    Msg(DynMsg),
    List(Vec<DV>),
    Map(BTreeMap<DKey, DV>),
}

#[derive(Clone, Debug, PartialEq, Default)]
pub struct DynMsg {
    pub ty: String,
    /// only *present* fields (proto3 implicit-presence scalars holding their default are absent)
    pub f: BTreeMap<String, DV>,
}

impl DynMsg {
    pub fn new(ty: &str) -> Self {
        DynMsg { ty: ty.to_string(), f: BTreeMap::new() }
    }
}

fn is_default_scalar(v: &DV) -> bool {
    match v {
        DV::U64(x) => *x == 0,
        DV::I64(x) => *x == 0,
        DV::F64(b) => f64::from_bits(*b) == 0.0, // prost treats -0.0 like 0.0; the generator never puts -0.0 into implicit fields
        DV::Bool(b) => !*b,
        DV::Str(s) => s.is_empty(),
        DV::Enum(e) => *e == 0,
        _ => false,
    }
}

#[derive(Clone, Debug, Default)]
pub struct EncLayout {
    pub shuffle: Vec<u8>,
    pub unpacked: bool,
    pub split_runs: bool,
    pub explicit_defaults: bool,
    pub unknown_fields: bool,
    pub map_entry_swapped: bool,
}

fn enc_scalar(out: &mut Vec<u8>, v: &DV) {
    match v {
        DV::U64(x) => write_varint(out, *x),
        DV::I64(x) => write_varint(out, *x as u64),
        DV::Enum(x) => write_varint(out, *x as i64 as u64),
        DV::Bool(b) => write_varint(out, *b as u64),
        DV::F64(b) => out.extend_from_slice(&b.to_le_bytes()),
        _ => unreachable!(),
    }
}

fn wire_type(ty: &Ty) -> u64 {
    match ty {
        Ty::U64 | Ty::I64 | Ty::Bool | Ty::Enum(_) => 0,
        Ty::F64 => 1,
        Ty::Str | Ty::Msg(_) => 2,
    }
}

fn key(out: &mut Vec<u8>, number: u32, wt: u64) {
    write_varint(out, ((number as u64) << 3) | wt);
}

fn enc_single(s: &Schema, out: &mut Vec<u8>, number: u32, ty: &Ty, v: &DV, l: &EncLayout, depth: usize) {
    match (ty, v) {
        (Ty::Str, DV::Str(x)) => {
            key(out, number, 2);
            write_varint(out, x.len() as u64);
            out.extend_from_slice(x.as_bytes());
        }
        (Ty::Msg(_), DV::Msg(m)) => {
            let inner = encode(s, m, l, depth + 1);
            key(out, number, 2);
            write_varint(out, inner.len() as u64);
            out.extend_from_slice(&inner);
        }
        _ => {
            key(out, number, wire_type(ty));
            enc_scalar(out, v);
        }
    }
}

fn key_dv(k: &DKey) -> DV {
    match k {
        DKey::U64(x) => DV::U64(*x),
        DKey::I64(x) => DV::I64(*x),
        DKey::Bool(x) => DV::Bool(*x),
        DKey::Str(x) => DV::Str(x.clone()),
    }
}

/// Encode with a layout. Chunks per field are produced first and then emitted in a (possibly shuffled) order.
pub fn encode(s: &Schema, m: &DynMsg, l: &EncLayout, depth: usize) -> Vec<u8> {
    let desc = s.msgs.get(&m.ty).unwrap_or_else(|| panic!("codec: unknown message type {}", m.ty));
    let mut chunks: Vec<Vec<u8>> = vec![];
    for fd in &desc.fields {
        match m.f.get(&fd.name) {
            None => {
                if l.explicit_defaults && fd.label == Label::Singular && fd.oneof.is_none() && !matches!(fd.ty, Ty::Msg(_)) && (fd.number as usize + depth) % 3 == 0 {
                    // a default-valued implicit-presence scalar written explicitly
                    let dv = match &fd.ty {
                        Ty::U64 => DV::U64(0),
                        Ty::I64 => DV::I64(0),
                        Ty::F64 => DV::F64(0),
                        Ty::Bool => DV::Bool(false),
                        Ty::Str => DV::Str(String::new()),
                        Ty::Enum(_) => DV::Enum(0),
                        Ty::Msg(_) => unreachable!(),
                    };
                    let mut c = vec![];
                    enc_single(s, &mut c, fd.number, &fd.ty, &dv, l, depth);
                    chunks.push(c);
                }
            }
            Some(v) => match (&fd.label, v) {
                (Label::Repeated, DV::List(items)) => {
                    let packable = !matches!(fd.ty, Ty::Str | Ty::Msg(_));
                    if packable && !l.unpacked {
                        // packed, possibly split into two runs
                        let runs: Vec<&[DV]> = if l.split_runs && items.len() >= 2 { vec![&items[..items.len() / 2], &items[items.len() / 2..]] } else { vec![&items[..]] };
                        // runs of one repeated field must stay in order: one chunk
                        let mut c = vec![];
                        for r in runs {
                            let mut body = vec![];
                            for it in r {
                                enc_scalar(&mut body, it);
                            }
                            key(&mut c, fd.number, 2);
                            write_varint(&mut c, body.len() as u64);
                            c.extend_from_slice(&body);
                        }
                        chunks.push(c);
                    } else {
                        let mut c = vec![];
                        for it in items {
                            enc_single(s, &mut c, fd.number, &fd.ty, it, l, depth);
                        }
                        chunks.push(c);
                    }
                }
                (Label::Map(kt, vt), DV::Map(entries)) => {
                    let mut es: Vec<(&DKey, &DV)> = entries.iter().collect();
                    if l.map_entry_swapped {
                        es.reverse();
                    }
                    let mut c = vec![];
                    for (k, v) in es {
                        let mut body = vec![];
                        let kd = key_dv(k);
                        let mut kb = vec![];
                        let mut vb = vec![];
                        // default key / value may be omitted from the entry
                        if !(is_default_scalar(&kd) && l.explicit_defaults) {
                            enc_single(s, &mut kb, 1, kt, &kd, l, depth);
                        }
                        if !(is_default_scalar(v) && l.explicit_defaults) {
                            enc_single(s, &mut vb, 2, vt, v, l, depth);
                        }
                        if l.map_entry_swapped {
                            body.extend_from_slice(&vb);
                            body.extend_from_slice(&kb);
                        } else {
                            body.extend_from_slice(&kb);
                            body.extend_from_slice(&vb);
                        }
                        key(&mut c, fd.number, 2);
                        write_varint(&mut c, body.len() as u64);
                        c.extend_from_slice(&body);
                    }
                    chunks.push(c);
                }
                (_, v) => {
                    let mut c = vec![];
                    enc_single(s, &mut c, fd.number, &fd.ty, v, l, depth);
                    chunks.push(c);
                }
            },
        }
    }
    if l.unknown_fields {
        let used: Vec<u32> = desc.fields.iter().map(|f| f.number).collect();
        let mut c = vec![];
        let n1 = (1..60u32).find(|n| !used.contains(n) && *n > 12).unwrap_or(61);
        key(&mut c, n1, 0);
        write_varint(&mut c, 300);
        chunks.push(c);
        let mut c = vec![];
        key(&mut c, 1000 + depth as u32, 2);
        write_varint(&mut c, 3);
        c.extend_from_slice(b"abc");
        chunks.push(c);
        let mut c = vec![];
        key(&mut c, 536_870_911, 1);
        c.extend_from_slice(&1.5f64.to_le_bytes());
        chunks.push(c);
        let mut c = vec![];
        key(&mut c, 70, 5);
        c.extend_from_slice(&7u32.to_le_bytes());
        chunks.push(c);
    }
    // order
    if !l.shuffle.is_empty() {
        let mut t = Tape::new(&l.shuffle);
        // rotate by depth so nested messages use other orders
        for _ in 0..depth {
            t.byte();
        }
        // oneof members must not be reordered relative to each other (only one is present anyway)
        t.shuffle(&mut chunks);
    }
    chunks.concat()
}

fn dec_scalar(ty: &Ty, r: &Raw) -> Result<DV, String> {
    Ok(match (ty, r) {
        (Ty::U64, Raw::Varint(x)) => DV::U64(*x),
        (Ty::I64, Raw::Varint(x)) => DV::I64(*x as i64),
        (Ty::Bool, Raw::Varint(x)) => DV::Bool(*x != 0),
        (Ty::Enum(_), Raw::Varint(x)) => DV::Enum(*x as i64 as i32),
        (Ty::F64, Raw::Fixed64(b)) => DV::F64(*b),
        (Ty::Str, Raw::Len(b)) => DV::Str(String::from_utf8(b.clone()).map_err(|_| "invalid utf-8 in string field")?),
        (t, r) => return Err(format!("wire type mismatch for {t:?}: {r:?}")),
    })
}

fn dec_packed(ty: &Ty, b: &[u8]) -> Result<Vec<DV>, String> {
    let mut i = 0;
    let mut out = vec![];
    while i < b.len() {
        match ty {
            Ty::F64 => {
                let s = b.get(i..i + 8).ok_or("truncated packed double")?;
                out.push(DV::F64(u64::from_le_bytes(s.try_into().unwrap())));
                i += 8;
            }
            _ => {
                let v = read_varint(b, &mut i)?;
                out.push(dec_scalar(ty, &Raw::Varint(v))?);
            }
        }
    }
    Ok(out)
}

pub fn dkey(v: DV) -> Result<DKey, String> {
    Ok(match v {
        DV::U64(x) => DKey::U64(x),
        DV::I64(x) => DKey::I64(x),
        DV::Bool(x) => DKey::Bool(x),
        DV::Str(x) => DKey::Str(x),
        _ => return Err("bad map key type".into()),
    })
}

fn default_of(ty: &Ty) -> DV {
    match ty {
        Ty::U64 => DV::U64(0),
        Ty::I64 => DV::I64(0),
        Ty::F64 => DV::F64(0),
        Ty::Bool => DV::Bool(false),
        Ty::Str => DV::Str(String::new()),
        Ty::Enum(_) => DV::Enum(0),
        Ty::Msg(n) => DV::Msg(DynMsg::new(n)),
    }
}

/// Decode against the schema. Returns the message and the number of unknown fields seen (recursively).
pub fn decode(s: &Schema, ty: &str, bytes: &[u8]) -> Result<(DynMsg, usize), String> {
    let desc = s.msgs.get(ty).ok_or_else(|| format!("codec: unknown message type {ty}"))?;
    let raw = read_raw(bytes)?;
    let mut m = DynMsg::new(ty);
    let mut unknown = 0usize;
    for (num, r) in raw {
        let Some(fd) = desc.fields.iter().find(|f| f.number == num) else {
            unknown += 1;
            continue;
        };
        match &fd.label {
            Label::Repeated => {
                let entry = m.f.entry(fd.name.clone()).or_insert_with(|| DV::List(vec![]));
                let DV::List(items) = entry else { unreachable!() };
                match (&fd.ty, &r) {
                    (Ty::Msg(n), Raw::Len(b)) => {
                        let (x, u) = decode(s, n, b)?;
                        unknown += u;
                        items.push(DV::Msg(x));
                    }
                    (Ty::Str, _) => items.push(dec_scalar(&fd.ty, &r)?),
                    (t, Raw::Len(b)) => items.extend(dec_packed(t, b)?),
                    (t, r) => items.push(dec_scalar(t, r)?),
                }
            }
            Label::Map(kt, vt) => {
                let Raw::Len(b) = &r else { return Err("map entry must be length-delimited".into()) };
                let mut k = default_of(kt);
                let mut v = default_of(vt);
                for (n2, r2) in read_raw(b)? {
                    match n2 {
                        1 => k = dec_scalar(kt, &r2)?,
                        2 => {
                            v = match (&**vt, &r2) {
                                (Ty::Msg(n), Raw::Len(bb)) => {
                                    let (x, u) = decode(s, n, bb)?;
                                    unknown += u;
                                    DV::Msg(x)
                                }
                                (t, r2) => dec_scalar(t, r2)?,
                            }
                        }
                        _ => unknown += 1,
                    }
                }
                let entry = m.f.entry(fd.name.clone()).or_insert_with(|| DV::Map(BTreeMap::new()));
                let DV::Map(mm) = entry else { unreachable!() };
                mm.insert(dkey(k)?, v);
            }
            _ => {
                let v = match (&fd.ty, &r) {
                    (Ty::Msg(n), Raw::Len(b)) => {
                        let (x, u) = decode(s, n, b)?;
                        unknown += u;
                        DV::Msg(x)
                    }
                    (t, r) => dec_scalar(t, r)?,
                };
                // a oneof keeps only the last member seen
                if let Some(o) = &fd.oneof {
                    let others: Vec<String> = desc.fields.iter().filter(|f| f.oneof.as_ref() == Some(o) && f.name != fd.name).map(|f| f.name.clone()).collect();
                    for n in others {
                        m.f.remove(&n);
                    }
                }
                m.f.insert(fd.name.clone(), v);
            }
        }
    }
    // normalise: implicit-presence scalars holding the default are absent; empty lists / maps are absent
    let names: Vec<String> = m.f.keys().cloned().collect();
    for n in names {
        let fd = desc.fields.iter().find(|f| f.name == n).unwrap();
        let drop = match (&fd.label, &m.f[&n]) {
            (Label::Singular, v) if fd.oneof.is_none() && !matches!(fd.ty, Ty::Msg(_)) => is_default_scalar(v),
            (Label::Repeated, DV::List(x)) => x.is_empty(),
            (Label::Map(..), DV::Map(x)) => x.is_empty(),
            _ => false,
        };
        if drop {
            m.f.remove(&n);
        }
    }
    Ok((m, unknown))
}

// ---------------------------------------------------------------------------------------
// generator of dynamic messages from a schema
// ---------------------------------------------------------------------------------------

const U64S: [u64; 8] = [0, 1, 127, 128, 300, 1 << 32, (1 << 53) + 1, u64::MAX];
const I64S: [i64; 7] = [0, 1, -1, 63, -64, i64::MAX, i64::MIN];
const F64S: [f64; 8] = [1.0, -2.5, 0.1, 1e300, -1e-300, 5e-324, f64::INFINITY, -0.0];
const STRS: [&str; 6] = ["", "x", "name with spaces", "αβγ 日本", "a,b;c\"d", "0123456789012345678901234567890123456789"];

pub fn gen_scalar(t: &mut Tape, s: &Schema, ty: &Ty, allow_default: bool) -> DV {
    loop {
        let v = match ty {
            Ty::U64 => DV::U64(*t.pick(&U64S)),
            Ty::I64 => DV::I64(*t.pick(&I64S)),
            Ty::F64 => DV::F64(t.pick(&F64S).to_bits()),
            Ty::Bool => DV::Bool(t.coin()),
            Ty::Str => DV::Str((*t.pick(&STRS)).to_string()),
            Ty::Enum(n) => {
                let vals = &s.enums[n];
                // declared values and, rarely, an undeclared number (open enums keep it)
                if t.p(16) {
                    DV::Enum(77)
                } else {
                    DV::Enum(t.pick(vals).1)
                }
            }
            Ty::Msg(_) => unreachable!(),
        };
        if allow_default || !is_default_scalar(&v) {
            // -0.0 is indistinguishable from absence for prost in implicit-presence fields
            if !allow_default {
                if let DV::F64(b) = &v {
                    if f64::from_bits(*b) == 0.0 {
                        continue;
                    }
                }
            }
            return v;
        }
        if t.exhausted() {
            // all-zero tape: pick a fixed non-default
            return match ty {
                Ty::U64 => DV::U64(1),
                Ty::I64 => DV::I64(1),
                Ty::F64 => DV::F64(1.0f64.to_bits()),
                Ty::Bool => DV::Bool(true),
                Ty::Str => DV::Str("x".into()),
                Ty::Enum(_) => DV::Enum(1),
                Ty::Msg(_) => unreachable!(),
            };
        }
    }
}

pub fn gen_msg(t: &mut Tape, s: &Schema, ty: &str, depth: usize) -> DynMsg {
    let desc = &s.msgs[ty];
    let mut m = DynMsg::new(ty);
    // oneofs: choose at most one member
    let mut oneof_choice: BTreeMap<String, Option<String>> = BTreeMap::new();
    for fd in &desc.fields {
        if let Some(o) = &fd.oneof {
            oneof_choice.entry(o.clone()).or_insert(None);
        }
    }
    for (o, ch) in oneof_choice.iter_mut() {
        let members: Vec<&Field> = desc.fields.iter().filter(|f| f.oneof.as_ref() == Some(o)).collect();
        let k = t.choice(members.len() + 1);
        if k > 0 {
            *ch = Some(members[k - 1].name.clone());
        }
    }
    let present_p = if depth >= 3 { 60 } else { 150 };
    for fd in &desc.fields {
        if let Some(o) = &fd.oneof {
            if oneof_choice[o].as_deref() != Some(fd.name.as_str()) {
                continue;
            }
            let v = match &fd.ty {
                Ty::Msg(n) => DV::Msg(gen_msg(t, s, n, depth + 1)),
                ty => gen_scalar(t, s, ty, true),
            };
            m.f.insert(fd.name.clone(), v);
            continue;
        }
        if !t.p(present_p) {
            continue;
        }
        match &fd.label {
            Label::Singular => match &fd.ty {
                Ty::Msg(n) => {
                    if depth < 4 {
                        m.f.insert(fd.name.clone(), DV::Msg(gen_msg(t, s, n, depth + 1)));
                    }
                }
                ty => {
                    m.f.insert(fd.name.clone(), gen_scalar(t, s, ty, false));
                }
            },
            Label::Optional => match &fd.ty {
                Ty::Msg(n) => {
                    if depth < 4 {
                        m.f.insert(fd.name.clone(), DV::Msg(gen_msg(t, s, n, depth + 1)));
                    }
                }
                ty => {
                    m.f.insert(fd.name.clone(), gen_scalar(t, s, ty, true));
                }
            },
            Label::Repeated => {
                let n = 1 + t.choice(if depth >= 2 { 2 } else { 4 });
                let mut items = vec![];
                for _ in 0..n {
                    match &fd.ty {
                        Ty::Msg(mn) => {
                            if depth < 4 {
                                items.push(DV::Msg(gen_msg(t, s, mn, depth + 1)))
                            }
                        }
                        ty => items.push(gen_scalar(t, s, ty, true)),
                    }
                }
                if !items.is_empty() {
                    m.f.insert(fd.name.clone(), DV::List(items));
                }
            }
            Label::Map(kt, vt) => {
                let n = 1 + t.choice(3);
                let mut mm = BTreeMap::new();
                for _ in 0..n {
                    let k = dkey(gen_scalar(t, s, kt, true)).unwrap();
                    let v = match &**vt {
                        Ty::Msg(mn) => {
                            if depth >= 4 {
                                continue;
                            }
                            DV::Msg(gen_msg(t, s, mn, depth + 1))
                        }
                        ty => gen_scalar(t, s, ty, true),
                    };
                    mm.insert(k, v);
                }
                if !mm.is_empty() {
                    m.f.insert(fd.name.clone(), DV::Map(mm));
                }
            }
        }
    }
    m
}

/// number of populated fields (recursively) and whether a nested / map / oneof field is populated
pub fn msg_stats(s: &Schema, m: &DynMsg) -> (usize, bool) {
    let desc = &s.msgs[&m.ty];
    let mut n = 0;
    let mut rich = false;
    for (k, v) in &m.f {
        n += 1;
        let fd = desc.fields.iter().find(|f| &f.name == k).unwrap();
        if fd.oneof.is_some() || matches!(fd.label, Label::Map(..)) || matches!(v, DV::Msg(_)) {
            rich = true;
        }
        match v {
            DV::Msg(x) => n += msg_stats(s, x).0,
            DV::List(xs) => {
                for x in xs {
                    if let DV::Msg(x) = x {
                        rich = true;
                        n += msg_stats(s, x).0;
                    }
                }
            }
            _ => {}
        }
    }
    (n, rich)
}
