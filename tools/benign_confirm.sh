#!/bin/bash
# tools/benign_confirm.sh <ID> <x|y|z>   (PHASE=confirm | check)
# Property-PRESERVING changes written by sub-agents (/tmp/seed8/<ID>-ben/<v>.diff): the check must stay silent on them.
# confirm: in the scratch worktree, the 102 unit tests pass with the change. check: apply to /repo transiently, run the
# property's quick check, revert; record under /verif/benign/<ID>-<v>/.
ID=$1; V=$2
R=${SEED_ROOT:-/tmp/seed8}; W=$R/$ID; O=$R/$ID-${BEN:-ben}
[ -f $O/$V.diff ] || { echo "no $O/$V.diff"; exit 1; }
export CARGO_NET_OFFLINE=true
if [ "${PHASE:-all}" != check ]; then
  cd $W || exit 1
  git checkout -q -- . ; rm -rf rust/ommx/tests
  git apply $O/$V.diff || { echo "patch does not apply"; exit 1; }
  unit=$(cargo test -p ommx --lib --offline 2>&1 | grep -E "^test result" | head -1)
  git checkout -q -- .
  echo "$unit" > $O/confirm_$V.txt
  echo "$ID-$V unit: $unit"
fi
[ "${PHASE:-all}" = confirm ] && exit 0
unit=$(cat $O/confirm_$V.txt)
cd /repo; [ -z "$(git status --porcelain)" ] || { echo "/repo dirty"; exit 1; }
git apply $O/$V.diff || { echo "patch does not apply to /repo"; exit 1; }
out=$(cd /verif && VERIF_EVIDENCE_DIR=/verif/target/side-evidence ./check $ID quick 2>&1); rc=$?
git -C /repo checkout -q -- .
line=$(echo "$out" | grep -E "FAILURE|INCONCLUSIVE|^OK" | head -1)
echo "$ID-$V rc=$rc $line"
D=/verif/benign/$ID-$V; mkdir -p $D
cp $O/$V.diff $D/patch.diff
[ -f $O/show_$V.rs ] && cp $O/show_$V.rs $D/show.rs
python3 - "$ID" "$V" "$unit" "$rc" "$line" "$O/NOTES.md" <<'PY'
import json,sys
i,v,un,rc,line,notes=sys.argv[1:7]
meta={"property":i,"variant":v,"kind":"property-preserving change (the check must stay silent)",
 "unit_tests_with_change":un,"check_result":f"rc={rc} {line}",
 "origin":"written by a sub-agent that saw only the property text and its own scratch worktree",
 "notes_from_author":open(notes).read()[:8000]}
json.dump(meta,open(f'/verif/benign/{i}-{v}/meta.json','w'),indent=1)
PY
