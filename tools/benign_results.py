#!/usr/bin/env python3
"""Regenerates /verif/benign/RESULTS.md from the per-change meta.json files."""
import json,glob,os
rows=[]
for d in sorted(glob.glob('/verif/benign/C*-*/')):
    n=os.path.basename(d.rstrip('/')); m=json.load(open(d+'meta.json'))
    res=m.get('check_result','')
    first=m.get('first_result','')
    rows.append((n,m['property'],'silent' if res.startswith('rc=0') else 'ALARM: '+res[:80], first))
out=['# Property-preserving changes written by independent sub-agents','',
'Each directory holds `patch.diff` (a change of Jij-Inc/ommx that alters observable behaviour but keeps every clause of the property true; apply with `git -C /repo apply`, undo with `git -C /repo checkout -- .`), optionally `show.rs` (an integration test that passes on both trees and prints the difference) and `meta.json` (the author\'s clause-by-clause argument, the unit-test result with the change, and the result of the property\'s quick check, which must be silent). `tools/trybenign.sh <name>` re-runs one of them.',
'Alarms raised when a wave was first run are listed in DESIGN.md §7.3 together with the correction of the check; the table below is the state after the corrections.','',
'| change | property | quick check |','|---|---|---|']
for r in rows: out.append(f'| {r[0]} | {r[1]} | {r[2]} |')
out+=['',f'{len(rows)} changes, {sum(1 for r in rows if r[2]=="silent")} silent.']
open('/verif/benign/RESULTS.md','w').write('\n'.join(out)+'\n')
print(len(rows), sum(1 for r in rows if r[2]=="silent"))
