#!/bin/bash
# tools/coverage.sh [ID ...]
# Measures which lines of /repo/rust/ommx/src the quick tier of the given checks (default: all twenty) executes.
# Builds the harness with -C instrument-coverage (nightly toolchain, whose llvm-tools match) into /verif/target/cov,
# runs the quick tiers (all sweeps; random phase with 1/10 of the cases, the counters make 16 threads slow), merges the profiles and writes
#   /verif/target/cov/report.txt        per-file line/region/function summary (SDK sources only)
#   /verif/target/cov/uncovered.txt     uncovered source lines of the SDK, per file (test modules excluded)
# This is a measuring aid for generator gaps ("measure what the generator actually produces"); it is not a check,
# writes no evidence, and nothing registered in MANIFEST.json depends on it.
set -u
cd /verif/harness || exit 2
export CARGO_NET_OFFLINE=true
T=/verif/target/cov
BIN=$T/release/ommx-verif
TOOLS=$(rustc +nightly --print sysroot)/lib/rustlib/x86_64-unknown-linux-gnu/bin
mkdir -p $T/prof
LLVM_PROFILE_FILE=$T/build-junk/%p-%m.profraw RUSTFLAGS="-C instrument-coverage" cargo +nightly build --release --offline --target-dir $T 2>&1 | tail -2
[ -x $BIN ] || { echo "coverage build failed"; exit 2; }
rm -rf $T/build-junk; rm -f $T/prof/*.profraw
IDS=${*:-C01 C02 C03 C04 C05 C06 C07 C08 C09 C10 C11 C12 C13 C14 C15 C16 C17 C18 C19 C20}
for id in $IDS; do
  # evidence must not be overwritten by the instrumented run: point it elsewhere
  LLVM_PROFILE_FILE="$T/prof/$id-%m.profraw" VERIF_CASES_DIV=${VERIF_CASES_DIV:-10} VERIF_EVIDENCE_DIR=$T/evidence VERIF_SEED=${VERIF_SEED:-1} $BIN run $id quick 2>&1 | grep -E "^OK|VIOLATION|INCONCLUSIVE" | head -2
done
$TOOLS/llvm-profdata merge -sparse $T/prof/*.profraw -o $T/merged.profdata || exit 2
$TOOLS/llvm-cov report $BIN -instr-profile=$T/merged.profdata --ignore-filename-regex='(\.cargo|/rustc/|/verif/)' > $T/report.txt
$TOOLS/llvm-cov show $BIN -instr-profile=$T/merged.profdata --ignore-filename-regex='(\.cargo|/rustc/|/verif/)' --show-line-counts-or-regions=false > $T/show.txt
python3 /verif/tools/coverage_uncovered.py $T/show.txt > $T/uncovered.txt
tail -3 $T/report.txt
echo "details: $T/report.txt $T/uncovered.txt"
