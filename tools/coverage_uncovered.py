#!/usr/bin/env python3
"""Reads `llvm-cov show` text output and prints, per SDK source file, the uncovered executable lines
(count 0), skipping everything after the first `#[cfg(test)]` of a file (unit-test modules)."""
import sys,re
cur=None; intest=False; out={}
for line in open(sys.argv[1], errors='replace'):
    if line.startswith('/') and line.rstrip().endswith(':'):
        cur=line.rstrip()[:-1]; intest=False; out[cur]=[]; continue
    m=re.match(r'\s*(\d+)\|\s*([0-9.kME]*)\|(.*)$', line)
    if not m or cur is None: continue
    no,cnt,src=m.groups()
    if '#[cfg(test)]' in src: intest=True
    if intest: continue
    if cnt=='0': out[cur].append((int(no),src))
for f,ls in sorted(out.items()):
    if not ls: continue
    print(f"== {f} ({len(ls)} uncovered lines)")
    for no,src in ls: print(f"{no:5d}: {src}")
