#!/usr/bin/env python3
"""Regenerates /verif/MANIFEST.json from the table below (kept in one place so that the
manifest is always valid and current)."""
import json, sys

CHECKS = {
 # id: (technique, level text, level note, design ref)
 "C02": ("proptest-driven generation over the full operation table (every Add/Sub/Mul/Neg impl, 7 operand kinds, both orders, Sum/Product, term iterator) vs exact polynomial ring operations",
         "Generated-input search with an independent exact-rational polynomial oracle, coefficient by coefficient: bit-exact for dyadic operands, rigorous rounding + documented epsilon-drop allowance otherwise; every table row is required to be exercised.",
         "Trusts num-bigint/num-rational and the raw-field reader; Function operands have their oneof set; quadratic operands have no duplicated position (per the property's quantifier).",
         "DESIGN.md §5 C02"),
 "C03": ("proptest-driven generation of functions/constraints/instances x state splits (one- and two-step, both orders) vs exact partial evaluation and the reference evaluator",
         "Generated-input search: polynomial of the partially evaluated message compared coefficient-wise with the exact partial evaluation (bit-exact dyadic / rigorous bound), returned id sets bracketed, fixed values recorded on the fixed variables, id / kind / effective bound of every variable kept, remainder evaluated and compared with the reference evaluator at the combined assignment.",
         "Trusts harness/src/exact.rs and model.rs; states in-bound; a dependent variable is fixed only at the value its definition gives it; documented sub-epsilon drops are allowed for in the bound.",
         "DESIGN.md §5 C03"),
 "C04": ("proptest-driven generation of replacement maps / successive substitutions / log_encode->substitute and of dependency graphs, the latter evaluated under every iteration order of the dependency HashMap, vs exact simultaneous composition and topological evaluation",
         "Generated-input search plus exhaustive enumeration of the n! (n<=5) iteration orders of the dependency map per graph (map rebuilt with fresh hashers until all permutations were observed); cyclic, self-referential and dangling graphs must be rejected under every order.",
         "Trusts exact.rs/model.rs; the order space is exhausted from outside, so the verdict is independent of which order came when; instance-level replacements mention only remaining variables.",
         "DESIGN.md §5 C04"),
 "C05": ("proptest-driven generation of valid instances x state classes (placed tolerances, bound violations, missing variables) vs an independent reference evaluator over exact rationals",
         "Generated-input search; the oracle implements the statement literally (objective, every active+removed constraint once with metadata, both feasibility flags, completed state, rejections); flags are only asserted outside the rounding margin around 1e-6.",
         "Trusts the reference evaluator in harness/src/model.rs and num-rational; states do not assign dependent variables.",
         "DESIGN.md §5 C05"),
 "C06": ("proptest-driven generation of instances x Samples groupings (shared entries, duplicate states, colliding values, omitted irrelevant variables) with a differential oracle against single-sample evaluation and a re-grouping metamorphic relation",
         "Generated-input search: every extracted sample must equal the single evaluation of its state (objective, constraints with metadata, both flags, state, variables), tables keyed by exactly the submitted ids, invariant under re-grouping.",
         "Single-sample evaluation is the reference (tied to the independent model by C05); states in-bound; sample ids distinct.",
         "DESIGN.md §5 C06"),
 "C07": ("independent schema-driven codec: proptest-driven random dynamic messages for every message type from two descriptor sources (.proto text, protoc descriptors embedded in the Python bindings), encoded in random legal layouts, decoded by the Rust bindings, projected by field name and re-encoded; exhaustive sweeps for descriptor agreement (.proto vs Python vs #[prost] attributes), every enum value and the bundled old artifact",
         "Generated-input search against a codec and schema readers that share nothing with prost/protoc; the finite configuration space (all 31 messages, all fields, all enum numbers, three descriptor sources) is enumerated completely in every run.",
         "Python runtime not installed: the Python bindings are represented by their serialized descriptors; NaN excluded; -0.0 kept out of implicit-presence doubles and map values (prost quirk).",
         "DESIGN.md §5 C07"),
 "C08": ("fault enumeration inside proptest-generated valid bases: every single fault at every position (duplicate ids, undefined ids in three syntactic places, each unset required field, each invalid bound shape, hint and dependency faults) plus generated pairs, against an independent well-formedness predicate with expected error class and path",
         "Per generated base instance the single-fault space is enumerated completely; validate() must fail iff one of its three rules is broken, the typed conversion must fail with the matching error class and outermost path for every listed rule and accept (with equal typed content, also under permutation) every well-formed base.",
         "Whether the typed conversion rejects undefined variable ids inside functions is not asserted (statement lists it under validation).",
         "DESIGN.md §5 C08"),
 "C09": ("proptest-driven generation of instances x {penalty_method, uniform_penalty_method} x weights vs exact polynomial f + sum w g^2 in the joint variables and a bookkeeping model",
         "Generated-input search with an exact-rational oracle for the parametric objective (coefficient-wise in (x, w), also after instantiating the weights) and a model of which constraints (id, equality, function as a polynomial), weight parameters (ids, tags) and carried parts (variables, sense, dependencies) must be present; hints, descriptions, names and reasons are recorded but not asserted.",
         "Trusts exact.rs; variable ids below u64::MAX-8.",
         "DESIGN.md §5 C09"),
 "C10": ("proptest-driven generation of parametric instances x parameter assignments (complete, extras, missing) vs exact partial evaluation at p; instance->parametric->instance round trip",
         "Generated-input search: objective and every active constraint compared coefficient-wise with the exact partial evaluation, variables / removed constraints / hints unchanged (any list order), values of the declared parameters recorded, missing parameter rejected.",
         "Trusts exact.rs.",
         "DESIGN.md §5 C10"),
 "C11": ("proptest-driven generation of binary objectives in any representation; oracle = exact evaluation on all 2^n assignments plus uniqueness of the multilinear form; each refusal condition generated",
         "Generated-input search with exhaustive enumeration of all 2^n binary assignments per case (n<=8 quick, <=12 thorough) in exact arithmetic; canonical keys, no stored zeros, refusals.",
         "Trusts exact.rs.",
         "DESIGN.md §5 C11"),
 "C12": ("exhaustive sweep over lower in [-6,6] x every width (0..600 quick, 0..4097 thorough) with all bit patterns enumerated, plus proptest-driven wide/fractional ranges (complete-sequence criterion) and every error class; infinite/NaN classes executed in a child process under a time and memory limit",
         "Exploration with an exhaustively enumerated sub-space; 'an error, not a hang' is decided by a watchdogged child process (20 s, 4 GB: more than 10^6 times the normal cost).",
         "Existing variable ids far below u64::MAX.",
         "DESIGN.md §5 C12"),
 "C13": ("proptest-driven generation of small integer boxes x rational-coefficient inequalities x limits; oracle = brute force over every lattice point and every slack value in exact rational arithmetic",
         "Generated-input search; per case the feasible sets before/after are compared on the complete lattice (<=343 points) and all slack values (affine-interval argument above 4096 values); outcome-specific checks for converted / relaxed / infeasible / rejected; the introduced variable is identified by its fresh id, its range read from its bound; fixed sweep over variables bounded on one side only (always-holds => relaxed, no finite slack range => error without modification).",
         "Tolerance 1e-6 as in the SDK's feasibility test, intended values separated by >=1e-3; converse directions only for (normalised) linear functions.",
         "DESIGN.md §5 C13"),
 "C15": ("proptest-driven generation of instances of both senses, evaluated sample sets and hand-built SampleSet messages in current and 1.6 encodings (through protobuf bytes); oracle = exact negation / brute-force arg-best",
         "Generated-input search; the chosen sample is checked against a brute-force scan of the feasibility/objective table for both feasibility notions and both senses, failure iff no sample is feasible.",
         "Pre-1.6 messages with only `feasible` are not generated (no documented reading).",
         "DESIGN.md §5 C15"),
 "C16": ("exhaustive sweep over all ordered pairs of endpoint-class intervals x {+,*,^0..8,scale,shift} with placed points, plus proptest-driven random intervals, evaluate_bound over boxes, as_integer_bound and content_factor; oracle = exact rational pointwise values",
         "Exploration with an exhaustively enumerated corner-class sub-space (every combination of {-inf, negative, -0, 0, positive, +inf} endpoint classes); containment exact for dyadic data, relative 1e-9 otherwise; every spelling of an operator (binary, reversed, assign form) is held to enclosure itself; invalid intervals and panics are failures.",
         "Scaling by 0 excluded by the statement; as_integer_bound only on intervals containing an integer; magnitudes <= 1e6.",
         "DESIGN.md §5 C16"),
 "C17": ("proptest-driven generation of abstract LP/MIP models rendered by an independent free-format MPS writer in generated layouts (3/5-field, tabs, comments, OBJSENSE variants, gzip) and with injected errors; oracle = the abstract model (matching by name, exact polynomials, value domains)",
         "Generated-input search with an independent writer, so the reader is compared with the problem the file describes rather than with the SDK's own writer; every row type, bound keyword, range sign and error class is required to occur.",
         "UP 0 without LO, RANGES 0, several N rows, tab-indented lines and RHS on undeclared rows are not generated (no agreed meaning).",
         "DESIGN.md §5 C17"),
 "C18": ("proptest-driven generation of linear instances -> mps::write_file -> mps::load_file round trip through real gzip files; oracle = the generated instance (polynomials by id, equality kinds, value domains); nonlinear instances must be refused naming the offender",
         "Generated-input round-trip search over bound shapes (absent, half-infinite, negative, fractional), kinds, senses, non-contiguous ids, constant-only constraints.",
         "Names/metadata/removed constraints documented as not preserved; linear functions normalised.",
         "DESIGN.md §5 C18"),
 "C19": ("sweep over all 120 problem-type codes plus proptest-driven abstract QPs rendered by an independent QPLIB writer (comments, blank lines, trailing text, capitalisation), injected token errors and truncation after every line; oracle = abstract model and the physical line recorded by the writer",
         "Exploration with the 120-code configuration space swept completely in every run; objective/constraint polynomials exact (1/2 x'Qx convention), value domains, names, one <=0 constraint per finite side, errors must carry the recorded line number (any rendering); variables matched by id rank.",
         "Multiple blanks inside entry lines, index 0, over-long counts and upper-triangle entries are not generated (no documented expectation).",
         "DESIGN.md §5 C19"),
 "C20": ("model-based testing: generated histories of add_* operations with annotation maps built through the typed setters, archives built locally and re-opened, compared with an in-memory model; a non-OMMX image built with ocipkg's own builder",
         "Generated operation sequences (0..6 layers, four kinds, empty and repeated messages, identical bytes under different kinds) checked after build() and after from_oci_archive(): order, media types, messages, annotations, typed accessors, wrong-kind and unknown-digest requests, list accessors.",
         "Local unnamed archives only; the process runs under a non-UTC local time zone (chosen from VERIF_SEED, recorded in replay files); with one message stored twice under one kind the digest may return either copy's annotations.",
         "DESIGN.md §5 C20"),
 "C14": ("model-based stateful testing: generated relax/restore/evaluate histories interpreted against a two-map model with invariants checked after every step",
         "Generated operation sequences (<=8 quick, <=20 thorough) with ids from active/removed/unknown; Ok/Err, unchanged-on-error, constraint collection, list membership, reasons, per-state values and feasibility invariance checked after every step.",
         "Trusts the model in props/c14.rs and the reference evaluator.",
         "DESIGN.md §5 C14"),
 "C01": ("proptest-driven choice-tape generation of function messages in every representation vs exact-rational oracle (bit-exact in dyadic regime, rigorous rounding bound otherwise)",
         "Generated-input search: every oneof state and wire-legal representation of functions up to degree 4, total and one-missing states, typed and sample-set entry points, compared against an exact BigRational evaluation of the raw message fields; no absence proof.",
         "Trusts num-bigint/num-rational, proptest's runner (search only) and the harness's raw-field reader; coefficient/value magnitudes bounded away from f64 overflow.",
         "DESIGN.md §5 C01"),
}

NOT_YET = {
}

ALL = ["C%02d" % i for i in range(1, 21)]

def main():
    checks = []
    for pid in ALL:
        if pid not in CHECKS:
            continue
        tech, text, note, ref = CHECKS[pid]
        checks.append({
            "property_id": pid,
            "quick_cmd": f"./check {pid} quick",
            "thorough_cmd": f"./check {pid} thorough",
            "evidence_file": f"/verif/evidence/{pid}.json",
            "replay_cmd_template": "./check replay {path}",
            "engine": "ommx-verif",
            "level_claimed": {"category": "exploration", "text": text, "design_ref": ref},
            "level_note": note,
            "technique": tech,
        })
    na = []
    for pid in ALL:
        if pid not in CHECKS:
            na.append({"property_id": pid, "reason": NOT_YET.get(pid, "check not built yet (work in progress; the design in DESIGN.md §5 applies the same technique)")})
    m = {
        "version": 1,
        "setup_cmd": "./check build",
        "hooks": {
            "guard": "ommx_verif",
            "enable": "none needed: all checks observe the public API of the unmodified crate (ommx is a path dependency of /verif/harness, rebuilt from /repo's working tree by ./check)",
            "baseline_off_cmd": "cd /repo && cargo test --workspace --no-fail-fast --offline",
            "source_commits": [],
            "add_only": True,
        },
        "engines": [
            {"name": "ommx-verif", "path": "/verif/harness", "serves_properties": [c["property_id"] for c in checks],
             "kind_free_text": "Rust binary: proptest TestRunner over byte choice-tapes (16 deterministic shards), fixed exhaustive sweeps, corpus replay, exact-rational / brute-force / independent-codec oracles, tape minimiser, replay files"},
        ],
        "checks": checks,
        "not_applicable": na,
        "notes": "exit 0 = held on everything explored; exit 1 + VIOLATION line = violation not listed in known_findings.json; exit 2 = inconclusive (build failure, watchdog, generator health check).",
    }
    json.dump(m, open("/verif/MANIFEST.json", "w"), indent=1)
    print("wrote MANIFEST.json with", len(checks), "checks,", len(na), "not_applicable")

main()
