#!/bin/bash
# tools/lanes.sh setup [K]        create K regression lanes under /tmp/lanes (a git worktree of /repo's HEAD + a copy of
#                                 /verif/harness whose path dependency and C07 file paths point into that worktree)
# tools/lanes.sh run <list> <out> run the cases of <list> (lines: "<name> <check-id> <patch file>") on the lanes in parallel:
#                                 apply the patch in the lane's worktree, rebuild, run the quick tier, revert; one result line
#                                 per case is appended to <out>
# tools/lanes.sh teardown         remove the lanes (worktrees and build output)
# Regression aid for seeded / benign / mutant patches only: it lets the whole set run while /repo and /verif stay usable.
# The registered checks never use it (they build from /repo's working tree); evidence goes to the lane's own directory.
L=/tmp/lanes
case "$1" in
setup)
  K=${2:-4}
  mkdir -p $L
  for i in $(seq 1 $K); do
    [ -d $L/$i/repo ] || git -C /repo worktree add -q --detach $L/$i/repo HEAD || exit 2
    git -C $L/$i/repo checkout -q --detach $(git -C /repo rev-parse HEAD) && git -C $L/$i/repo checkout -q -- .
    mkdir -p $L/$i/harness
    rsync -a --delete --exclude target /verif/harness/ $L/$i/harness/
    sed -i "s|/repo/|$L/$i/repo/|g" $L/$i/harness/Cargo.toml $L/$i/harness/src/props/c07.rs
    printf '[net]\noffline = true\n[build]\ntarget-dir = "%s"\n' $L/$i/target > $L/$i/harness/.cargo/config.toml
    ( cd $L/$i/harness && CARGO_NET_OFFLINE=true cargo build --release --offline 2>&1 | tail -1 ) &
  done
  wait
  echo $K > $L/K
  ;;
run)
  LIST=$2; OUT=$3; K=$(cat $L/K)
  export OUT L
  one() {
    name=$1; id=$2; patch=$3; i=$((SLOT + 1)); R=$L/$i
    cd $R/repo || exit 2
    git checkout -q -- .
    if ! git apply "$patch" 2>/dev/null; then echo "$name $id rc=9 patch-does-not-apply" >> $OUT; return; fi
    if ! ( cd $R/harness && CARGO_NET_OFFLINE=true cargo build --release --offline >$R/build.log 2>&1 ); then
      git checkout -q -- .; echo "$name $id rc=2 INCONCLUSIVE: build failed" >> $OUT; return
    fi
    out=$(cd $R/harness && VERIF_EVIDENCE_DIR=$R/evidence $R/target/release/ommx-verif run $id quick 2>&1); rc=$?
    git checkout -q -- .
    echo "$name $id rc=$rc $(echo "$out" | grep -E "FAILURE|INCONCLUSIVE|^OK" | head -1 | cut -c1-160)" >> $OUT
  }
  export -f one
  grep -v '^#' $LIST | xargs -P $K --process-slot-var=SLOT -L 1 bash -c 'one "$@"' _
  ;;
teardown)
  for d in $L/*/repo; do git -C /repo worktree remove --force $d 2>/dev/null; done
  rm -rf $L; git -C /repo worktree prune
  ;;
esac
