#!/usr/bin/env python3
"""tools/lanes_merge.py <lanes output file>: writes the results of a lanes regression (tools/lanes.sh run) into the
meta.json files of /verif/seeded and /verif/benign (fields check_results / check_result) and /verif/mutants/RESULTS.md."""
import sys,json,re,os
rows=[l.rstrip("\n") for l in open(sys.argv[1]) if l.strip()]
mut=[]
seen=set()
for l in rows:
    m=re.match(r'(\w+):(\S+) (\S+) rc=(\d+) ?(.*)$', l)
    if not m: continue
    kind,name,cid,rc,rest=m.groups()
    if kind=='seeded':
        # several lines for one variant (its own check and a sibling check) are accumulated
        p=f'/verif/seeded/{name}/meta.json'; d=json.load(open(p))
        d['check_results']=(d['check_results'] if name in seen else '')+f"{cid}:rc={rc}:{rest};"; seen.add(name); json.dump(d,open(p,'w'),indent=1)
    elif kind=='benign':
        p=f'/verif/benign/{name}/meta.json'; d=json.load(open(p)); d['check_result']=f"rc={rc} {rest}"; json.dump(d,open(p,'w'),indent=1)
    elif kind=='mutant':
        sig=re.search(r'signature=(\S+)',rest)
        note=''
        if os.path.exists(f'/verif/mutants/{name}.note'): note=' ('+open(f'/verif/mutants/{name}.note').read().strip()+')'
        res={'1':'killed','0':'SURVIVED'}.get(rc,f'inconclusive (rc={rc})')
        sg=(sig.group(1) if sig else '-').replace('|','\\|')
        mut.append(f"| {name} | {cid} | {res}{note} | {sg} |")
if mut:
    # rows of mutants that were not part of this run are kept from the existing file
    have={r.split('|')[1].strip() for r in mut}
    if os.path.exists('/verif/mutants/RESULTS.md'):
        for r in open('/verif/mutants/RESULTS.md'):
            if r.startswith('| ') and not r.startswith('| mutant') and r.split('|')[1].strip() not in have: mut.append(r.rstrip())
    out=["# Sensitivity probes: own mutants","","Each patch is applied to a worktree of /repo, the harness is rebuilt against it and the property's quick tier is run (`tools/lanes.sh`, the same binary and commands as `./check <ID> quick`), then the tree is reverted. `killed` = exit 1 with a VIOLATION line.","","| mutant | property | result | failure signature |","|---|---|---|---|"]+sorted(mut)
    open('/verif/mutants/RESULTS.md','w').write("\n".join(out)+"\n")
print(len(rows),"results merged")
