#!/bin/bash
# tools/mkmut.sh <name> <file-relative-to-/repo> <sed-expression>   -> /verif/mutants/<name>.diff
set -e
cd /repo
if [ -n "$(git status --porcelain)" ]; then echo "repo dirty"; exit 1; fi
sed -i "$3" "$2"
if [ -z "$(git status --porcelain)" ]; then echo "sed changed nothing"; exit 1; fi
git diff > /verif/mutants/$1.diff
git checkout -- .
echo "wrote mutants/$1.diff"
