#!/bin/bash
# tools/mut.sh <name|path.diff> <ID> [ID...]  : apply mutant to /repo, run quick checks, revert
cd /repo
if [ -n "$(git status --porcelain)" ]; then echo "repo dirty"; exit 1; fi
P=$1; [ -f "$P" ] || P=/verif/mutants/$1.diff
shift
git apply "$P" || { echo "patch does not apply"; exit 1; }
cd /verif
for id in "$@"; do
  out=$(./check $id ${TIER:-quick} 2>&1); rc=$?
  echo "[$(basename $P)] $id rc=$rc $(echo "$out" | grep -E 'FAILURE|INCONCLUSIVE|^OK' | head -2 | tr '\n' ' ')"
done
git -C /repo checkout -- .
