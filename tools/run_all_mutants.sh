#!/bin/bash
# Applies every patch in /verif/mutants to /repo (one at a time), runs the quick tier of the property named by
# the file name prefix (cNN-...), reverts, and writes /verif/mutants/RESULTS.md. /repo must be clean.
cd /repo || exit 1
[ -z "$(git status --porcelain)" ] || { echo "/repo dirty"; exit 1; }
OUT=/verif/mutants/RESULTS.md
{
echo "# Sensitivity probes: own mutants"
echo
echo "Each patch is applied to /repo's working tree, the property's quick tier is run (\`./check <ID> quick\`), and the tree is reverted. \`killed\` = exit 1 with a VIOLATION line."
echo
echo "| mutant | property | result | failure signature |"
echo "|---|---|---|---|"
} > $OUT
for p in /verif/mutants/*.diff; do
  name=$(basename $p .diff)
  id=$(echo $name | cut -c1-3 | tr c C)
  if ! git apply $p 2>/dev/null; then echo "| $name | $id | patch does not apply | - |" >> $OUT; continue; fi
  out=$(cd /verif && ./check $id quick 2>&1); rc=$?
  git checkout -q -- .
  sig=$(echo "$out" | grep -o "signature=[^ ]*" | head -1 | sed 's/signature=//; s/|/\\|/g')
  case $rc in
    1) res=killed ;;
    0) res="SURVIVED" ;;
    *) res="inconclusive (rc=$rc)" ;;
  esac
  note=""
  [ -f /verif/mutants/$name.note ] && note=" ($(cat /verif/mutants/$name.note))"
  echo "| $name | $id | $res$note | ${sig:--} |" >> $OUT
  echo "$name $res $sig"
done
{
echo
echo "Survivors are semantically equivalent mutants (see the note next to them)."
} >> $OUT
