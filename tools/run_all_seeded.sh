#!/bin/bash
# Regression over every seeded change: applies /verif/seeded/<name>/patch.diff to /repo (one at a time), runs the
# property's quick tier, reverts, and records the outcome in the variant's meta.json (field check_results).
# /repo must be clean. Out-of-domain variants (seeded/out_of_domain.json) are run too but are expected to pass.
cd /repo || exit 1
[ -z "$(git status --porcelain)" ] || { echo "/repo dirty"; exit 1; }
for d in /verif/seeded/C*-*/; do
  name=$(basename $d); id=${name%-*}
  if ! git apply $d/patch.diff 2>/dev/null; then echo "$name patch does not apply"; continue; fi
  out=$(cd /verif && ./check $id quick 2>&1); rc=$?
  git checkout -q -- .
  line=$(echo "$out" | grep -E "FAILURE|INCONCLUSIVE|^OK" | head -1)
  echo "$name rc=$rc $line"
  python3 - "$d/meta.json" "$id:rc=$rc:$line;" <<'PY'
import json,sys
p,res=sys.argv[1:3]
m=json.load(open(p)); m['check_results']=res; json.dump(m,open(p,'w'),indent=1)
PY
done
cd /verif && python3 tools/seeded_results.py
