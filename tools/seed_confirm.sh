#!/bin/bash
# tools/seed_confirm.sh <ID> <a|b>     (PHASE=confirm: scratch-worktree part only; PHASE=check: /repo part only, after confirm)
# Confirms a sub-agent's seeded change in its scratch worktree /tmp/seed/<ID> (never in /repo):
#   demo passes without the change, unit tests pass with it, demo fails with it.
# Then runs the property's quick check against it by applying the patch to /repo transiently.
# Writes /verif/seeded/<ID>-<v>/{patch.diff,demo.rs,meta.json}
ID=$1; V=$2
R=${SEED_ROOT:-/tmp/seed}; W=$R/$ID; O=$R/$ID-out
[ -f $O/$V.diff ] || { echo "no $O/$V.diff"; exit 1; }
PHASE=${PHASE:-all}
if [ "$PHASE" != check ]; then
cd $W || exit 1
git checkout -q -- . ; rm -rf rust/ommx/tests
mkdir -p rust/ommx/tests; cp $O/demo_$V.rs rust/ommx/tests/seed_demo.rs
export CARGO_NET_OFFLINE=true
clean_demo=$(cargo test -p ommx --test seed_demo --offline 2>&1 | grep -E "^test result" | head -1)
git apply $O/$V.diff || { echo "patch does not apply"; exit 1; }
unit=$(cargo test -p ommx --lib --offline 2>&1 | grep -E "^test result" | head -1)
mut_demo=$(cargo test -p ommx --test seed_demo --offline 2>&1 | grep -E "^test result" | head -1)
git checkout -q -- . ; rm -rf rust/ommx/tests
echo "demo clean : $clean_demo"
echo "unit mutant: $unit"
echo "demo mutant: $mut_demo"
printf '%s\n%s\n%s\n' "$clean_demo" "$unit" "$mut_demo" > $O/confirm_$V.txt
fi
[ "$PHASE" = confirm ] && exit 0
clean_demo=$(sed -n 1p $O/confirm_$V.txt); unit=$(sed -n 2p $O/confirm_$V.txt); mut_demo=$(sed -n 3p $O/confirm_$V.txt)
# run my check against it
cd /repo; [ -z "$(git status --porcelain)" ] || { echo "/repo dirty"; exit 1; }
git apply $O/$V.diff || { echo "patch does not apply to /repo"; exit 1; }
cd /verif
IDS=${CHECK_IDS:-$ID}
res=""
for c in $IDS; do
  out=$(VERIF_EVIDENCE_DIR=/verif/target/side-evidence ./check $c quick 2>&1); rc=$?
  line=$(echo "$out" | grep -E "FAILURE|INCONCLUSIVE|^OK" | head -1)
  echo "check $c rc=$rc $line"
  res="$res$c:rc=$rc:$line;"
done
git -C /repo checkout -q -- .
D=/verif/seeded/$ID-$V; mkdir -p $D
cp $O/$V.diff $D/patch.diff; cp $O/demo_$V.rs $D/demo.rs
python3 - "$ID" "$V" "$clean_demo" "$unit" "$mut_demo" "$res" <<'PY'
import json,sys,re
i,v,cd,un,md,res=sys.argv[1:7]
import os; notes=open(os.environ.get("SEED_ROOT","/tmp/seed")+f"/{i}-out/NOTES.md").read()
meta={"property":i,"variant":v,
 "confirmed":{"demo_on_clean_tree":cd,"unit_tests_with_change":un,"demo_with_change":md,
   "commands":["cd <scratch worktree of %s>; cp demo rust/ommx/tests/seed_demo.rs; cargo test -p ommx --test seed_demo --offline"%i,"git apply patch.diff; cargo test -p ommx --lib --offline; cargo test -p ommx --test seed_demo --offline","git -C /repo apply patch.diff; cd /verif && ./check <ID> quick; git -C /repo checkout -- ."]},
 "check_results":res,
 "origin":"written by a sub-agent that saw only the property text and its own scratch worktree",
 "needs_to_manifest":"see notes",
 "notes_from_author":notes[:6000]}
json.dump(meta,open(f'/verif/seeded/{i}-{v}/meta.json','w'),indent=1)
PY
