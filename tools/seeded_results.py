#!/usr/bin/env python3
"""Regenerates /verif/seeded/RESULTS.md from the per-variant meta.json files and seeded/missed_first.json."""
import json,glob,os,re
missed_first=json.load(open('/verif/seeded/missed_first.json'))
ood=json.load(open('/verif/seeded/out_of_domain.json'))
rows=[]
for d in sorted(glob.glob('/verif/seeded/*-*/')):
    name=os.path.basename(d.rstrip('/'))
    m=json.load(open(d+'meta.json'))
    res=m.get('check_results','')
    sig=re.search(r'signature=([^;]+)',res)
    caught='rc=1' in res
    m['caught_by_quick_check']=caught
    m['round']={'a':1,'b':1,'c':2,'d':2,'e':3,'f':3,'g':4,'h':4,'i':5,'j':5,'k':6,'l':6,'m':7,'n':7,'o':8,'p':8,'q':9,'r':9,'s':10,'t':10,'u':11,'v':11,'w':12,'x':12}.get(name[-1],1)
    if name in ood:
        m['out_of_domain']=ood[name]
    if name in missed_first:
        m['history']='missed by the quick check as first built; caught after strengthening: '+missed_first[name]
    json.dump(m,open(d+'meta.json','w'),indent=1)
    rows.append((name,m['property'],str(m['round']),'yes' if caught else ('n/a (out of domain)' if name in ood else 'NO'),(sig.group(1) if sig else '-').replace('|','\\|'), 'after strengthening' if name in missed_first else 'as built'))
out=['# Seeded changes written by independent sub-agents','',
'Each directory holds `patch.diff` (apply with `git -C /repo apply`, undo with `git -C /repo checkout -- .`), `demo.rs` (an integration test that passes on the clean tree and fails with the patch) and `meta.json` (what was confirmed, the author\'s notes on what the change needs in order to manifest, and the result of the property\'s quick check).',
'The authors saw only the text of one property and a private scratch worktree; nothing from /verif. Every variant was re-confirmed by `tools/seed_confirm.sh` in the scratch worktree: demo passes without the change, all 102 unit tests pass with it, demo fails with it.',
'Round 1 (variants a, b): one agent per property, two independent subtle changes each. Round 2 (variants c, d): agents were told that round 1 had produced straightforward single-site slips and were asked for harder-to-notice breakage combining several conditions. Round 3 (variants e, f): agents were told what rounds 1 and 2 looked like and asked for breakage through interactions with other API calls, value-dependent paths, larger sizes, state carried between calls and shared helpers. Round 4 (variants g, h): iteration order, id namespaces, large ids, absent-vs-default fields, metadata, idempotence, error paths, later elements of collections, text-format details. Round 5 (variants i, j): conditions a small-structure random generator hits with negligible probability (arithmetic relations between independent numbers, several optional features together, long call chains, creation order versus ids, medium sizes at powers of two, string shapes, caching / batching / pre-sizing rewrites, defensive normalisation, hand-written conversion impls). Round 6 (variants k, l): relations between two objects of one call, information flowing between fields, histories with an irrelevant-looking middle step, effects of an earlier failed call, float identities used as shortcuts, integer casts at ordinary counts, sort keys with ties, number formatting, unusual annotation values. Round 7 (variants m, n): told everything the generators cover by then; pointed at uncompared outputs (order, new ids / names / metadata, error contents), first-call-versus-later behaviour, parity of counts, three-way interactions on one id, doubly degenerate values, thirds and tenths with squares, the last element, rarely called operator / trait variants. Round 8 (variants o, p): two cooperating sites, other entry points / trait impls for the same job, dependence on unrelated content of the same object, longer mixed histories, arithmetic relations among input numbers, integer / float conversions at ordinary values, rarely written text-format features, container / metadata corner cases. Round 9 (variants q, r): as round 8, told what round 8 added, with the emphasis on cooperating sites and on state left behind by an earlier call of a different kind. Round 10 (variants s, t): the same brief, told what round 9 had added. Round 11 (variants u, v): the same brief once more, told what round 10 had added. Round 12 (variants w, x; ten properties only, those with misses in rounds 10 and 11): the same brief, told what round 11 had added.','',
'| seeded change | property | round | caught by quick check | failure signature | when |','|---|---|---|---|---|---|']
for r in rows: out.append('| '+' | '.join(r)+' |')
n1=[r for r in rows if r[2]=='1']; n2=[r for r in rows if r[2]=='2']; n3=[r for r in rows if r[2]=='3']; n4=[r for r in rows if r[2]=='4']; n5=[r for r in rows if r[2]=='5']; n6=[r for r in rows if r[2]=='6']; n7=[r for r in rows if r[2]=='7']; n8=[r for r in rows if r[2]=='8']; n9=[r for r in rows if r[2]=='9']; n10=[r for r in rows if r[2]=='10']; n11=[r for r in rows if r[2]=='11']; n12=[r for r in rows if r[2]=='12']
out+=['',f'{len(rows)} variants ({len(n1)} in round 1, {len(n2)} in round 2, {len(n3)} in round 3, {len(n4)} in round 4, {len(n5)} in round 5, {len(n6)} in round 6, {len(n7)} in round 7, {len(n8)} in round 8, {len(n9)} in round 9, {len(n10)} in round 10, {len(n11)} in round 11, {len(n12)} in round 12), {sum(1 for r in rows if r[3]=="yes")} caught by the current checks. {len(missed_first)} were missed by the checks as first built and led to stronger generators / oracles:','']
for k,v in missed_first.items(): out.append(f'* **{k}** — {v}.')
out+=['','Not caught and not expected to be:','']+[f'* **{k}** — {v}' for k,v in ood.items()]
out+=['','Two of the round-2 misses (C14-c, C14-d) were already caught by a sibling check (C05, C06) because the broken code belongs to evaluation; C14 was strengthened nevertheless.']
open('/verif/seeded/RESULTS.md','w').write('\n'.join(out)+'\n')
print(len(rows),'variants,',sum(1 for r in rows if r[3]=="yes"),'caught')
