#!/bin/bash
# tools/soak.sh <seed> [<seed> ...]   run the quick tier of all twenty checks on /repo's current tree under each seed
# (fresh process per check, evidence redirected to target/side-evidence so that evidence/ keeps the VERIF_SEED=1 run).
# Appends one line per (seed, property) to /verif/soak_log.txt; prints every line that is not an OK line.
cd /verif || exit 2
[ -z "$(git -C /repo status --porcelain)" ] || { echo "/repo is not clean"; exit 2; }
head=$(git -C /repo rev-parse --short HEAD); hv=$(git -C /verif rev-parse --short HEAD)
for s in "$@"; do
  for i in 01 02 03 04 05 06 07 08 09 10 11 12 13 14 15 16 17 18 19 20; do
    out=$(VERIF_SEED=$s VERIF_EVIDENCE_DIR=/verif/target/side-evidence ./check C$i quick 2>&1); rc=$?
    line=$(echo "$out" | grep -E "^OK|FAILURE|INCONCLUSIVE|VIOLATION" | head -1 | cut -c1-160)
    echo "repo=$head verif=$hv seed=$s C$i rc=$rc $line" >> /verif/soak_log.txt
    [ $rc -eq 0 ] || echo "seed=$s C$i rc=$rc $line"
  done
done
echo "soak done: $*"
