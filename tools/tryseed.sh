#!/bin/bash
# tools/tryseed.sh <seeded-name> [check-id]   apply /verif/seeded/<name>/patch.diff to /repo, run the quick check, revert
name=$1; id=${2:-${name%-*}}
cd /repo || exit 2
[ -z "$(git status --porcelain)" ] || { echo "/repo dirty"; exit 2; }
git apply /verif/seeded/$name/patch.diff || exit 2
out=$(cd /verif && VERIF_EVIDENCE_DIR=/verif/target/side-evidence ./check $id quick 2>&1); rc=$?
git checkout -q -- .
echo "$name vs $id rc=$rc $(echo "$out" | grep -E "FAILURE|INCONCLUSIVE|^OK" | head -1 | cut -c1-200)"
